"""Helpers shared by the property modules."""
import collections
import json
import os
import time

import vlib
import impl
import gens


def corpus(stage):
    p = os.path.join(vlib.VERIF, 'corpus', stage + '.json')
    try:
        with open(p) as f:
            return [''.join(map(chr, x)) for x in json.load(f)]
    except OSError:
        return []


def gen_texts(ctx, n, maxlen=None, proc_share=0.2):
    """Mixed inputs: grammar scripts (random layouts/casings/comments), procedural scripts, junk,
    unicode soup, spliced mixes."""
    maxlen = maxlen or ctx.n(400, 2500)
    out = []
    dist = collections.Counter()
    r = ctx.rng
    for _ in range(n):
        if r.random() < proc_share:
            g = gens.ProcGen(r)
            pre, c, post = g.script_with_create()
            s = gens.render(pre + c + post, r, layout=r.choice(['canon', 'random']),
                            comments=r.choice([0, 0, 0.1]), recase=r.choice([None, 'random', 'lower']))
            kind = 'proc'
        else:
            s, kind = gens.mixed_text(r)
        out.append(s[:maxlen])
        dist[kind] += 1
    return out, dist


def corr_stage(cmd, texts, impl_fn, stage, extra=''):
    """Compare the model's reply for `<cmd> <text>` with impl_fn(text)."""
    replies = vlib.run_model([f'{cmd} {extra}{vlib.cps(s)}' for s in texts])
    dis = []
    mine_all = []
    for s, r in zip(texts, replies):
        mine = impl_fn(s)
        mine_all.append(mine)
        if mine != r:
            dis.append({'stage': stage, 'input': [ord(c) for c in s], 'impl': mine[:400], 'model': r[:400]})
    return dis, mine_all


def tree_shape(dump):
    """Shape of a tree dump: the dump with all code points removed."""
    import re
    return re.sub(r'[0-9,]+', '', dump)


def length_hist(texts):
    h = collections.Counter(min(len(s) // 50 * 50, 1000) for s in texts)
    return {str(k): v for k, v in sorted(h.items())}


def shrink_text(s, fails):
    """Delta-debugging on characters: smallest substring-deleted text on which fails() is truthy."""
    best = fails(s)
    if not best:
        return s, best
    changed = True
    while changed and len(s) > 1:
        changed = False
        k = max(1, len(s) // 2)
        while k >= 1:
            i = 0
            while i < len(s):
                t = s[:i] + s[i + k:]
                g = fails(t) if t else None
                if g:
                    s, best, changed = t, g, True
                else:
                    i += k
            k //= 2
    return s, best


def generic_search(ctx, hints, oracle, gen=None, extra_inputs=()):
    """Search stage: disagreeing inputs, corpus-like extras, then the generators under a budget."""
    fails = []
    tried = 0
    cands = []
    for d in hints.get('disagreements', []):
        if 'input' in d:
            cands.append(''.join(map(chr, d['input'])))
    cands.extend(extra_inputs)
    for s in cands:
        tried += 1
        f = oracle(s)
        if f:
            fails.append(f)
            break
    if not fails:
        t0 = time.time()
        budget = ctx.n(60, 600)
        while time.time() - t0 < budget and not fails:
            s = gen(ctx.rng) if gen else gens.mixed_text(ctx.rng)[0]
            tried += 1
            f = oracle(s)
            if f:
                fails.append(f)
    return {'failures': fails[:1], 'tried': tried}


def shrink_failure(f, oracle):
    if not f or 'input' not in f:
        return f
    s = ''.join(map(chr, f['input']))
    _, best = shrink_text(s, oracle)
    return best or f


def replay_with(oracle, payload):
    f = payload.get('failure')
    if not f or 'input' not in f:
        return {'fails': False, 'note': 'no concrete input in replay file: ' + str(payload.get('no_longer_checks'))}
    g = oracle(''.join(map(chr, f['input'])))
    return {'fails': bool(g), 'observed': g}


# ---- long tokens / long runs (gens.long_cases): direct checks on the implementation -----------------------------------
def long_lex_failure(kind, text, span):
    """C01/C14 on one long input: values concatenate to the input, no empty token, Error tokens have length 1, and the
    long opaque region (span) is exactly ONE token."""
    from sqlparse import lexer, tokens as T
    inp_note = {'long_input': {'kind': kind, 'length': len(text)}}
    try:
        toks = list(lexer.tokenize(text))
    except Exception as e:  # noqa
        return dict(inp_note, input=[ord(c) for c in text[:200]], text_recipe=kind,
                    observed='tokenize raised %s: %s' % (type(e).__name__, str(e)[:120]))
    if ''.join(v for _, v in toks) != text:
        return dict(inp_note, input=[ord(c) for c in text[:200]], text_recipe=kind,
                    observed='token values do not concatenate to the input (long input: %s, %d characters)' % (kind, len(text)))
    pos = 0
    for tt, v in toks:
        if v == '' or (tt is T.Error and len(v) != 1):
            return dict(inp_note, input=[ord(c) for c in text[:200]], text_recipe=kind, observed='empty token / long Error token')
        if span and pos <= span[0] < pos + len(v) and (pos, pos + len(v)) != tuple(span):
            return dict(inp_note, input=[ord(c) for c in text[:200]], text_recipe=kind,
                        observed='the %d-character region (%s) is not ONE token: the token at its start covers [%d, %d)'
                                 % (span[1] - span[0], kind, pos, pos + len(v)))
        pos += len(v)
    return None


def long_case_text(f):
    """Rebuild the text of a long-input failure from its recipe (replay)."""
    import gens
    li = f.get('long_input') or {}
    for quick in (True, False):
        for kind, text, span in gens.long_cases(quick):
            if kind == li.get('kind') and len(text) == li.get('length'):
                return kind, text, span
    return None


def kernel_route(ctx, stage, texts, res, dist=None):
    """Second evaluation route: a sample of the texts (corpus first) is evaluated by the KERNEL (vm_compute inside coqc, no
    extraction, no OCaml) and compared with the implementation; disagreements go to res['disagreements'] under the stage
    name kernel-<stage>.  Sharded: at most 150 texts per generated Coq file."""
    import kernel_corr
    n = ctx.n(120, 1500)
    sample = [t for t in texts if len(t) <= 400][:n]
    done = 0
    for i in range(0, len(sample), 150):
        d, k = kernel_corr.stage_disagreements(stage, sample[i:i + 150])
        res['disagreements'] += d
        done += k
    if dist is not None:
        dist['kernel_evaluated_' + stage] = done
    return done
