"""Helpers shared by the property modules."""
import collections
import json
import os
import time

import vlib
import impl
import gens


def corpus(stage):
    p = os.path.join(vlib.VERIF, 'corpus', stage + '.json')
    try:
        with open(p) as f:
            return [''.join(map(chr, x)) for x in json.load(f)]
    except OSError:
        return []


def gen_texts(ctx, n, maxlen=None, proc_share=0.2):
    """Mixed inputs: grammar scripts (random layouts/casings/comments), procedural scripts, junk,
    unicode soup, spliced mixes."""
    maxlen = maxlen or ctx.n(400, 2500)
    out = []
    dist = collections.Counter()
    r = ctx.rng
    for _ in range(n):
        if r.random() < proc_share:
            g = gens.ProcGen(r)
            pre, c, post = g.script_with_create()
            s = gens.render(pre + c + post, r, layout=r.choice(['canon', 'random']),
                            comments=r.choice([0, 0, 0.1]), recase=r.choice([None, 'random', 'lower']))
            kind = 'proc'
        else:
            s, kind = gens.mixed_text(r)
        out.append(s[:maxlen])
        dist[kind] += 1
    return out, dist


def corr_stage(cmd, texts, impl_fn, stage, extra=''):
    """Compare the model's reply for `<cmd> <text>` with impl_fn(text)."""
    replies = vlib.run_model([f'{cmd} {extra}{vlib.cps(s)}' for s in texts])
    dis = []
    mine_all = []
    for s, r in zip(texts, replies):
        mine = impl_fn(s)
        mine_all.append(mine)
        if mine != r:
            dis.append({'stage': stage, 'input': [ord(c) for c in s], 'impl': mine[:400], 'model': r[:400]})
    return dis, mine_all


def tree_shape(dump):
    """Shape of a tree dump: the dump with all code points removed."""
    import re
    return re.sub(r'[0-9,]+', '', dump)


def length_hist(texts):
    h = collections.Counter(min(len(s) // 50 * 50, 1000) for s in texts)
    return {str(k): v for k, v in sorted(h.items())}


def shrink_text(s, fails):
    """Delta-debugging on characters: smallest substring-deleted text on which fails() is truthy."""
    best = fails(s)
    if not best:
        return s, best
    changed = True
    while changed and len(s) > 1:
        changed = False
        k = max(1, len(s) // 2)
        while k >= 1:
            i = 0
            while i < len(s):
                t = s[:i] + s[i + k:]
                g = fails(t) if t else None
                if g:
                    s, best, changed = t, g, True
                else:
                    i += k
            k //= 2
    return s, best


def new_only(prop, oracle, classify):
    """oracle restricted to failures that are not instances of a listed (open) finding of `prop` -- for the search stage, which
    looks for an input that fails BECAUSE of a change"""
    known = [k for k in vlib.load_known_findings() if k.get('property') == prop and k.get('status') == 'open']

    def f(*a, **kw):
        r = oracle(*a, **kw)
        if isinstance(r, dict) and classify(r, known) is not None:
            return None
        return r
    return f


def generic_search(ctx, hints, oracle, gen=None, extra_inputs=(), cand_oracle=None):
    """Search stage: disagreeing inputs, corpus-like extras, then the generators under a budget."""
    fails = []
    tried = 0
    cands = []
    for d in hints.get('disagreements', []):
        if 'input' in d:
            cands.append(''.join(map(chr, d['input'])))
    cands.extend(extra_inputs)
    for s in cands:
        tried += 1
        f = oracle(s) or (cand_oracle(s) if cand_oracle else None)     # cand_oracle: for the candidate inputs only
        if f:
            fails.append(f)
            break
    if not fails:
        t0 = time.time()
        budget = ctx.n(60, 600)
        while time.time() - t0 < budget and not fails:
            s = gen(ctx.rng) if gen else gens.mixed_text(ctx.rng)[0]
            tried += 1
            f = oracle(s)
            if f:
                fails.append(f)
    return {'failures': fails[:1], 'tried': tried}


def shrink_failure(f, oracle):
    if not f or 'input' not in f:
        return f
    s = ''.join(map(chr, f['input']))
    _, best = shrink_text(s, oracle)
    return best or f


def replay_with(oracle, payload):
    f = payload.get('failure')
    if not f or 'input' not in f:
        return {'fails': False, 'note': 'no concrete input in replay file: ' + str(payload.get('no_longer_checks'))}
    g = oracle(''.join(map(chr, f['input'])))
    return {'fails': bool(g), 'observed': g}


# ---- long tokens / long runs (gens.long_cases): direct checks on the implementation -----------------------------------
def long_lex_failure(kind, text, span):
    """C01/C14 on one long input: values concatenate to the input, no empty token, Error tokens have length 1, and the
    long opaque region (span) is exactly ONE token."""
    from sqlparse import lexer, tokens as T
    inp_note = {'long_input': {'kind': kind, 'length': len(text)}}
    try:
        toks = list(lexer.tokenize(text))
    except Exception as e:  # noqa
        return dict(inp_note, input=[ord(c) for c in text[:200]], text_recipe=kind,
                    observed='tokenize raised %s: %s' % (type(e).__name__, str(e)[:120]))
    if ''.join(v for _, v in toks) != text:
        return dict(inp_note, input=[ord(c) for c in text[:200]], text_recipe=kind,
                    observed='token values do not concatenate to the input (long input: %s, %d characters)' % (kind, len(text)))
    pos = 0
    for tt, v in toks:
        if v == '' or (tt is T.Error and len(v) != 1):
            return dict(inp_note, input=[ord(c) for c in text[:200]], text_recipe=kind, observed='empty token / long Error token')
        if span and pos <= span[0] < pos + len(v) and (pos, pos + len(v)) != tuple(span):
            return dict(inp_note, input=[ord(c) for c in text[:200]], text_recipe=kind,
                        observed='the %d-character region (%s) is not ONE token: the token at its start covers [%d, %d)'
                                 % (span[1] - span[0], kind, pos, pos + len(v)))
        pos += len(v)
    return None


def long_case_text(f):
    """Rebuild the text of a long-input failure from its recipe (replay)."""
    import gens
    li = f.get('long_input') or {}
    for quick in (True, False):
        for kind, text, span in gens.long_cases(quick):
            if kind == li.get('kind') and len(text) == li.get('length'):
                return kind, text, span
    return None


def kernel_route(ctx, stage, texts, res, dist=None):
    """Second evaluation route: a sample of the texts (corpus first) is evaluated by the KERNEL (vm_compute inside coqc, no
    extraction, no OCaml) and compared with the implementation; disagreements go to res['disagreements'] under the stage
    name kernel-<stage>.  Sharded: at most 150 texts per generated Coq file."""
    import kernel_corr
    n = ctx.n(120, 1500)
    sample = [t for t in texts if len(t) <= 400][:n]
    done = 0
    for i in range(0, len(sample), 150):
        d, k = kernel_corr.stage_disagreements(stage, sample[i:i + 150])
        res['disagreements'] += d
        done += k
    if dist is not None:
        dist['kernel_evaluated_' + stage] = done
    return done


# ---- inputs beyond plausible size thresholds (gens.threshold_cases): per-property checks on the real library -----------
def _nodes(p):
    out = []

    def w(t):
        out.append(t)
        if t.is_group:
            for c in t.tokens:
                w(c)
    w(p)
    return out


def _th_check(prop, kind, text, meta):
    """-> description of the failure of property `prop` on this input, or None"""
    import sqlparse
    from sqlparse import sql, tokens as T
    try:
        stmts = sqlparse.parse(text)
    except sqlparse.exceptions.SQLParseError:
        return None                                   # allowed outcome for pathological nesting (C15)
    except Exception as e:  # noqa
        return 'parse raised %s' % type(e).__name__ if prop in ('C07', 'C02', 'C03') else None
    if prop == 'C02':
        if ''.join(str(s) for s in stmts) != text:
            return 'str() of the statements does not reproduce the input'
        for s in stmts:
            for n in _nodes(s):
                if n.is_group and str(n) != ''.join(t.value for t in n.flatten()):
                    return 'str(node) differs from the concatenation of its leaves'
        return None
    if prop == 'C03':
        from sqlparse import lexer
        leaves = [t for s in stmts for t in s.flatten()]
        if [(t.value) for t in leaves] != [v for _, v in lexer.tokenize(text)]:
            return 'the leaves are not the lexer tokens'
        for s in stmts:
            for n in _nodes(s):
                if n.is_group:
                    if not n.tokens:
                        return 'empty group ' + type(n).__name__
                    if n.value != str(n):
                        return 'cached value of %s differs from its text' % type(n).__name__
                    for c in n.tokens:
                        if c.parent is not n:
                            return 'parent of a child of %s is not that group' % type(n).__name__
        return None
    if prop == 'C09':
        ns = [n for s in stmts for n in _nodes(s)]
        d = meta.get('depth')
        if kind == 'deep-paren-case':
            ok = sum(isinstance(n, sql.Parenthesis) for n in ns) == d and sum(isinstance(n, sql.Case) for n in ns) == 1
            return None if ok else 'expected %d Parenthesis nodes around 1 Case node' % d
        if kind == 'deep-paren-if':
            ok = sum(isinstance(n, sql.Parenthesis) for n in ns) == d and sum(isinstance(n, sql.If) for n in ns) == 1
            return None if ok else 'expected %d Parenthesis nodes around 1 If node' % d
        if kind == 'deep-bracket':
            ok = sum(isinstance(n, sql.SquareBrackets) for n in ns) == d and sum(isinstance(n, sql.Parenthesis) for n in ns) == 1
            return None if ok else 'expected %d SquareBrackets nodes around 1 Parenthesis node' % d
        if kind == 'deep-function':
            ok = sum(isinstance(n, sql.Parenthesis) for n in ns) == d
            return None if ok else 'expected %d Parenthesis nodes' % d
        if kind.startswith('many-tokens'):
            want = text.count('(')
            got = sum(isinstance(n, sql.Parenthesis) for n in ns)
            return None if got == want else 'expected %d Parenthesis nodes, found %d' % (want, got)
        return None
    if prop == 'C12':
        if kind == 'many-qualified-aliased':
            # a select list of more than 10000 tokens: every item `q.c<i> AS a<i>` is one Identifier with the written parts
            for i in meta['probe']:
                ref = 'q.c%d AS a%d' % (i, i)
                ids = [n for s in stmts for n in _nodes(s) if isinstance(n, sql.Identifier) and str(n) == ref]
                if len(ids) != 1:
                    return 'the written reference %r is not one Identifier (%d found)' % (ref, len(ids))
                x = ids[0]
                got = (x.get_alias(), x.get_real_name(), x.get_parent_name(), x.get_name(), x.has_alias())
                want = ('a%d' % i, 'c%d' % i, 'q', 'a%d' % i, True)
                if got != want:
                    return 'accessors of %r return %r, written %r' % (ref, got, want)
            return None
        if kind != 'deep-subquery-alias':
            return None
        ids = [n for s in stmts for n in _nodes(s) if isinstance(n, sql.Identifier) and str(n) == meta['ident']]
        if len(ids) != 1:
            return 'the written reference %r is not one Identifier (%d found)' % (meta['ident'], len(ids))
        i = ids[0]
        got = (i.get_alias(), i.get_real_name(), i.get_parent_name(), i.get_name(), i.has_alias())
        want = (meta['alias'], meta['real'], meta['parent'], meta['alias'], True)
        return None if got == want else 'accessors of %r return %r, written %r' % (meta['ident'], got, want)
    if prop == 'C13':
        ns = [n for s in stmts for n in _nodes(s)]
        if kind == 'many-tokens-select':
            ws = [str(n) for n in ns if isinstance(n, sql.Where)]
            if ws != [meta['where']]:
                return 'Where nodes %r, written %r' % ([w[:40] for w in ws], meta['where'])
            ils = [n for n in ns if isinstance(n, sql.IdentifierList)]
            if len(ils) != 1 or len(list(ils[0].get_identifiers())) != meta['items']:
                return 'the select list of %d items is not ONE IdentifierList with those items' % meta['items']
        if kind == 'many-tokens-in-list':
            ws = [str(n) for n in ns if isinstance(n, sql.Where)]
            if len(ws) != 1 or not ws[0].startswith(meta['where_prefix']) or 'returning' in ws[0].lower():
                return 'Where node does not span WHERE .. just before RETURNING'
        if kind == 'deep-function':
            fs = [n for n in ns if isinstance(n, sql.Function)]
            if len(fs) != meta['depth']:
                return 'expected %d nested Function nodes, found %d' % (meta['depth'], len(fs))
            inner = min(fs, key=lambda f: len(str(f)))
            if [str(p) for p in inner.get_parameters()] != ['x', '1']:
                return 'get_parameters() of the innermost call is %r' % [str(p) for p in inner.get_parameters()]
        return None
    if prop == 'C18':
        want = meta.get('type') or ('SELECT' if kind in ('many-tokens-select', 'deep-subquery-alias', 'deep-function') else None)
        if want and stmts and stmts[0].get_type() != want:
            return 'get_type() = %r, expected %r' % (stmts[0].get_type(), want)
        return None
    if prop in ('C10', 'C06'):
        if not kind.startswith('many-tokens'):
            return None
        try:
            out = sqlparse.format(text, strip_whitespace=True)
        except Exception as e:  # noqa
            return None
        if prop == 'C10':
            import re as _re
            if _re.search(r'\( | \)|  ', out):
                return 'strip_whitespace output has a blank after ( / before ) / a double blank'
            return None
        from sqlparse import lexer
        sig = lambda s: [v for tt, v in lexer.tokenize(s) if tt not in T.Whitespace]
        if sig(out) != sig(text):
            return 'strip_whitespace changed the sequence of non-whitespace tokens'
        return None
    if prop == 'C07':
        for opts in ({}, {'reindent': True}, {'strip_whitespace': True, 'keyword_case': 'upper'}):
            try:
                sqlparse.format(text, **opts)
            except sqlparse.exceptions.SQLParseError:
                pass
            except Exception as e:  # noqa
                return 'format(**%r) raised %s' % (opts, type(e).__name__)
        for s in stmts[:1]:
            try:
                s.get_type()
            except Exception as e:  # noqa
                return 'get_type() raised %s' % type(e).__name__
        return None
    return None


_TH_KINDS = {
    'C12': ('deep-subquery-alias', 'many-qualified-aliased'),
    'C18': ('many-tokens-cte-insert', 'many-tokens-in-list', 'deep-subquery-alias'),
    'C10': ('many-tokens-select', 'many-tokens-in-list'),
    'C06': ('many-tokens-select', 'many-tokens-cte-insert'),
    'C13': ('many-tokens-select', 'many-tokens-in-list', 'deep-function'),
    'C07': ('deep-paren-case', 'deep-subquery-alias', 'deep-function', 'many-tokens-cte-insert'),
}


def threshold_failures(prop, quick=True):
    import gens
    out = []
    for kind, text, meta in gens.threshold_cases(quick):
        if prop in _TH_KINDS and kind not in _TH_KINDS[prop]:
            continue
        why = _th_check(prop, kind, text, meta)
        if why:
            out.append({'input': [ord(c) for c in text[:200]], 'threshold_input': {'kind': kind, 'length': len(text)},
                        'observed': 'input beyond a size threshold (%s, %d characters): %s' % (kind, len(text), why)})
    return out


def threshold_replay(prop, f):
    import gens
    ti = f.get('threshold_input') or {}
    for quick in (True, False):
        for kind, text, meta in gens.threshold_cases(quick):
            if kind == ti.get('kind') and len(text) == ti.get('length'):
                why = _th_check(prop, kind, text, meta)
                return {'fails': bool(why), 'observed': why}
    return {'fails': False, 'note': 'threshold input not found'}
