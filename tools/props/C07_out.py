"""C07 (output_format part) - format(text, output_format='python'|'php', **options) returns normally or
raises SQLParseError.

Stages
 1 correspondence `outfmt`:  extracted model cur_format_out  vs  sqlparse.format(text, output_format=f)  (final STRING)
 2 correspondence `fmtall`:  extracted model cur_format  vs  sqlparse.format(text, **options) for option sets whose
   filters are modelled (keyword_case, identifier_case, truncate_strings/char, strip_comments, strip_whitespace,
   reindent + sub-options, output_format)
 3 str.splitlines / has_nl unit correspondence (+ the line-boundary set against the running interpreter, exhaustively)
 4 the decoders of Filters/Output.v (pydec) against Python itself: whenever pydec reads a produced right-hand side,
   ast.literal_eval reads the same string
 5 direct oracle on the real library: over generated + junk inputs x random VALID option sets (also the filters that
   are not modelled: use_space_around_operators, reindent_aligned, right_margin) nothing but SQLParseError escapes.
   An exception that is raised identically WITHOUT output_format is not attributable to the output filters
   (theorem C07_output_adds_no_exception): it is counted as `foreign` and reported in the notes, not as a failure
   of this part.
 6 (outside the wording of C07 and of every other property: output_format is no layout option and C07 is about
   exceptions only)  for output_format='python': the produced source is parsed with ast (never executed); every
   statement must be `sql`/`sqlN` = a string constant whose content equals the statement text with white space
   normalised.  Deviations are classified, shrunk and reported under distribution['python_source_deviations'].
"""
import ast
import collections
import re
import time

import sqlparse
from sqlparse import engine, filters, formatter, lexer, tokens as T
from sqlparse.exceptions import SQLParseError

import vlib
import gens
import gens_output as go
import impl_output as io
from props import common

THEOREMS = [
    'Props/C07_out.v: C07_output_total (forall f t, exists s, cur_format_out f t = Ok s)',
    'C07_output_adds_no_exception (forall o f t, status (cur_format (set_out o (Some f)) t) = status (cur_format '
    '(set_out o None) t): adding output_format never changes whether/what format() raises, for every modelled option set)',
    'C07_output_instance (cur_format (out_only f) t = cur_format_out f t)',
    'C07_output_python_denotes / C07_output_php_denotes (no backslash / raw line end [php: no backslash / $] in the copied '
    'values => the emitted text is `[\\n]name = ` ++ rhs and the literals of rhs denote payload(children))',
    'C07_output_payload_text (without grouping: squash(payload) = squash(statement text))',
    'C07_output_counter (statement i of a call gets count done+i+1), C07_output_has_nl (has_nl = a line boundary in the '
    'stripped text)',
    'Filters/OutputFacts.v: python_backslash_refuted, python_raw_newline_refuted, python_paren_refuted, '
    'has_nl_break_refuted, stale_group_value_refuted (what does NOT hold, with witnesses)',
]
TRUSTED = ['hand-written model Filters/Output.v of filters/output.py, of OutputFilter.process and of the option plumbing in '
           'formatter.build_filter_stack / FilterStack.run, tied to the code by the final-string correspondence stages 1-2',
           'str.splitlines line-boundary set (Output.is_linebreak) checked against the running interpreter on all code points',
           'pydec/phpdec are specification-side readers of a fragment of Python/PHP string-literal syntax; pydec is checked '
           'against ast.literal_eval in stage 4; phpdec is not checked against a PHP interpreter']
ASSUMPTIONS = ['option sets with use_space_around_operators / reindent_aligned are covered by the direct oracle only (their '
               'filters are not modelled); right_margin is not generated: undocumented, and RightMarginFilter.process raises '
               'NotImplementedError unconditionally']


# ---------------------------------------------------------------------------------------------------
# oracle (exceptions)
def run_format(text, opts):
    """-> ('OK', out) | ('SQLParseError', msg) | ('EXC', exception)"""
    try:
        return 'OK', sqlparse.format(text, **dict(opts))
    except SQLParseError as e:
        return 'SQLParseError', str(e)
    except Exception as e:  # noqa
        return 'EXC', e


def oracle_exc(text, opts):
    """Failure dict when format(text, **opts) lets an exception other than SQLParseError escape that does not
    escape identically without output_format; ('foreign', name) when it does; None otherwise."""
    st, r = run_format(text, opts)
    if st != 'EXC':
        return None
    name = io.exn_name(r)
    if opts.get('output_format') in ('python', 'php'):
        o2 = {k: v for k, v in opts.items() if k != 'output_format'}
        st2, r2 = run_format(text, o2)
        if st2 == 'EXC' and io.exn_name(r2) == name:
            return ('foreign', name)
    elif 'output_format' not in opts or opts.get('output_format') == 'sql':
        return ('foreign', name)
    return {'input': [ord(c) for c in text], 'options': opts, 'class': 'exception:' + name,
            'observed': f'{name}: {r}'[:200]}


def oracle(text, opts=None):
    opts = opts if opts is not None else {'output_format': 'python'}
    f = oracle_exc(text, opts)
    return f if isinstance(f, dict) else None


# ---------------------------------------------------------------------------------------------------
# python source check (outside the property wording)
GROUPING_OPTS = ('strip_comments', 'strip_whitespace', 'reindent', 'reindent_aligned', 'right_margin',
                 'use_space_around_operators', 'indent_columns')


def statements_and_pieces(text, opts):
    """(statement texts under opts minus output_format, serialized pieces with output_format)"""
    o_plain = {k: v for k, v in opts.items() if k != 'output_format'}
    st = engine.FilterStack()
    st = formatter.build_filter_stack(st, formatter.validate_options(dict(o_plain)))
    plain = [str(s) for s in st.run(text)]
    st2 = engine.FilterStack()
    st2 = formatter.build_filter_stack(st2, formatter.validate_options(dict(opts)))
    st2.postprocess.append(filters.SerializerUnicode())
    pieces = list(st2.run(text))
    return plain, pieces


def norm_ws(s):
    return ' '.join(s.split())


def parse_python_source(src):
    """-> list of (name, value) | ('error', description). The source is parsed, never executed."""
    try:
        mod = ast.parse(src)
    except (SyntaxError, ValueError, MemoryError, RecursionError) as e:
        return ('error', type(e).__name__ + ': ' + str(getattr(e, 'msg', e))[:60])
    out = []
    for node in mod.body:
        if isinstance(node, ast.Assign) and len(node.targets) == 1 and isinstance(node.targets[0], ast.Name) \
                and isinstance(node.value, ast.Constant) and isinstance(node.value.value, str):
            out.append((node.targets[0].id, node.value.value))
        else:
            return ('error', 'not an assignment of a string constant: ' + type(node).__name__)
    return out


def has_surrogate(s):
    return any(0xd800 <= ord(c) <= 0xdfff for c in s)


def classify_py(text, opts, stmts, kind):
    """Why the produced Python source deviates: the violated premise of the theorems."""
    grouping = any(opts.get(k) for k in GROUPING_OPTS)
    if any(len(s.strip().splitlines()) <= 1 and '\n' in s for s in stmts):
        return kind + ':line-break-token-without-parentheses'     # has_nl is computed from the stripped text
    if grouping and python_source_check(text, {'output_format': 'python'}) is None:
        return kind + ':stale-group-value'                        # cached value of a top-level group is copied
    toks = list(lexer.tokenize(text))
    if kind == 'py-value' and '\\' in text:
        return kind + ':backslash-not-escaped'
    if any('\n' in v or '\r' in v for tt, v in toks if tt not in T.Whitespace) or any('\r' == v for tt, v in toks):
        cause = 'raw-line-end-in-token'                    # -- comment\n, multi-line comment/literal, bare \r
    elif '\\' in text:
        cause = 'backslash-not-escaped'
    elif '\x00' in text:
        cause = 'nul-character'
    elif grouping:
        cause = 'stale-group-value'
    else:
        cause = 'unexplained'
    return kind + ':' + cause


def python_source_check(text, opts):
    """None when the produced Python source assigns the (whitespace-normalised) statements; else a deviation dict."""
    if opts.get('output_format') != 'python' or has_surrogate(text):
        return None            # a Python source text cannot contain lone surrogates at all
    try:
        stmts, pieces = statements_and_pieces(text, opts)
    except Exception:  # noqa  (exceptions are the business of oracle_exc)
        return None
    src = ''.join(pieces)
    inp = [ord(c) for c in text]
    parsed = parse_python_source(src)
    if isinstance(parsed, tuple):
        return {'input': inp, 'options': opts, 'class': classify_py(text, opts, stmts, 'py-syntax'),
                'observed': parsed[1], 'output': src[:300]}
    if len(parsed) != len(stmts):
        return {'input': inp, 'options': opts, 'class': classify_py(text, opts, stmts, 'py-count'),
                'observed': f'{len(parsed)} assignments for {len(stmts)} statements', 'output': src[:300]}
    for k, ((name, val), st) in enumerate(zip(parsed, stmts), 1):
        want = 'sql' if k == 1 else f'sql{k}'
        if name != want:
            return {'input': inp, 'options': opts, 'class': 'py-name', 'observed': f'{name} for statement {k}',
                    'output': src[:300]}
        if norm_ws(val) != norm_ws(st):
            return {'input': inp, 'options': opts, 'class': classify_py(text, opts, stmts, 'py-value'),
                    'observed': f'statement {k}: {norm_ws(val)[:80]!r} != {norm_ws(st)[:80]!r}', 'output': src[:300]}
    return None


DEVIATION_NOTES = {
    'line-break-token-without-parentheses':
        'has_nl = len(str(stmt).strip().splitlines()) > 1 is computed from the STRIPPED text but every whitespace token '
        'containing \\n starts a new source line: a statement that begins/ends with a line feed (any file ending in a '
        'newline; every statement after the first when `;` is followed by a newline) is continued without parentheses '
        '-> IndentationError/SyntaxError',
    'raw-line-end-in-token':
        "only whitespace tokens are broken: a '-- comment\\n' token, a multi-line comment/literal or a bare \\r is copied "
        'into the single-quoted literal with its raw line end -> SyntaxError (unterminated string literal)',
    'backslash-not-escaped':
        "only the quote is escaped: a backslash in the SQL is read by Python as an escape (\\\\ -> \\, \\n -> LF, a trailing "
        "backslash or backslash before the quote -> SyntaxError / swallowed quote)",
    'nul-character': 'a NUL character is copied into the source (Python rejects source text with NUL)',
    'stale-group-value':
        'with a grouping option the filter iterates over the TOP-LEVEL tokens and copies the cached .value of each group '
        '(text at grouping time): comments stripped / whitespace normalised / line breaks inserted INSIDE groups are lost, '
        'a newline inside a group is copied raw',
    'unexplained': 'not explained by the premises of the theorems',
}


# ---------------------------------------------------------------------------------------------------
# known findings of this part
KNOWN = [
    {'id': 'C07-OUT-1', 'property': 'outside-any-property', 'status': 'open', 'class': 'py-syntax:line-break-token-without-parentheses',
     'witness': 'select 1\n', 'options': {'output_format': 'python'},
     'what_fails': "format('select 1\\n', output_format='python') = \"sql = 'select 1 '\\n      ''\" is not valid Python "
                   '(continuation line without parentheses); same for every statement after `;\\n`'},
    {'id': 'C07-OUT-2', 'property': 'outside-any-property', 'status': 'open', 'class': 'py-syntax:raw-line-end-in-token',
     'witness': '1 --c\n2', 'options': {'output_format': 'python'},
     'what_fails': "format('1 --c\\n2', output_format='python') = \"sql = ('1 --c\\n2')\": raw newline inside the literal"},
    {'id': 'C07-OUT-3', 'property': 'outside-any-property', 'status': 'open', 'class': 'py-value:backslash-not-escaped',
     'witness': "'\\\\'", 'options': {'output_format': 'python'},
     'what_fails': "backslashes are not escaped: the SQL literal '\\\\' (two backslashes) evaluates to one; '\\' swallows the closing quote"},
    {'id': 'C07-OUT-5', 'property': 'outside-any-property', 'status': 'open', 'class': 'py-syntax:nul-character',
     'witness': '\x00', 'options': {'output_format': 'python'},
     'what_fails': 'a NUL character of the input is copied into the produced Python source'},
    {'id': 'C07-OUT-4', 'property': 'outside-any-property', 'status': 'open', 'class': 'py-value:stale-group-value',
     'witness': '(1/*c*/)', 'options': {'output_format': 'python', 'strip_comments': True},
     'what_fails': "format('(1/*c*/)', strip_comments=True, output_format='python') = \"sql = '(1/*c*/)'\": the output filters "
                   'copy the cached value of top-level groups, so strip_comments / strip_whitespace / reindent have no effect '
                   'inside groups (C08/C10 do not mention output_format)'},
]


def classify(fl, kf=None):
    """known finding a failure/deviation belongs to: matched on the cause (the part of the class after ':')"""
    ids = {k['class'].split(':', 1)[-1]: k['id'] for k in (kf or KNOWN)}
    return ids.get(str(fl.get('class', '')).split(':', 1)[-1])


# ---------------------------------------------------------------------------------------------------
def linebreak_set_check():
    """the code points at which str.splitlines splits, from the running interpreter"""
    got = [c for c in range(0x110000) if len(('a' + chr(c) + 'b').splitlines()) > 1]
    return got == [10, 11, 12, 13, 28, 29, 30, 133, 8232, 8233], got


def rhs_of_piece(piece, k):
    name = 'sql' if k == 1 else f'sql{k}'
    head = ('\n' if k > 1 else '') + name + ' = '
    return piece[len(head):] if piece.startswith(head) else None


def gen_cases(ctx, n, opts_gen, maxlen):
    cases = []
    dist = collections.Counter()
    for _ in range(n):
        s, kind = go.gen_text(ctx.rng)
        cases.append((opts_gen(ctx.rng), s[:maxlen]))
        dist[kind] += 1
    return cases, dist


EXTRA = ['(as)', '(::)', 'f( as )', 'select 1\n', '\nselect 1', "'\\\\'", '\\', "select '\\'", '1 --c\n2', 'a\rb',
         '(1/*c*/)', 'a where c and d', 'select (1,\n 2) from t', ';--\n1', 'select 1;\n\nselect 2;  select \'a\' "b\\',
         '', ' ', ';', ';;', 'a;' * 12, 'x y', 'a\x85b; c\x0bd', '"""', "'''", 'select """a""", \'\'\'b\'\'\'']


def run(ctx):
    res = {'disagreements': [], 'failures': [], 'notes': []}
    dist = {}
    t0 = time.time()
    # ---- 1. outfmt
    n1 = ctx.n(2500, 24000)
    cases1, d1 = gen_cases(ctx, n1, lambda r: r.choice(['python', 'php']), ctx.n(600, 1500))
    cases1 = [(f, s) for f in ('python', 'php') for s in EXTRA + common.corpus('parse')[:200]] + cases1
    replies = vlib.run_model([f'outfmt {f} {vlib.cps(s)}' for f, s in cases1])
    multi = 0
    for (f, s), r in zip(cases1, replies):
        m = io.outfmt_dump(f, s)
        if m != r:
            res['disagreements'].append({'stage': 'outfmt', 'input': [ord(c) for c in s], 'options': {'output_format': f},
                                         'impl': m[:300], 'model': r[:300]})
        if '115,113,108,50' in m:      # sql2
            multi += 1
    dist['outfmt'] = {'cases': len(cases1), 'generator': dict(d1), 'with_second_statement': multi,
                      'length_histogram': common.length_hist([s for _, s in cases1]), 'wall_s': round(time.time() - t0, 1)}
    # ---- 2. fmtall
    t1 = time.time()
    n2 = ctx.n(1500, 12000)
    cases2, d2 = gen_cases(ctx, n2, go.gen_opts_modelled, ctx.n(400, 800))
    cases2 += [(o, s) for s in EXTRA for o in ({'output_format': 'python', 'strip_whitespace': True},
                                               {'output_format': 'php', 'reindent': True},
                                               {'output_format': 'python', 'strip_comments': True, 'reindent': True,
                                                'keyword_case': 'upper'})]
    replies = vlib.run_model([f'fmtall {io.args_of(o)} {vlib.cps(s)}' for o, s in cases2])
    outcome = collections.Counter()
    optuse = collections.Counter()
    for (o, s), r in zip(cases2, replies):
        m = io.fmtall_dump(o, s)
        outcome['OK' if m.startswith('OK') else m] += 1
        for k in o:
            optuse[k] += 1
        if m != r:
            res['disagreements'].append({'stage': 'fmtall', 'input': [ord(c) for c in s], 'options': o,
                                         'impl': m[:300], 'model': r[:300]})
    dist['fmtall'] = {'cases': len(cases2), 'generator': dict(d2), 'outcomes': dict(outcome), 'options_used': dict(optuse),
                      'wall_s': round(time.time() - t1, 1)}
    # ---- 3. splitlines / has_nl
    ok, got = linebreak_set_check()
    if not ok:
        res['disagreements'].append({'stage': 'linebreak-set', 'detail': f'interpreter splits at {got}'})
    n3 = ctx.n(500, 5000)
    strs = [''.join(ctx.rng.choice(['a', 'b', ' ', '\n', '\r', '\r\n', '\x0b', '\x0c', '\x1c', '\x1d', '\x1e', '\x1f', '\x85',
                                    ' ', ' ', '\xa0', '\t', ';', '　', '​'])
                    for _ in range(ctx.rng.choice([0, 1, 2, 3, 5, 8]))) for _ in range(n3)]
    for cmd, fn in (('splitlines', io.splitlines_dump), ('hasnl', io.hasnl_dump)):
        d, _ = common.corr_stage(cmd, strs, fn, cmd)
        res['disagreements'] += d
    # ---- 4. pydec against Python
    t2 = time.time()
    reqs = []
    rhss = []
    for f, s in cases1[:ctx.n(1500, 8000)]:
        if f != 'python' or has_surrogate(s):
            continue
        try:
            _, pieces = statements_and_pieces(s, {'output_format': 'python'})
        except Exception:  # noqa
            continue
        for k, pc in enumerate(pieces, 1):
            rhs = rhs_of_piece(pc, k)
            if rhs is not None and len(rhs) < 3000:
                rhss.append(rhs)
                reqs.append('pydec ' + vlib.cps(rhs))
    dec = vlib.run_model(reqs)
    some = none = 0
    for rhs, r in zip(rhss, dec):
        if r == 'OK None':
            none += 1
            continue
        some += 1
        want = vlib.uncps(r[3:])
        try:
            gotv = ast.literal_eval(rhs)
        except Exception as e:  # noqa
            gotv = ('error', type(e).__name__)
        if gotv != want:
            res['disagreements'].append({'stage': 'pydec', 'input': [ord(c) for c in rhs], 'impl': repr(gotv)[:200],
                                         'model': repr(want)[:200]})
    dist['pydec'] = {'right_hand_sides': len(rhss), 'decoded': some, 'outside_fragment': none,
                     'wall_s': round(time.time() - t2, 1)}
    # ---- 5 + 6. direct oracle on the implementation
    t3 = time.time()
    n5 = ctx.n(2000, 24000)
    foreign = collections.Counter()
    foreign_ex = {}
    devs = collections.Counter()
    dev_ex = {}
    optuse = collections.Counter()
    kinds = collections.Counter()
    pychecked = 0
    for i in range(n5):
        if i % 4 == 3:
            s, kind = gens.mixed_text(ctx.rng)
        else:
            s, kind = go.gen_text(ctx.rng)
        s = s[:ctx.n(500, 1500)]
        o = go.gen_opts_any(ctx.rng)
        kinds[kind] += 1
        for k in o:
            optuse[k] += 1
        f = oracle_exc(s, o)
        if isinstance(f, dict):
            res['failures'].append(f)
        elif f is not None:
            key = f[1]
            foreign[key] += 1
            if key not in foreign_ex or len(s) < len(foreign_ex[key][0]):
                foreign_ex[key] = (s, o)
        if o.get('output_format') == 'python':
            pychecked += 1
            d = python_source_check(s, o)
            if d:
                devs[d['class']] += 1
                if d['class'] not in dev_ex or len(s) < len(''.join(map(chr, dev_ex[d['class']]['input']))):
                    dev_ex[d['class']] = d
    # minimal examples
    dev_min = {}
    for cls, d in dev_ex.items():
        try:
            m = shrink_deviation(d)
        except Exception:  # noqa
            m = d
        dev_min[cls] = {'count': devs[cls], 'options': m['options'], 'input': ''.join(map(chr, m['input'])),
                        'output': m.get('output', '')[:160], 'observed': m.get('observed', '')[:160],
                        'known': classify(m),
                        'why': DEVIATION_NOTES.get(cls.split(':', 1)[-1], '')}
    foreign_min = {}
    for key, (s, o) in foreign_ex.items():
        name = key.split(' ')[0]

        def still(t, o=o, name=name):
            f = oracle_exc(t, o)
            return f if (isinstance(f, tuple) and f[1] == name) else None
        try:
            s2, _ = common.shrink_text(s, still)
            for k in list(o):
                o2 = {a: b for a, b in o.items() if a != k}
                f2 = oracle_exc(s2, o2)
                if isinstance(f2, tuple) and f2[1] == name:
                    o = o2
        except Exception:  # noqa
            s2 = s
        foreign_min[key] = {'count': foreign[key], 'input': s2, 'options': o}
    dist['oracle'] = {'cases': n5, 'generator': dict(kinds), 'options_used': dict(optuse),
                      'foreign_exceptions(not attributable to the output filters)': foreign_min,
                      'python_sources_checked': pychecked, 'python_source_deviations': dev_min,
                      'wall_s': round(time.time() - t3, 1)}
    for key, v in foreign_min.items():
        res['notes'].append(f"exception raised with AND without output_format (other part of C07): {key}: "
                            f"format({v['input']!r}, **{v['options']})")
    for cls, v in dev_min.items():
        res['notes'].append(f"python source deviation (outside every property's wording) {cls} x{v['count']}: "
                            f"format({v['input']!r}, **{v['options']}) -> {v['output']!r}")
    res.update({
        'evaluations': len(cases1) + len(cases2) + 2 * n3 + len(rhss) + n5,
        'traces_validated_against_impl': len(cases1) + len(cases2) + 2 * n3 + len(rhss),
        'distinct_nontrivial': multi,
        'rule': 'stage 1: format(text, output_format=f) final string, model vs implementation; stage 2: the same for option '
                'sets of modelled filters; stage 3: splitlines/has_nl; stage 4: pydec vs ast.literal_eval; stage 5: no '
                'exception but SQLParseError over random valid option sets (attributable = not raised identically without '
                'output_format); stage 6: ast-parsed python source vs statements (reported, outside the property). '
                'distinct_nontrivial = outfmt cases with at least two statements',
        'samples': [s[:100] for _, s in cases1[len(EXTRA) * 2:len(EXTRA) * 2 + 5]],
        'distribution': dist,
    })
    return res


def run_oracle_only(ctx):
    fails = []
    n = ctx.n(2000, 24000)
    for _ in range(n):
        s, _k = go.gen_text(ctx.rng)
        f = oracle_exc(s[:1000], go.gen_opts_any(ctx.rng))
        if isinstance(f, dict):
            fails.append(f)
    return {'failures': fails, 'evaluations': n, 'distinct_nontrivial': 0, 'rule': 'oracle only (model unavailable)',
            'samples': []}


def search(ctx, hints):
    fails = []
    tried = 0
    for d in hints.get('disagreements', []):
        if 'input' in d:
            tried += 1
            f = oracle(''.join(map(chr, d['input'])), d.get('options'))
            if f:
                fails.append(f)
                break
    t0 = time.time()
    budget = ctx.n(60, 600)
    while not fails and time.time() - t0 < budget:
        s, _k = go.gen_text(ctx.rng)
        tried += 1
        f = oracle_exc(s[:1000], go.gen_opts_any(ctx.rng))
        if isinstance(f, dict):
            fails.append(f)
    return {'failures': fails[:1], 'tried': tried}


def shrink(fl):
    o = fl.get('options', {})
    cls = fl.get('class')

    def fails(s):
        f = oracle(s, o)
        return f if f and f['class'] == cls else None
    s = ''.join(map(chr, fl['input']))
    _, best = common.shrink_text(s, fails)
    return best or fl


def shrink_deviation(d):
    o = d['options']
    cls = d['class']

    def fails(s):
        g = python_source_check(s, o)
        return g if g and g['class'] == cls else None
    s = ''.join(map(chr, d['input']))
    _, best = common.shrink_text(s, fails)
    best = best or d
    # drop options that are not needed
    for k in [k for k in list(best['options']) if k != 'output_format']:
        o2 = {a: b for a, b in best['options'].items() if a != k}
        try:
            g = python_source_check(''.join(map(chr, best['input'])), o2)
        except Exception:  # noqa
            g = None
        if g and g['class'] == cls:
            best = g
    return best


def replay(payload):
    f = payload.get('failure')
    if not f or 'input' not in f:
        return {'fails': False, 'note': 'no concrete input in replay file: ' + str(payload.get('no_longer_checks'))}
    g = oracle(''.join(map(chr, f['input'])), f.get('options'))
    return {'fails': bool(g), 'observed': g}


def rederive_known(k):
    """Known deviations (outside the property) are re-derived by the python source check."""
    d = python_source_check(k['witness'], k.get('options', {'output_format': 'python'}))
    return d if d and d['class'] == k['class'] else None
