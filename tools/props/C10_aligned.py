"""C10 (reindent_aligned part) - direct oracles on the real library, on format(text, reindent_aligned=True):
 (t) token preservation: the non-whitespace token values of lexer.tokenize(input) and of lexer.tokenize(output) are
     the same list,
 (c) no exception other than SQLParseError (shared with C07),
 (b) no output line ends in a blank,
 (a) every clause keyword that AlignedIndentFilter promises to align starts its own line.

What the filter promises for (a) (aligned_indent.py: split_words, _next_token, _process_parenthesis, _process_case):
 * clause keyword: a token of type exactly Token.Keyword whose upper-cased value with runs of whitespace collapsed to
   one blank is FROM, ON, WHERE, AND, OR, GROUP BY, ORDER BY, HAVING, LIMIT, UNION, UNION ALL, VALUES, SET, EXCEPT, or
   ends in JOIN;
 * exempt: the first AND after a BETWEEN at the same parenthesis depth ("BETWEEN x AND y is one statement");
   anything between CASE and its END (a Case group is aligned as a whole and never entered); anything inside a
   parenthesis that is not a sub-query (no SELECT directly inside it) or below such a parenthesis
   ("if this isn't a subquery, don't re-indent");
 * it starts its own line iff the output text between the preceding '\n' (or the start) and the keyword consists of
   blanks only.
 A line (output split on '\n') ends in a blank iff its last character is ' ' or '\t'.
(The Coq counterparts: Filters/AlignedSplit.v aligned_own_line, Filters/AlignedFacts.v aligned_sigleaves,
 aligned_stmt_rspec / aligned_total_partial, Filters/AlignedInstFacts.v aligned_case_end_fixed (was aligned_total_refuted).)
"""
import collections
import re

import vlib

import sqlparse
from sqlparse import lexer, tokens as T
from sqlparse.exceptions import SQLParseError

import gens
import gens_aligned as ga
from props import common
from props import C10_reindent as RX

CLAUSE = {'FROM', 'ON', 'WHERE', 'AND', 'OR', 'GROUP BY', 'ORDER BY', 'HAVING', 'LIMIT', 'UNION', 'UNION ALL',
          'VALUES', 'SET', 'EXCEPT'}
OPTS = {'reindent_aligned': True}


def norm_kw(v):
    return re.sub(r'\s+', ' ', v.upper())


def is_clause_kw(tt, v):
    if tt is not T.Keyword:
        return False
    n = norm_kw(v)
    return n in CLAUSE or n.endswith('JOIN')


def sig_tokens(text):
    return [(tt, v) for tt, v in lexer.tokenize(text) if tt not in T.Whitespace]


def sig_values(text):
    return [v for _, v in sig_tokens(text)]


def scan_output(out):
    """-> (clause keywords of the output with their context, tokens with positions)."""
    toks = []
    pos = 0
    for tt, v in lexer.tokenize(out):
        toks.append((tt, v, pos))
        pos += len(v)
    # matched parentheses only (an unbalanced '(' is a plain punctuation token, not a Parenthesis group)
    match = {}
    stack = []
    for i, (tt, v, p) in enumerate(toks):
        if tt is T.Punctuation and v == '(':
            stack.append(i)
        elif tt is T.Punctuation and v == ')' and stack:
            match[stack.pop()] = i
    closers = set(match.values())
    # which '(' opens a sub-query: a DML SELECT token directly inside it -- at exactly that depth and not behind a
    # WHERE of the same parenthesis (such a SELECT is a child of the Where group, which ends at WHERE_CLOSE)
    subq = {}
    stack = []
    in_where = collections.Counter()
    for i, (tt, v, p) in enumerate(toks):
        if i in match:
            stack.append(i)
            subq[i] = False
            in_where[len(stack)] = 0
        elif i in closers:
            stack.pop()
        elif tt is T.Keyword and norm_kw(v) == 'WHERE':
            in_where[len(stack)] = 1
        elif tt is T.Keyword and norm_kw(v) in RX.WHERE_CLOSE:
            in_where[len(stack)] = 0
        elif tt is T.DML and v.upper() == 'SELECT' and stack and not in_where[len(stack)]:
            subq[stack[-1]] = True
    res = []
    parens = []                         # indices of the open '('
    between = collections.Counter()     # depth -> pending BETWEENs
    case_depth = 0
    prev_sig = None
    for i, (tt, v, p) in enumerate(toks):
        if tt in T.Whitespace:
            continue
        n = norm_kw(v) if tt in T.Keyword else v
        depth = len(parens)
        if i in match:
            parens.append(i)
        elif i in closers:
            between[depth] = 0
            parens.pop()
        elif tt is T.Keyword and n == 'CASE':
            case_depth += 1
        elif tt is T.Keyword and n == 'END' and case_depth:
            case_depth -= 1
        depth = len(parens)
        if tt is T.Keyword and n == 'BETWEEN':
            if not case_depth:
                between[depth] += 1
        elif is_clause_kw(tt, v):
            exempt = False
            if case_depth:
                pass                          # inside a Case group: invisible to the enclosing list
            elif n == 'AND' and between[depth] > 0:
                between[depth] -= 1
                exempt = True
            elif n != 'AND':
                between[depth] = 0
            ls = out.rfind('\n', 0, p) + 1
            own = out[ls:p].strip(' \t') == ''
            cr = out.rfind('\r', ls, p)
            res.append({'kw': n, 'raw': v, 'pos': p, 'own_line': own, 'between_and': exempt,
                        'in_plain_paren': any(not subq[j] for j in parens), 'depth': depth,
                        'in_case': case_depth > 0,
                        'after_bare_cr': cr >= 0 and out[cr + 1:p].strip(' \t') == '',
                        'prev': (str(prev_sig[0]), prev_sig[1][:20]) if prev_sig else None,
                        'between_pending': between[depth]})
        prev_sig = (tt, v)
    return res, toks


def kw_class(k, text):
    """Classification of a promised clause keyword that does not start its own line."""
    if k['after_bare_cr']:
        return 'after-bare-CR'                 # only possible when the serializer is desynchronised
    return 'own-line-violated:' + k['kw'].split(' ')[-1]


def format_pieces(text):
    """sqlparse.format(text, reindent_aligned=True) as the list of per-statement strings it joins."""
    from sqlparse import engine, filters, formatter
    stack = engine.FilterStack()
    o = formatter.validate_options(dict(OPTS))
    stack = formatter.build_filter_stack(stack, o)
    stack.postprocess.append(filters.SerializerUnicode())
    return list(stack.run(text))


def end_swallowed(text):
    """A Case group of the parsed input (grouping only) with cases but without a direct child Keyword END."""
    def walk(tl):
        for t in tl.tokens:
            if t.is_group:
                if isinstance(t, sqlparse.sql.Case):
                    if t.token_next_by(m=(T.Keyword, 'END'))[1] is None and t.get_cases(skip_ws=True):
                        return True
                if walk(t):
                    return True
        return False
    try:
        return any(walk(s) for s in sqlparse.parse(text))
    except Exception:  # noqa
        return False


def first_diff(a, b):
    for i, (x, y) in enumerate(zip(a, b)):
        if x != y:
            return i, x, y
    i = min(len(a), len(b))
    return i, (a[i] if i < len(a) else None), (b[i] if i < len(b) else None)


def ser_norm(v, strip_last=True):
    """What SerializerUnicode does to a piece of text without quotes: lines are split at \\r\\n|\\r|\\n,
    right-stripped and joined by \\n (the last piece only if the line ends there)."""
    parts = re.split(r'\r\n|\r|\n', v)
    out = [p.rstrip() for p in parts[:-1]] + [parts[-1].rstrip() if strip_last else parts[-1]]
    return '\n'.join(out)


def stmt_last_token_counts(text):
    """Cumulative numbers of non-whitespace tokens at the statement ends of the input."""
    ends, n = set(), 0
    for piece in sqlparse.split(text) if False else [str(s) for s in sqlparse.parse(text)]:
        n += len(sig_values(piece))
        ends.add(n)
    return ends


def token_class(text, a, b):
    """Classification of a token-preservation failure; a = input tokens (ttype, value), b = output values."""
    av = [v for _, v in a]
    if len(av) == len(b):
        diff = [(tt, x, y) for (tt, x), y in zip(a, b) if x != y]

        def kind(tt, x, y):
            if y in (ser_norm(x), ser_norm(x, False)):
                # the token contains a line end / blanks before a line end; the serializer (which only knows '..'
                # and ".." as quoting) splits there, right-strips and re-joins with \n
                return 'norm:' + ('comment' if tt in T.Comment else
                                  'dollar-literal' if tt is T.Literal and x.startswith('$') else
                                  'bracket-or-backtick-name' if tt is T.Name and x[:1] in '[`' else
                                  'multiword-keyword' if (tt in T.Keyword or tt in T.Operator) and len(x.split()) > 1
                                  else str(tt))
            if tt in T.Comment and x.startswith('#') and y == '#' and ser_norm(x).rstrip('\n') == '#':
                # an EMPTY hash comment ('# ' + line end): right-stripping its line leaves '#', which is no comment any more
                # (C06-serializer-empty-hash-comment), the same serializer mechanism as for any comment line
                return 'norm:comment'
            if tt in T.Comment and x.endswith('\r') and y == x + '\n':
                return 'absorb'
            return None
        kinds = {kind(*d) for d in diff}
        if None not in kinds:
            std = ['norm:dollar-literal', 'norm:bracket-or-backtick-name', 'absorb', 'norm:multiword-keyword', 'norm:comment']
            rest = sorted(kinds - set(std))
            for c in rest + std:
                if c in kinds:
                    return 'comment-absorbs-inserted-LF-after-CR' if c == 'absorb' else \
                        'line-ends-normalised-inside:' + c[5:]
        if all(''.join(x.split()) == ''.join(y.split()) for tt, x, y in diff):
            if all(tt in T.Comment or tt in T.Literal.String or (tt in T.Name and x[:1] in '[`') or
                   (tt is T.Literal and x[:1] == '$') for tt, x, y in diff):
                # only some of the lines inside the token were normalised
                return 'string-or-comment-lines-partially-normalised'
            return 'tokens-changed:whitespace-inside-token'
    i, x, y = first_diff(av, b)
    if x is not None and y is not None and i + 1 < len(av) and y == x + av[i + 1] and (i + 1) in stmt_last_token_counts(text):
        # the last token of a statement and the first token of the next one have become one token
        return 'statements-glued-into-one-token'
    if x == '#' and y is not None and y.startswith('# ') and re.search(r'#(?! )\s', text):
        return 'hash-comment-created-by-blank-normalisation'
    if ''.join(''.join(av).split()) == ''.join(''.join(b).split()):
        return 'tokens-changed:retokenised-same-characters'
    return 'tokens-changed:characters-differ'


OWN_LINE_STATS = collections.Counter()      # how often part (a) actually checked something


def oracle_all(text, opts=None):
    """All failures of (t) (a) (b) (c) for one input; [] when the property holds."""
    inp = [ord(c) for c in text]
    try:
        pieces = format_pieces(text)
        out = ''.join(pieces)
    except SQLParseError:
        return []
    except Exception as e:  # noqa
        return [{'input': inp, 'part': 'c', 'class': 'exception:' + type(e).__name__,
                 'observed': f'{type(e).__name__}: {e}'[:200]}]
    fails = []
    at, b = sig_tokens(text), sig_values(out)
    a = [v for _, v in at]
    if a != b:
        i, x, y = first_diff(a, b)
        fails.append({'input': inp, 'part': 't', 'class': token_class(text, at, b),
                      'observed': f'token {i}: input {x!r} output {y!r}', 'output': out[:400]})
    kws, toks = scan_output(out)
    for k in kws:
        OWN_LINE_STATS['exempt-between-and' if k['between_and'] else 'exempt-in-case' if k['in_case'] else
                       'exempt-plain-paren' if k['in_plain_paren'] else 'checked'] += 1
        if not k['own_line'] and not k['between_and'] and not k['in_case'] and not k['in_plain_paren']:
            fails.append({'input': inp, 'part': 'a', 'class': kw_class(k, text),
                          'observed': f"{k['raw']!r} at {k['pos']} not at line start; prev token {k['prev']}; "
                                      f"depth={k['depth']}",
                          'output': out[:400]})
    for ln, cls in RX.trailing_blank_lines(out, toks, pieces):
        if cls == 'trailing-blank-at-split-point':
            fails.append({'input': inp, 'part': 'b', 'class': cls, 'observed': f'line {ln}', 'output': out[:400]})
        if cls == 'trailing-blank':
            fails.append({'input': inp, 'part': 'b', 'class': 'line-ends-in-blank',
                          'observed': f'line {ln} ends in a blank: {out.split(chr(10))[ln][-30:]!r}',
                          'output': out[:400]})
    return fails


def oracle(text, opts=None):
    f = oracle_all(text)
    return f[0] if f else None


# ---- known classes ---------------------------------------------------------------------------------
def quote_desync(text):
    """The serializer's SPLIT_REGEX pairs a quote character that does not delimit a string token of the lexer
    (a quote inside a comment, an unterminated literal, a quote inside a name/dollar-quoted token ...)."""
    for tt, v in lexer.tokenize(text):
        if tt in T.Literal.String.Single or tt in T.Literal.String.Symbol:
            # backslash directly before a quote: the lexer may end the literal there (backtracking), SPLIT_REGEX always
            # reads an escape (C06-serializer-backslash-quote)
            if re.search(r'''\\['"]''', v):
                return True
            continue
        if "'" in v or '"' in v:
            return True
    return False


def classify(fl, kf=None):
    """-> id of the known finding the failure belongs to, or None."""
    cls = fl.get('class', '')
    text = ''.join(map(chr, fl.get('input', [])))
    ids = {k['class']: k['id'] for k in (kf or KNOWN)}
    if kf is not None:
        # an escaping exception is decided by C07: its open listed findings are known here too
        for k in vlib.load_known_findings():
            if k.get('property') == 'C07' and k.get('status') == 'open' and k.get('class'):
                ids.setdefault(k['class'], k['id'])
    if cls in ('line-ends-in-blank', 'after-bare-CR', 'comment-absorbs-inserted-LF-after-CR',
               'string-or-comment-lines-partially-normalised') or \
            cls.startswith('line-ends-normalised-inside:Token.Literal.String'):
        # a blank before a newline (or a bare CR) outside literal/comment tokens survives SerializerUnicode only
        # where SPLIT_REGEX regards the newline as quoted (a surviving CR at the end of a comment then absorbs the
        # line feed the filter inserts after it); conversely a line end inside a '..' / ".." literal is normalised
        # only where SPLIT_REGEX regards it as unquoted
        return ids.get('serializer-quote-desync') if quote_desync(text) else None
    if cls == 'exception:ValueError' and 'is not in list' in fl.get('observed', '') and end_swallowed(text):
        return ids.get('aligned-case-end-swallowed')
    if cls == 'exception:IndexError' and re.search(r'\(\s*(as|::|:=)\s*\)', text, re.I):
        return ids.get('stripws-parenthesis-swallowed')
    if cls == 'statements-glued-into-one-token' and len(sqlparse.split(text)) < 2:
        return None
    if cls in ids:
        return ids[cls]
    return None


KNOWN = [
    {'id': 'C07-AL-1', 'property': 'C07', 'status': 'fixed', 'class': 'aligned-case-end-swallowed',
     'witness': 'case\nwhere end', 'options': OPTS,
     'what_fails': "format(text, reindent_aligned=True) raises ValueError('None is not in list') at aligned_indent.py:83 "
                   "(_process_case -> insert_before(None) -> TokenList.token_index) when the END keyword of a CASE is not a "
                   "direct child of the Case group because a later grouping pass moved it into a sub-group: Where "
                   "('case where end'), Identifier ('case a as end', 'case::end', 'case when a then b as end'), "
                   "IdentifierList ('case,end', 'case * , end'): token_next_by(m=(Keyword,'END')) is None and the (None, [None]) "
                   "case appended for END is inserted by object",
     'coq_witness': 'Filters/AlignedInstFacts.v: aligned_case_end_fixed (was aligned_total_refuted); Filters/AlignedFacts.v: aligned_stmt_rspec'},
    {'id': 'C07-RX-1', 'property': 'C07', 'status': 'fixed', 'class': 'stripws-parenthesis-swallowed',
     'witness': '(as)', 'options': OPTS,
     'what_fails': "format('(as)', reindent_aligned=True) (every option that switches StripWhitespaceFilter on; also '(::)', "
                   "'(:=)', 'f( as )') raises IndexError in StripWhitespaceFilter._stripws_parenthesis: group_as / "
                   "group_typecasts / group_assignment wrap '(', the keyword and ')' into one group, the Parenthesis has a "
                   "single child and tokens[1] does not exist"},
    {'id': 'C10-RX-1', 'property': 'C10', 'status': 'open', 'class': 'serializer-quote-desync',
     'witness': "select a, -- don't\n  b   \nfrom t where c = 'x'", 'options': OPTS,
     'what_fails': "reindent_aligned (as reindent): output lines end in a blank when a comment (or an unterminated literal) "
                   "contains a quote: SerializerUnicode's SPLIT_REGEX pairs the quote with the next one, the newlines in "
                   "between are treated as quoted and the lines are not right-stripped (and a CR ending such a comment "
                   "survives and absorbs the inserted line feed; line ends inside a real '..' literal are normalised)"},
    {'id': 'C10-AL-2', 'property': 'C10', 'status': 'open', 'class': 'statements-glued-into-one-token',
     'witness': 'GO e', 'options': OPTS,
     'what_fails': "format('GO e', reindent_aligned=True) == 'GOe' (also strip_whitespace=True and plain format()): the "
                   "whitespace after a statement terminator is the tail of the first statement, it is stripped and the "
                   "statements are joined by '' -- after the word terminator GO the two statements fuse into one token; with "
                   "';' the statements merely end up on one line ('select 1;\\nselect 2' -> 'select 1;select 2': "
                   "AlignedIndentFilter, unlike ReindentFilter, puts nothing between statements)"},
    {'id': 'C10-SW-1', 'property': 'C10', 'status': 'open', 'class': 'hash-comment-created-by-blank-normalisation',
     'witness': '#\t{', 'options': OPTS,
     'what_fails': "StripWhitespaceFilter turns every whitespace token into one blank; '#' followed by a tab / line end is an "
                   "operator-like token, '# ' opens a comment: format('#\\t{', strip_whitespace=True) == '# {' re-lexes as one "
                   "comment that swallows the rest of the line"},
    {'id': 'C10-SER-1', 'property': 'C10', 'status': 'open', 'class': 'line-ends-normalised-inside:comment',
     'witness': 'select 1 -- c  \r\nfrom t', 'options': OPTS,
     'what_fails': "a comment token contains its line end and the blanks in front of it; SerializerUnicode splits the "
                   "statement at line ends, right-strips every line and joins with \\n: '-- c  \\r\\n' becomes '-- c\\n' "
                   "(benign: only blanks before a line end / the kind of line end inside comments change)"},
    {'id': 'C10-SER-2', 'property': 'C10', 'status': 'open', 'class': 'line-ends-normalised-inside:dollar-literal',
     'witness': 'select $$ \n$$', 'options': OPTS,
     'what_fails': "the CONTENT of a dollar-quoted string literal changes: format('select $$ \\n$$') == 'select $$\\n$$' (every "
                   "format() call, no option needed): SerializerUnicode's SPLIT_REGEX only knows '..' and \"..\" as quoting, "
                   "so line ends inside $tag$..$tag$ are split points, blanks before them are stripped and CR/CRLF become LF"},
    {'id': 'C10-SER-4', 'property': 'C10', 'status': 'open', 'class': 'line-ends-normalised-inside:multiword-keyword',
     'witness': 'select a not \nlike b', 'options': OPTS,
     'what_fails': "a keyword / operator token made of several words ('NOT\\s+LIKE', 'GROUP\\s+BY', 'UNION\\s+ALL' ...) keeps the "
                   "white space between its words; when that contains a line end the serializer strips the blanks before it and "
                   "normalises CR/CRLF (benign; but note StripWhitespaceFilter leaves such inner line ends alone)"},
    {'id': 'C10-SER-3', 'property': 'C10', 'status': 'open', 'class': 'line-ends-normalised-inside:bracket-or-backtick-name',
     'witness': 'select [a \n]', 'options': OPTS,
     'what_fails': "as C10-SER-2 for names quoted with [..] or `..` that contain a line end: '[\\r]' -> '[\\n]', '[ \\n]' -> '[\\n]'"},
]


# ---- harness entry points --------------------------------------------------------------------------
def gen_case(rng):
    text, kind = ga.gen_text(rng)
    return text, kind


def gen_grammar_case(rng):
    """A script of the verification grammar (any rendering)."""
    g = gens.SqlGen(rng, max_depth=rng.choice([1, 2, 3]))
    text = gens.render(g.script(), rng, layout=rng.choice(['canon', 'random']),
                       comments=rng.choice([0, 0, 0.1, 0.3]), recase=rng.choice([None, 'upper', 'lower', 'random']))
    return text, 'grammar-script'


NON_GRAMMAR_KINDS = ('junk', 'uni', 'sql+junk', 'kwsoup', 'casesoup', 'exn-shape')


def _oracles(ctx):
    n = ctx.n(1500, 20000)
    fails = []
    dist = collections.Counter()
    classes = collections.Counter()
    texts = []
    OWN_LINE_STATS.clear()
    for i in range(n):
        if i % 3 == 2:
            text, kind = gen_case(ctx.rng)        # focused constructs, junk, unicode, exception shapes
        else:
            text, kind = gen_grammar_case(ctx.rng)
        dist[kind] += 1
        texts.append(text)
        for f in oracle_all(text):
            # the normal forms quantify over scripts of the verification grammar: junk / keyword soup / unicode soup /
            # spliced texts serve the correspondence stage and the no-exception part (c) only
            if kind in NON_GRAMMAR_KINDS and f.get('part') != 'c':
                continue
            classes[f['class']] += 1
            fails.append(f)
    # one representative per class first, so that a rare class is not cut off
    seen = set()
    ordered = [f for f in fails if not (f['class'] in seen or seen.add(f['class']))]
    ordered += [f for f in fails if f not in ordered][:50]
    return {'failures': ordered[:60], 'evaluations': n, 'distinct_nontrivial': len(dist),
            'rule': 'oracles (t) token preservation (a) own line (b) no trailing blank (c) no exception on '
                    'format(text, reindent_aligned=True)',
            'distribution': {'generator': dict(dist), 'failure_classes': dict(classes),
                             'clause_keywords': dict(OWN_LINE_STATS)}, 'samples': []}, texts


def run_oracle_only(ctx):
    return _oracles(ctx)[0]


def run(ctx):
    """The oracles on the implementation + correspondence of the extracted model (Filters/Aligned.v, driver
    command `aligned`) with sqlparse.format(text, reindent_aligned=True) on the same inputs (final strings)."""
    import impl_aligned as ia
    res, texts = _oracles(ctx)
    sub = texts[:ctx.n(600, 8000)]
    dis, _ = common.corr_stage('aligned', sub, ia.aligned_dump, 'aligned')
    res['disagreements'] = dis[:50]
    kdone = common.kernel_route(ctx, 'fmt_al', sub, res)       # second route: the kernel evaluates the model
    res.setdefault('distribution', {})['kernel_evaluated_fmt_al (vm_compute inside coqc, compared with the implementation)'] = kdone
    res['traces_validated_against_impl'] = len(sub) - len(dis)
    res['rule'] += '; model `aligned` == impl final string'
    return res


def search(ctx, hints):
    return common.generic_search(ctx, hints, common.new_only('C10', oracle, classify), gen=lambda r: ga.gen_text(r)[0])


def shrink(fl):
    cls = fl.get('class')

    def fails(s):
        for f in oracle_all(s):
            if f['class'] == cls:
                return f
        return None
    s = ''.join(map(chr, fl['input']))
    _, best = common.shrink_text(s, fails)
    return best or fl


def replay(payload):
    f = payload.get('failure')
    if not f or 'input' not in f:
        return {'fails': False, 'note': 'no concrete input'}
    g = oracle_all(''.join(map(chr, f['input'])))
    return {'fails': bool(g), 'observed': g[:1]}


def rederive_known(k):
    """Re-run the oracle on a known finding's witness; -> the failure if it still reproduces."""
    w = k['witness']
    if isinstance(w, dict):
        w = w.get('text') or ''.join(map(chr, w.get('input', [])))
    for f in oracle_all(w):
        if classify(f, [k]) == k['id']:
            return f
    return None
