"""C14 - regions (quoted strings / names, comments, dollar-quoted bodies) are ONE token whatever they
contain, and every dictionary word (any letter case, delimited context) is ONE token of the type of the
first dictionary listing it (or of an earlier dedicated lexical rule); a word in no dictionary is a Name.

Direct oracle on the real library + lex correspondence of the extracted model on the same inputs."""
import collections
import re

import vlib
import impl
from props import common

THEOREMS = [
    'Props/C14.v: C14_single_quoted / C14_double_quoted / C14_backtick / C14_block_comment / C14_line_comment / '
    'C14_dollar_quoted (Lexer/Regions.v: each region is exactly ONE token of the region type in the scan loop, for '
    'EVERY body satisfying the stated side condition and every surrounding)',
    'C14_*_refuted (Lexer/RegionExamples.v: each side condition is needed)',
    'C14_words_ctx_ok (Inst/WordsFin.v: 799 dictionary words x 35 delimited contexts, vm_compute in shards, expected '
    'type computed from the regenerated tables)',
    'C14_words (Inst/Words.v: lifting to EVERY ASCII letter casing of every word, via C_lex_case_types)',
    'C14_nonwords_are_names (Inst/NameWordsInst.v: EVERY plain ASCII identifier, of any length and casing, that no '
    'dictionary lists and no dedicated rule matches completely is ONE Name token in every context of the family; '
    'Lexer/NameWords.v: a_ends_sound (matching with a known prefix), covered_sound (prefix search), '
    'star_rule_dead, word_rule_match)',
    'C14_unreachable_entries (BIT VARYING, CHARACTER VARYING, DOUBLE PRECISION, END-EXEC are not words)',
]
TRUSTED = ['agreement of the lexer model with the implementation is tested (lex stage on every generated case)']
ASSUMPTIONS = [
    'delimited context: left in {"", " ", "\\n", "(", ","}, right in {"", ";", ",", ")", " ", " ;", "\\n)"} for words '
    '(a word directly followed by "(" or [blank]"." or preceded by "." is a Name by rules 18-20; a word that starts a '
    'multi-word rule followed by its continuation is absorbed; a word glued to a word character, "$" or "#" is part of '
    'a longer word)',
    'quote regions: body without the own quote (except doubled) and without a backslash before the quote; '
    'line comments end at the first CR/LF; dollar-quoted: not after a word character, a double quote or "$"; the closing tag '
    'is found case-insensitively',
]

# ------------------------------------------------------------------------------------------------
LEFTS = ['', ' ', '\n', '(', ',']
RIGHTS = ['', ';', ',', ')', ' ', ' ;', '\n)']
BOUNDARY = list('\'"`;-/*#$\n\r \\a0(),.+_Z:=') + ['é', '€', '\t'] + \
    ['\ufeff', '\u200b', '\u200c', '\u200d', '\u2060', '\u2028', '\x85', '\x00', '\ud800', '\udc00', '\u212a', '\u017f',
     '\u0130', '\u0131', '\u0301', '\xad', '\U0001f600', '!', '?', '%', '@', '&', '|', '<', '>', '[', ']', '{', '}', '^', '~', '5', 'x', 'E', 'N']


def _lexer():
    from sqlparse import lexer
    return lexer.Lexer.get_default_instance()


def tt_name(tt):
    return impl.ttype_str(tt)


def tokenize(text):
    from sqlparse import lexer
    return list(lexer.tokenize(text))


def check_span(text, start, end, expected):
    """None when the tokenization of `text` has exactly one token covering [start, end) and it has the
    expected type (a ttype name, or a tuple of acceptable names); a description otherwise."""
    try:
        toks = tokenize(text)
    except Exception as e:  # noqa
        return 'exception ' + type(e).__name__
    pos = 0
    for tt, v in toks:
        if pos == start:
            if pos + len(v) != end:
                return 'token at %d is %r (%s), expected the span [%d,%d)' % (pos, v[:40], tt_name(tt), start, end)
            names = expected if isinstance(expected, tuple) else (expected,)
            if tt_name(tt) not in names:
                return 'token %r has type %s, expected %s' % (v[:40], tt_name(tt), '/'.join(names))
            return None
        if pos > start:
            break
        pos += len(v)
    return 'no token starts at %d (the region start is inside another token)' % start


# ---- (i) regions ---------------------------------------------------------------------------------
def region_kinds():
    return ['single', 'double', 'backtick', 'block', 'block_hint', 'line_dash', 'line_hash', 'line_hint', 'dollar',
            'dollar_tag']


REGION_LEFTS = ['', ' ', '\n', '(', ',', ';', '= ', ') ', '\t', 'x '] + \
    ['', ' ', '\n', '(', ',', ';', '= ', ') ', '\t', 'x '] + \
    ['timestamp ', 'interval ', 'like ', 'x::', 'N', 'U&', 'as ', 'zone ', 'time zone ', 'with time zone ',
     'timestamp WITH\tTIME  ZONE\n', 'x at time zone ', 'AT  TIME\nZONE ', 'not like ', 'values', 'in', 'from', '1+', 'a||', 'x=', ':', ' :', '*', 'select *', '%', '?', '.']
REGION_RIGHTS = ['', ';', ',', ')', ' ', '\n', ' x', '.y', '(', '+1', 'x', '1', '_',
                 # a later occurrence of each terminator (the region must end at the FIRST one)
                 " 'y'", ' "z"', ' `w`', ' /*x*/', ' */', '\n--c\n', ' $$q$$', ' $a$ $A$', "; select '*/' -- '\n"]


def rand_body(r, forbid, n=None):
    n = r.randint(0, 12) if n is None else n
    chars = [c for c in BOUNDARY if c not in forbid]
    return ''.join(r.choice(chars) for _ in range(n))


def make_region(r, kind):
    """-> (left, region, right, expected type name) satisfying the side conditions of the Coq theorems."""
    left = r.choice(REGION_LEFTS)
    right = r.choice(REGION_RIGHTS)
    if kind in ('single', 'double', 'backtick'):
        q = {'single': "'", 'double': '"', 'backtick': '`'}[kind]
        body = rand_body(r, [q, '\\'])
        if r.random() < 0.3:     # doubled quotes inside
            i = r.randint(0, len(body))
            body = body[:i] + q + q + body[i:]
        region = q + body + q
        ty = {'single': 'Literal.String.Single', 'double': 'Literal.String.Symbol', 'backtick': 'Name'}[kind]
        if right.startswith(q):
            right = ' ' + right
    elif kind in ('block', 'block_hint'):
        body = rand_body(r, [])
        while '*/' in body:
            body = body.replace('*/', '* /')
        if kind == 'block_hint':
            body = '+' + body
        if body.startswith('+'):
            ty = 'Comment.Multiline.Hint'
        else:
            ty = 'Comment.Multiline'
        region = '/*' + body + '*/'
    elif kind in ('line_dash', 'line_hash', 'line_hint'):
        opener = '# ' if kind == 'line_hash' else '--'
        body = rand_body(r, ['\n', '\r'])
        if kind == 'line_hint':
            body = '+' + body
        ty = 'Comment.Single.Hint' if body.startswith('+') else 'Comment.Single'
        closer = r.choice(['\n', '\r\n', '\r', ''])
        if closer == '':
            right = ''
        if closer == '\r' and right.startswith('\n'):
            right = ' ' + right
        region = opener + body + closer
        if kind == 'line_hash' and left and (re.match(r'[\w$#]', left[-1], re.U)):
            left = left + ' '      # '#' glued to a word character belongs to the word (outside the delimited contexts)
    else:
        tag = '' if kind == 'dollar' else r.choice(['a', 'BODY', '_x1', 'Zé'])
        delim = '$' + tag + '$'
        closer = delim if r.random() < 0.7 else delim.swapcase()
        rx = re.compile(re.escape(delim), re.I | re.U)
        for _ in range(50):
            body = rand_body(r, [])
            s = body + closer
            if all(rx.match(s, i) is None for i in range(len(body))):
                break
        else:
            body = ''
        region = delim + body + closer
        ty = 'Literal'
        if left and (left[-1].isalnum() or left[-1] in '_"$'):
            left = left + ' '
    return left, region, right, ty


def region_ok(left, region, right):
    """the side conditions of the region theorems, re-checked on a (shrunk) case"""
    if len(region) >= 2 and region[0] in '\'"`' and region[-1] == region[0]:
        q = region[0]
        body = region[1:-1].replace(q + q, '')
        return q not in body and '\\' not in body and not right.startswith(q)
    if region.startswith('/*'):
        return len(region) >= 4 and region.endswith('*/') and '*/' not in region[2:-2]
    if region.startswith('--') or region.startswith('# '):
        m = re.match(r'(--|# )([^\r\n]*)(\r\n|\r|\n|)$', region)
        if not m:
            return False
        closer = m.group(3)
        return (closer != '' or right == '') and not (closer == '\r' and right.startswith('\n'))
    if region.startswith('$'):
        m = re.match(r'\$(?:[_A-Z\u00c0-\u00dc]\w*)?\$', region, re.I | re.U)
        if not m or (left and (re.match(r'\w', left[-1], re.U) or left[-1] in '"$')):
            return False
        delim = m.group()
        rx = re.compile(re.escape(delim), re.I | re.U)
        rest = region[len(delim):]
        if len(rest) < len(delim) or not rx.fullmatch(rest[-len(delim):]):
            return False
        body_len = len(rest) - len(delim)
        return all(rx.match(rest, i) is None for i in range(body_len))
    return False


def oracle_region(left, region, right, ty):
    text = left + region + right
    why = check_span(text, len(left), len(left) + len(region), ty)
    if why:
        return {'input': [ord(c) for c in text], 'kind': 'region', 'span': [len(left), len(left) + len(region)],
                'expected': ty, 'observed': why}
    return None


# ---- (ii) dictionary words -------------------------------------------------------------------------
def rule_table():
    from sqlparse import keywords, tokens as T
    lx = _lexer()
    rules = lx._SQL_REGEX
    idx = next(i for i, (_, a) in enumerate(rules) if a is keywords.PROCESS_AS_KEYWORD)
    return rules, idx


def dedicated_type(w):
    """type of the first rule before the generic word rule that matches `w`, standing alone, completely"""
    from sqlparse import tokens as T
    rules, idx = rule_table()
    for rx, action in rules[:idx]:
        m = rx(w, 0)
        if m and m.end() == len(w) and isinstance(action, T._TokenType):
            return action
    return None


def is_word(w):
    rules, idx = rule_table()
    m = rules[idx][0](w, 0)
    return bool(m) and m.end() == len(w)


def dict_type(w):
    from sqlparse import tokens as T
    for d in _lexer()._keywords:
        if w.upper() in d:
            return d[w.upper()]
    return T.Name


def expected_type(w):
    return dedicated_type(w) or dict_type(w)


def all_words():
    seen = []
    s = set()
    for d in _lexer()._keywords:
        for w in d:
            if w not in s:
                s.add(w)
                seen.append(w)
    return seen


def recase(r, w, mode):
    if mode == 'upper':
        return w.upper() if w.upper().lower() == w.lower() else w
    if mode == 'lower':
        return ''.join(c.lower() if 'A' <= c <= 'Z' else c for c in w)
    return ''.join((c.lower() if r.random() < 0.5 else c.upper()) if ('A' <= c <= 'Z' or 'a' <= c <= 'z') else c
                   for c in w)


def oracle_word(left, w, right, ty):
    text = left + w + right
    why = check_span(text, len(left), len(left) + len(w), ty)
    if why:
        return {'input': [ord(c) for c in text], 'kind': 'word', 'span': [len(left), len(left) + len(w)],
                'expected': ty, 'observed': why}
    return None


# ---- (iv) configured lexers: "the first dictionary that lists it" for ANY registered dictionary list -----------------
def keyword_dicts():
    """The dictionaries of sqlparse.keywords in the registration order of default_initialization."""
    return list(_lexer()._keywords)


def config_lexer(dicts):
    from sqlparse import lexer, keywords
    lx = lexer.Lexer()
    lx.clear()
    lx.set_SQL_REGEX(keywords.SQL_REGEX)
    for d in dicts:
        lx.add_keywords(d)
    return lx


def dict_type_in(dicts, w):
    from sqlparse import tokens as T
    for d in dicts:
        if w.upper() in d:
            return d[w.upper()]
    return T.Name


def oracle_config(order, words, reuse=None):
    """order: indices into keyword_dicts() (the registered list of this configuration); every word alone must be ONE
    token typed by the dedicated rule or by the first dictionary of THIS configuration listing it, else Name.
    reuse: an existing Lexer object to RE-configure (clear + set_SQL_REGEX + add_keywords) instead of a new one."""
    from sqlparse import keywords
    base = keyword_dicts()
    dicts = [base[i] for i in order]
    if reuse is None:
        lx = config_lexer(dicts)
    else:
        lx = reuse
        lx.clear()
        lx.set_SQL_REGEX(keywords.SQL_REGEX)
        for d in dicts:
            lx.add_keywords(d)
    for w in words:
        want = dedicated_type(w) or dict_type_in(dicts, w)
        got = list(lx.get_tokens(w))
        if len(got) != 1 or got[0][1] != w or got[0][0] is not want:
            return {'input': [ord(c) for c in w], 'kind': 'config', 'order': list(order), 'reused_instance': reuse is not None,
                    'word': w, 'expected': tt_name(want),
                    'observed': 'a lexer configured with dictionaries %r lexes %r as %r; the first of them listing it gives %s'
                                % (list(order), w, [(tt_name(t), v) for t, v in got][:3], tt_name(want))}
    return None


def config_stage(ctx, words):
    """Configurations: every single dictionary, the reversed list, random subsets/permutations; each both as a NEW Lexer
    object and by re-configuring ONE object again and again (a history), after the default instance has lexed the
    same words (the main stages)."""
    r = ctx.rng
    nd = len(keyword_dicts())
    orders = [[i] for i in range(nd)] + [list(range(nd - 1, -1, -1)), []]
    for _ in range(ctx.n(6, 60)):
        k = r.randint(1, nd)
        orders.append(r.sample(range(nd), k))
    sample = [w for w in words if is_word(w)]
    fails = []
    n = 0
    shared = config_lexer([])
    for o in orders:
        ws = r.sample(sample, min(len(sample), ctx.n(150, 800)))
        ws = [recase(r, w, r.choice(['upper', 'lower', 'mixed'])) for w in ws]
        for reuse in (None, shared):
            n += len(ws)
            f = oracle_config(o, ws, reuse)
            if f:
                fails.append(f)
                break
        if fails:
            break
    # the default instance is unaffected by the configured ones
    for w in r.sample(sample, min(len(sample), 200)):
        n += 1
        f = oracle_word('', w, '', tt_name(expected_type(w)))
        if f:
            f['kind'] = 'word'
            f['observed'] += ' (after other Lexer objects had been configured)'
            fails.append(f)
            break
    return fails, {'configurations': len(orders), 'word_lexings': n}


# ---- (iii) identifiers in no dictionary -------------------------------------------------------------
IDENT0 = 'abcdefghijklmnopqrstuvwxyzABCDEFGHIJKLMNOPQRSTUVWXYZ_'
IDENT = IDENT0 + '0123456789'


def rand_ident(r, words):
    """plain identifier in no dictionary and not matched completely by a dedicated rule; often a dictionary
    word or a dedicated keyword with one character appended / removed / changed"""
    from sqlparse import tokens as T
    for _ in range(100):
        k = r.random()
        if k < 0.4:
            base = r.choice(words)
            base = ''.join(c for c in base if c in IDENT) or 'x'
            m = r.random()
            if m < 0.4:
                s = base + r.choice(IDENT)
            elif m < 0.6:
                s = base[:-1]
            elif m < 0.8:
                i = r.randrange(len(base))
                s = base[:i] + r.choice(IDENT) + base[i + 1:]
            else:
                s = r.choice(['END', 'NOT', 'ORDER', 'GROUP', 'UNION', 'CREATE', 'LEFT', 'GO', 'AT', 'NULLS', 'ASC',
                              'JOIN', 'LATERAL', 'STRAIGHT', 'NATURAL', 'DOUBLE', 'PRIMARY']) + r.choice(IDENT)
            s = recase(r, s, r.choice(['upper', 'lower', 'mixed']))
        else:
            s = r.choice(IDENT0) + ''.join(r.choice(IDENT) for _ in range(r.randint(0, 14)))
        if not s or s[0] not in IDENT0 or any(c not in IDENT for c in s):
            continue
        if dict_type(s) is not T.Name or dedicated_type(s) is not None:
            continue
        return s
    return 'zq_1'


# ---- contexts outside the property (observations, not failures) -------------------------------------
def observations(words, r):
    """Behaviour of the unchanged library outside the delimited contexts; reported in the notes."""
    from sqlparse import tokens as T
    obs = collections.OrderedDict()

    def note(key, text, what):
        obs.setdefault(key, {'count': 0, 'example': text, 'what': what})
        obs[key]['count'] += 1
        if len(text) < len(obs[key]['example']):
            obs[key]['example'] = text

    for w in words:
        if not is_word(w):
            continue
        ty = tt_name(expected_type(w))
        if ty == 'Name':
            continue
        for key, l, rt, what in [
                ('word+(', '', '(', 'a word directly followed by "(" is a Name (rule 20)'),
                ('word+.', '', '.', 'a word directly followed by "." is a Name (rule 18)'),
                ('word+ .', '', ' .', 'a word followed by blanks and "." is a Name (rule 18)'),
                ('.+word', '.', '', 'a word directly after "." is a Name (rule 19)'),
                ('word+$', '', '$', '"$" glued to a word belongs to the word (generic word rule)'),
                ('word+#', '', '#', '"#" glued to a word belongs to the word (generic word rule)'),
                ('x+word', 'x', '', 'a word character before the word: one longer word')]:
            if oracle_word(l, w, rt, ty):
                note(key, l + w + rt, what)
    # openers glued to a word character, '$' or '#'
    for text, start, end, ty, key, what in [
            ('a# c\n', 1, 5, 'Comment.Single', 'a+"# "', '"# comment" directly after a word character: "#" joins the word'),
            ('a--c\n', 1, 5, 'Comment.Single', 'a+"--"', '"--" directly after a word character'),
            ("a'b'", 1, 4, 'Literal.String.Single', "a+'", 'quote directly after a word character'),
            ('a$$b$$', 1, 6, 'Literal', 'a+$$', 'dollar quote directly after a word character (look-behind)'),
            ('$$$b$$', 1, 6, 'Literal', '$+$$', 'dollar quote directly after "$"'),
            ("'a\\' b'", 0, 4, 'Literal.String.Single', "backslash-quote", 'backslash before the closing quote'),
            ("'a''b'", 0, 3, 'Literal.String.Single', "adjacent strings", 'two adjacent strings are one token'),
            ('--a\rb\n', 0, 6, 'Comment.Single', 'CR ends a line comment', 'a lone CR ends a line comment'),
            ('$a$ $A$ $a$', 0, 11, 'Literal', 'dollar tag case', 'the closing tag is found case-insensitively')]:
        why = check_span(text, start, end, ty)
        if why:
            note(key, text, what + ': ' + why)
    return obs


# ---- driver ------------------------------------------------------------------------------------------
def build_cases(ctx):
    r = ctx.rng
    cases = []          # (kind, left, mid, right, expected name)
    dist = collections.Counter()
    nreg = ctx.n(300, 4000)
    for kind in region_kinds():
        for _ in range(nreg):
            l, reg, rt, ty = make_region(r, kind)
            cases.append(('region', l, reg, rt, ty))
            dist['region:' + kind] += 1
    words = all_words()
    skipped = [w for w in words if not is_word(w)]
    for w in words:
        if not is_word(w):
            continue
        ty = tt_name(expected_type(w))
        variants = {recase(r, w, 'upper'), recase(r, w, 'lower')}
        for _ in range(ctx.n(2, 6)):
            variants.add(recase(r, w, 'mixed'))
        ctxs = [(l, rt) for l in LEFTS for rt in RIGHTS]
        if ctx.quick():
            ctxs = r.sample(ctxs, 8) + [('', '')]
        for v in sorted(variants):
            for l, rt in ctxs:
                cases.append(('word', l, v, rt, ty))
                dist['word'] += 1
    for _ in range(ctx.n(1500, 20000)):
        s = rand_ident(r, words)
        l, rt = r.choice(LEFTS), r.choice(RIGHTS)
        cases.append(('ident', l, s, rt, 'Name'))
        dist['ident'] += 1
    return cases, dist, words, skipped


def oracle_case(case):
    kind, l, mid, rt, ty = case
    f = oracle_region(l, mid, rt, ty) if kind == 'region' else oracle_word(l, mid, rt, ty)
    if f:
        f['kind'] = kind
    return f


def run(ctx):
    cases, dist, words, skipped = build_cases(ctx)
    res = {'disagreements': [], 'failures': []}
    for c in cases:
        f = oracle_case(c)
        if f:
            res['failures'].append(f)
    texts = sorted({c[1] + c[2] + c[3] for c in cases if c[1] + c[2] + c[3]})
    dis, _ = common.corr_stage('lex', texts, impl.lex_dump, 'lex')
    res['disagreements'] += dis
    import gens as _gens
    for kind, text, span in _gens.long_cases(ctx.quick()):
        if span:
            lf = common.long_lex_failure(kind, text, span)
            if lf:
                lf['kind'] = 'long-region'
                res['failures'].append(lf)
            dist['long:' + kind] += 1
    cf, cdist = config_stage(ctx, words)
    res['failures'] += cf
    dist['config_word_lexings'] = cdist['word_lexings']
    dist['configurations'] = cdist['configurations']
    obs = observations(words, ctx.rng)
    notes = ['dictionary entries that are not words (unreachable through the generic word rule): %r' % skipped]
    for k, o in obs.items():
        notes.append('outside the property: %s -- %s [%d cases, e.g. %r]' % (k, o['what'], o['count'], o['example']))
    res.update({
        'evaluations': len(cases) + len(texts),
        'distinct_nontrivial': len(texts),
        'rule': 'every region kind x random bodies over boundary characters x contexts; every word of every registered '
                'dictionary x casings x the 35 delimited contexts (expected type recomputed in Python from the compiled '
                'SQL_REGEX and lexer._keywords); random identifiers in no dictionary (mutations of keywords included); '
                'configured lexers: single dictionaries, reversed order, random sub-lists, each as a new Lexer object and as a '
                're-configuration history of one object: every word typed by the first dictionary of THAT configuration; '
                'lex correspondence of the extracted model on all these texts',
        'samples': [c[1] + c[2] + c[3] for c in cases[:3]] + [c[1] + c[2] + c[3] for c in cases[-3:]],
        'traces_validated_against_impl': len(texts),
        'distribution': {'cases': dict(dist), 'words': len(words), 'not_words': skipped},
        'notes': notes,
    })
    return res


def run_oracle_only(ctx):
    cases, dist, words, skipped = build_cases(ctx)
    fails = [f for f in (oracle_case(c) for c in cases) if f]
    fails += config_stage(ctx, words)[0]
    return {'failures': fails, 'evaluations': len(cases), 'distinct_nontrivial': 0,
            'rule': 'oracle only (model unavailable)', 'samples': [c[1] + c[2] + c[3] for c in cases[:3]],
            'distribution': {'cases': dict(dist)}}


def oracle(text, span=None, expected=None):
    if span is None:
        return None
    why = check_span(text, span[0], span[1], expected)
    if why:
        return {'input': [ord(c) for c in text], 'span': list(span), 'expected': expected, 'observed': why}
    return None


def _open_known():
    return [k for k in vlib.load_known_findings() if k.get('property') == 'C14' and k.get('status') == 'open']


def search(ctx, hints):
    """Fresh cases under a time budget (the generators are the property's own input space)."""
    import time
    t0 = time.time()
    tried = 0
    r = ctx.rng
    words = [w for w in all_words() if is_word(w)]
    cf, _ = config_stage(ctx, all_words())
    if cf:
        return {'failures': cf[:1], 'tried': 1}
    while time.time() - t0 < ctx.n(60, 600):
        k = r.random()
        if k < 0.4:
            l, reg, rt, ty = make_region(r, r.choice(region_kinds()))
            c = ('region', l, reg, rt, ty)
        elif k < 0.7:
            w = r.choice(words)
            c = ('word', r.choice(LEFTS), recase(r, w, 'mixed'), r.choice(RIGHTS), tt_name(expected_type(w)))
        else:
            c = ('ident', r.choice(LEFTS), rand_ident(r, words), r.choice(RIGHTS), 'Name')
        tried += 1
        f = oracle_case(c)
        if f and classify(f, _open_known()) is None:
            return {'failures': [f], 'tried': tried}
    return {'failures': [], 'tried': tried}


# ---- known findings -----------------------------------------------------------------------------------
_TZ_LEFT = re.compile(r"(?is)(?:^|[^\w$#@])(?:at|with')\s+time\s+zone\s+$")


def _tzcast_literal(f):
    """a single-quoted literal (body without quote, non-empty) directly after the words AT TIME ZONE / WITH' TIME ZONE:
    the dedicated rule (AT|WITH')\\s+TIME\\s+ZONE\\s+'[^']+' takes it into the Keyword.TZCast token"""
    if f.get('kind') != 'region' or 'span' not in f:
        return False
    text = ''.join(map(chr, f['input']))
    a, b = f['span']
    reg = text[a:b]
    # the rule needs one character other than a quote after the opening quote (and stops at the next quote)
    if not (len(reg) >= 3 and reg[0] == "'" and reg[-1] == "'" and reg[1] != "'"):
        return False
    return bool(_TZ_LEFT.search(text[:a])) and 'inside another token' in str(f.get('observed'))


def _operator_glued_comment(f):
    """a comment whose opener directly follows an operator character: the operator rule [+/@#%^&|^-]+ runs over the
    first character(s) of the opener (1+/*c*/2 -> '+/' '*' 'c' '*' '/'; 1+--c -> '+--' 'c')"""
    if f.get('kind') != 'region' or 'span' not in f:
        return False
    text = ''.join(map(chr, f['input']))
    a, b = f['span']
    reg = text[a:b]
    if not (reg.startswith('/*') or reg.startswith('--') or reg.startswith('# ')):
        return False
    return a > 0 and text[a - 1] in '+/@#%^&|-' and 'inside another token' in str(f.get('observed'))


CLASS_PREDICATES = {'tzcast-literal': _tzcast_literal, 'operator-glued-comment': _operator_glued_comment}


def classify(failure, known):
    for k in known:
        pred = CLASS_PREDICATES.get(k.get('class'))
        try:
            if pred is not None and pred(failure):
                return k['id']
        except Exception:  # noqa
            continue
    return None


def rederive_known(k):
    w = k.get('witness', {})
    if 'input' not in w or 'span' not in w:
        return None
    f = oracle(''.join(map(chr, w['input'])), tuple(w['span']), w.get('expected'))
    if f:
        f['kind'] = 'region'
        if classify(f, [k]) == k['id']:
            return f
    return None


def shrink(f):
    """Delete characters outside and inside the span while the case keeps failing (span adjusted)."""
    if f and f.get('long_input'):
        return f
    if f and f.get('kind') == 'config':
        order = list(f['order'])
        w = f['word']
        changed = True
        while changed:                      # drop dictionaries while the word is still mis-typed
            changed = False
            for i in range(len(order)):
                o2 = order[:i] + order[i + 1:]
                g = oracle_config(o2, [w])
                if g:
                    order, f, changed = o2, g, True
                    break
        return f
    if not f or 'span' not in f:
        return f
    text = ''.join(map(chr, f['input']))
    a, b = f['span']
    exp = tuple(f['expected']) if isinstance(f['expected'], list) else f['expected']
    best = f
    changed = True
    while changed:
        changed = False
        for i in range(len(text)):
            if i in (a, b - 1) and f.get('kind') == 'region':
                continue            # keep the delimiters
            t2 = text[:i] + text[i + 1:]
            a2, b2 = (a - 1, b - 1) if i < a else ((a, b - 1) if i < b else (a, b))
            if b2 - a2 < (2 if f.get('kind') == 'region' else 1):
                continue
            if f.get('kind') != 'region' and a <= i < b:
                continue            # a word is not shrunk
            if f.get('kind') == 'region' and not region_ok(t2[:a2], t2[a2:b2], t2[b2:]):
                continue
            if f.get('kind') != 'region' and (re.match(r'[\w$#]', t2[b2:b2 + 1], re.U)
                                              or re.match(r'[\w$#.]', t2[a2 - 1:a2] if a2 else '', re.U)):
                continue            # keep the word delimited
            g = oracle(t2, (a2, b2), exp)
            if g:
                g['kind'] = f.get('kind')
                text, a, b, best, changed = t2, a2, b2, g, True
                break
    return best


def replay(payload):
    f = payload.get('failure')
    if f and f.get('long_input'):
        lc = common.long_case_text(f)
        if lc:
            g = common.long_lex_failure(*lc)
            return {'fails': bool(g), 'observed': g}
    if f and f.get('kind') == 'config':
        # the history: the default instance lexes the word first, then a configured lexer
        tokenize(f['word'])
        g = oracle_config(f['order'], [f['word']], config_lexer([]) if f.get('reused_instance') else None)
        return {'fails': bool(g), 'observed': g}
    if not f or 'input' not in f or 'span' not in f:
        return {'fails': False, 'note': 'no concrete case in replay file: ' + str(payload.get('no_longer_checks'))}
    exp = tuple(f['expected']) if isinstance(f['expected'], list) else f['expected']
    g = oracle(''.join(map(chr, f['input'])), f['span'], exp)
    return {'fails': bool(g), 'observed': g}
