"""C11 - parsing is insensitive to inter-token whitespace and keyword letter case (metamorphic)."""
import collections
import json
import re

import vlib
import impl
import gens_C11
from props import common

THEOREMS = [
    'Props/C11.v, C11g.v, C11w.v (all closed under the global context; coq/ASSUMPTIONS.txt):',
    'KEYWORD SPELLING, unbounded, no guard: C11_lex_case; C11_parse_case_full / C11_parse_case_text_full (ASCII case: lexer, '
    'splitter, all 25 passes, get_type); C11_parse_kwspell (case AND white space inside compound keywords, from related token '
    'streams); C11g_callbacks_case_safe (IR check over the regenerated pass table)',
    'WHITE-SPACE TOKENS RE-SPELLED ONE FOR ONE (same number of tokens), unbounded: C11w_parse_wsval, C11w_group, '
    'C11w_split_pointwise, C11w_get_type, C11w_callbacks_ws_safe',
    'WHITE-SPACE RUNS OF ANY LENGTH, from the text, unbounded: C11_first_match_run / C11_first_token_run (one match attempt), '
    'C11_lex_run_all (whole lexer; texts without quotes, backtick, # $ - / [), C11_text_split_run (statements), '
    'C11_text_get_type_run (type of the first statement); generic: C11_run_sim, C11_lex_all_generic; table checks C11_run_table, '
    'cur_table_ok',
    'C11_lex_ws_run (a run at a token boundary lexes to one token per unit), C11_multiword_fin (finite family), C11_split / '
    'C11_split_any_support (skeleton relation => same statements), C11_group_matching (bracket matching commutes with shapes)',
    'refutations: C11_comment_after_semi_refuted, C11_assignment_run_refuted (two `:=`: the tree depends on the number of '
    'white-space tokens), trailing comment; witnesses of seven repaired defects (*_same)',
]
TRUSTED = ['NOT proved, covered by the metamorphic oracle only: the GROUPING layer under white-space runs of a different LENGTH '
           '(a different number of tokens), and texts with literals / comments at the lexer level under run re-spelling']
ASSUMPTIONS = ['respellings are restricted to runs over {blank, tab, LF, CRLF}; pairs whose whitespace slots do not '
               'align with token boundaries (a slot swallowed by a comment) are discarded and counted']

WS_RE = re.compile(r'\s+')


def _known_patterns():
    import os
    out = list(vlib.load_known_findings())
    p = os.path.join(vlib.VERIF, 'known_findings_C11.json')
    if os.path.exists(p):
        with open(p) as f:
            ids = {k['id'] for k in out}
            out += [k for k in json.load(f) if k['id'] not in ids]
    return [k for k in out if k.get('property') == 'C11']


KNOWN_PATTERNS = _known_patterns()


# ------------------------------------------------------------------------------------------------
# observation on the implementation
def _tok_spans(text):
    from sqlparse import lexer
    out, pos = [], 0
    for tt, v in lexer.tokenize(text):
        out.append((pos, pos + len(v), tt, v))
        pos += len(v)
    return out


def valid_side(items, side):
    """The respelled positions of this rendering are really whitespace BETWEEN tokens / whole keyword atoms:
    every non-empty 'ws' slot starts and ends at a token boundary and consists of whitespace-typed tokens;
    every keyword atom starts and ends at a token boundary."""
    from sqlparse import tokens as T
    text = ''.join(i[side] for i in items)
    try:
        spans = _tok_spans(text)
    except Exception:  # noqa
        return False
    bounds = {0} | {e for _, e, _, _ in spans}
    starts = {s: (e, tt) for s, e, tt, _ in spans}
    pos = 0
    atom_span = {}
    kw_atoms = {i[3] for i in items if i[0] == 'kw'}
    for kind, a, b, aid in items:
        s = (a, b)[side - 1]
        if kind == 'ws' and s:
            if pos not in bounds or pos + len(s) not in bounds:
                return False
            p = pos
            while p < pos + len(s):
                e, tt = starts[p]
                if tt not in T.Whitespace:
                    return False
                p = e
        if aid in kw_atoms:
            lo, hi = atom_span.get(aid, (pos, pos))
            atom_span[aid] = (min(lo, pos), pos + len(s))
        pos += len(s)
    for lo, hi in atom_span.values():
        if lo not in bounds or hi not in bounds:
            return False
    return True


def shape_of(node):
    if node.is_group:
        return (type(node).__name__, tuple(shape_of(k) for k in node.tokens if not k.is_whitespace))
    tt = impl.ttype_str(node.ttype)
    return (tt, WS_RE.sub(' ', node.normalized) if node.is_keyword else '.')


def observe(text):
    import sqlparse
    try:
        stmts = sqlparse.parse(text)
        return {'n': len(stmts), 'types': [s.get_type() for s in stmts], 'shapes': [shape_of(s) for s in stmts]}
    except Exception as e:  # noqa
        return {'n': -1, 'types': [], 'shapes': [], 'exc': type(e).__name__}


def sig_of(shape, out):
    if isinstance(shape[1], tuple):
        for k in shape[1]:
            sig_of(k, out)
    else:
        out.append(shape)
    return out


def compare(oa, ob):
    """None when the observations agree; else the first observable that differs."""
    if oa.get('exc') != ob.get('exc'):
        return 'exception'
    if oa['n'] != ob['n']:
        return 'count'
    if [sig_of(s, []) for s in oa['shapes']] != [sig_of(s, []) for s in ob['shapes']]:
        # same number of statements but a significant token changed owner / type
        fa = [x for s in oa['shapes'] for x in sig_of(s, [])]
        fb = [x for s in ob['shapes'] for x in sig_of(s, [])]
        return 'boundary' if fa == fb else 'tokens'
    if oa['shapes'] != ob['shapes']:
        return 'shape'
    if oa['types'] != ob['types']:
        return 'type'
    return None


def oracle_items(items):
    """-> None | 'invalid' | failure dict"""
    if not (valid_side(items, 1) and valid_side(items, 2)):
        return 'invalid'
    ta, tb = gens_C11.texts_of(items)
    if ta == tb:
        return None
    what = compare(observe(ta), observe(tb))
    if what is None:
        return None
    return {'input': [ord(c) for c in ta], 'respelled': [ord(c) for c in tb], 'differs': what,
            'items': [list(i) for i in items]}


def oracle_pair(ta, tb):
    what = compare(observe(ta), observe(tb))
    if what is None:
        return None
    return {'input': [ord(c) for c in ta], 'respelled': [ord(c) for c in tb], 'differs': what}


# ------------------------------------------------------------------------------------------------
# shrinking at the item level
def _fails(items, want=None):
    f = oracle_items(items)
    if isinstance(f, dict) and (want is None or f['differs'] == want):
        return f
    return None


def shrink_items(items, same_kind=True):
    best = _fails(items)
    if not best:
        return items, best
    want = best['differs'] if same_kind else None
    items = list(items)
    # 1. make as many items equal as possible (b := a, else a := b)
    def equalise(items, best):
        for i, it in enumerate(items):
            if it[1] != it[2]:
                for new in ((it[0], it[1], it[1], it[3]), (it[0], it[2], it[2], it[3])):
                    cand = items[:i] + [new] + items[i + 1:]
                    g = _fails(cand, want)
                    if g:
                        items, best = cand, g
                        break
        return items, best
    items, best = equalise(items, best)
    # 2. delete chunks of items
    changed = True
    while changed and len(items) > 1:
        changed = False
        k = max(1, len(items) // 2)
        while k >= 1:
            i = 0
            while i < len(items):
                cand = items[:i] + items[i + k:]
                g = _fails(cand, want) if cand else None
                if g:
                    items, best, changed = cand, g, True
                else:
                    i += k
            k //= 2
    items, best = equalise(items, best)
    # 3. simplify the remaining whitespace and the fixed texts
    for i, it in enumerate(items):
        if it[0] in ('ws', 'kwws') and it[1]:
            for a, b in ((' ', ' '), (' ', it[2]), (it[1], ' '), (' ', '  '), (' ', '\n'), (' ', '\t')):
                if (a, b) == (it[1], it[2]):
                    break
                cand = items[:i] + [(it[0], a, b, it[3])] + items[i + 1:]
                g = _fails(cand, want)
                if g:
                    items, best = cand, g
                    break
        elif it[0] == 'fix' and len(it[1]) > 1:
            for t in ('x', '1', it[1][:1], it[1][-1:]):
                cand = items[:i] + [('fix', t, t, it[3])] + items[i + 1:]
                g = _fails(cand, want)
                if g:
                    items, best = cand, g
                    break
        elif it[0] == 'kw' and it[1] != it[2]:
            # minimal case difference: all upper vs. all lower, then one letter
            for a, b in ((it[1].upper(), it[1].lower()), (it[1].lower(), it[1].upper())):
                cand = items[:i] + [('kw', a, b, it[3])] + items[i + 1:]
                g = _fails(cand, want)
                if g:
                    items, best = cand, g
                    break
    return items, best


# ------------------------------------------------------------------------------------------------
# classification
def diff_items(f):
    return [it for it in f.get('items', []) if it[1] != it[2]]


def _is_comment(t):
    return t[:2] in ('--', '/*', '# ')


def class_of(f):
    """Violation class of a (shrunk) failure:  <what was respelled>:<keyword(s) / context>/<observable>."""
    items = f.get('items')
    if not items:
        return 'unclassified/' + f.get('differs', '?')
    items = [tuple(i) for i in items]
    ds = [it for it in items if it[1] != it[2]]
    kinds = sorted({d[0] for d in ds})
    words = collections.OrderedDict()
    for it in items:
        if it[0] in ('kw', 'kwws'):
            words.setdefault(it[3], []).append(it[1].upper() if it[0] == 'kw' else ' ')
    atom_txt = {aid: ''.join(w).strip() for aid, w in words.items()}
    kws = '+'.join(sorted({atom_txt[d[3]] for d in ds if d[0] in ('kw', 'kwws')}))
    if kinds == ['kwws']:
        return 'kwws:' + kws + '/' + f['differs']
    if kinds == ['kw']:
        return 'case:' + kws + '/' + f['differs']
    if kinds == ['ws']:
        nl = any(('\n' in d[1]) != ('\n' in d[2]) for d in ds)
        ctx = []
        for d in ds:
            i = items.index(d)
            prev = next((x for x in reversed(items[:i]) if x[1] and x[0] != 'ws'), None)
            nxt = next((x for x in items[i + 1:] if x[1] and x[0] != 'ws'), None)
            def name(x, end):
                if x is None:
                    return end
                return 'COMMENT' if _is_comment(x[1]) else x[1].upper()
            ctx.append(name(prev, '^') + '_' + name(nxt, '$'))
        return 'ws:' + ('newline-vs-blank' if nl else 'run') + ':' + '+'.join(sorted(set(ctx))) + '/' + f['differs']
    return 'mixed:' + '+'.join(kinds) + ':' + kws + '/' + f['differs']


def _two_assignments(failure):
    """mechanism predicate of finding C11-assignment-stale-index: some statement of the (shrunk) input holds two `:=`
    tokens (the generic _group driver walks on with stale indices after the first one was grouped up to the far `;`)"""
    import sqlparse
    from sqlparse import tokens as T
    for key in ('input', 'respelled'):
        try:
            for st in sqlparse.parse(''.join(map(chr, failure.get(key, [])))):
                if sum(1 for t in st.flatten() if t.ttype is T.Assignment) >= 2:
                    return True
        except Exception:  # noqa
            pass
    return False


CLASS_PREDICATES = {'two-assignments': _two_assignments}


def classify(failure, known):
    """id of the known finding this failure is an instance of, else None.  A failure is an instance of a known
    finding when the respelled positions are of the finding's kind and mention one of its keywords, and the
    same observable differs."""
    if not failure or 'items' not in failure:
        return None
    cls = class_of(failure)
    for k in known:
        pat = k.get('class_regex')
        if pat and re.fullmatch(pat, cls):
            return k['id']
    for k in known:
        pred = CLASS_PREDICATES.get(k.get('class_predicate'))
        if pred and failure.get('differs') == 'shape' and pred(failure):
            return k['id']
    return None


def rederive_known(k):
    w = k.get('witness') or {}
    if 'input' not in w or 'respelled' not in w:
        return None
    return oracle_pair(''.join(map(chr, w['input'])), ''.join(map(chr, w['respelled'])))


# ------------------------------------------------------------------------------------------------
def isolate(items):
    """Failures caused by ONE respelled position alone (all other positions spelled as in the original), found
    by bisection over the set of respelled positions: cheap, and separates several independent causes in one
    script.  Falls back to full shrinking when only a combination of positions fails."""
    base = [(x[0], x[1], x[1], x[3]) for x in items]
    ta = ''.join(x[1] for x in items)
    oa = observe(ta)
    diffs = [i for i, it in enumerate(items) if it[1] != it[2]]

    def cand_of(idx):
        c = list(base)
        for i in idx:
            c[i] = items[i]
        return c

    def bad(idx):
        c = cand_of(idx)
        return compare(oa, observe(''.join(x[2] for x in c))) is not None

    out = []

    def rec(idx):
        if not idx or not bad(idx):
            return False
        if len(idx) == 1:
            g = _fails(cand_of(idx))
            if g:
                out.append(g)
            return bool(g)
        h = len(idx) // 2
        l, r = rec(idx[:h]), rec(idx[h:])
        return l or r

    rec(diffs)
    if out:
        return out
    _, g = shrink_items(items)
    return [g] if g else []


def sweep(rng, n, shrink=True, maxfail=400, per_class=3):
    """-> stats, failures (isolated; the first `per_class` of every class fully shrunk), class counts"""
    stats = collections.Counter()
    classes = collections.Counter()
    fails = []
    for _ in range(n):
        items, what = gens_C11.case11(rng)
        stats['mode:' + what] += 1
        f = oracle_items(items)
        if f == 'invalid':
            stats['discarded'] += 1
        elif f is None:
            stats['agree'] += 1
        else:
            stats['violating_pairs'] += 1
            for g in (isolate(items) if shrink else [f]):
                c = class_of(g)
                classes[c] += 1
                if classes[c] <= per_class and len(fails) < maxfail:
                    if shrink:
                        _, h = shrink_items([tuple(i) for i in g['items']])
                        g = h or g
                    fails.append(g)
                elif classify(g, KNOWN_PATTERNS) is None and len(fails) < maxfail:
                    fails.append(g)        # unknown class: always reported
    return stats, fails, classes


def run(ctx):
    n = ctx.n(1500, 30000)
    stats, fails, classes = sweep(ctx.rng, n, shrink=True, maxfail=ctx.n(60, 400))
    res = {'disagreements': [], 'failures': fails}
    # metamorphic correspondence: the model agrees with the implementation on both members of the pairs
    pairs = []
    for _ in range(ctx.n(300, 4000)):
        items, _w = gens_C11.case11(ctx.rng)
        ta, tb = gens_C11.texts_of(items)
        pairs += [ta[:ctx.n(400, 2500)], tb[:ctx.n(400, 2500)]]
    dis, _ = common.corr_stage('parse', pairs, impl.parse_dump, 'parse', extra='all ')
    res['disagreements'] += dis
    res.update({
        'evaluations': n + len(pairs),
        'distinct_nontrivial': len({tuple(f['input']) for f in fails}) + stats['agree'],
        'rule': 'pairs (script, respelling) of the C11 grammar: every whitespace slot respelled by a run of 1-3 of '
                '{blank, tab, LF, CRLF}, inner whitespace of multi-word keywords respelled (one in six by a run of 4-9, one in twelve with a bare CR, FF or VT), keywords re-cased; '
                'compared: number of statements, get_type, tree with whitespace leaves erased and leaves reduced '
                'to (ttype, normalised keyword | .); pairs whose slots are not whitespace between tokens are discarded',
        'samples': [''.join(map(chr, f['input']))[:120] + ' => ' + ''.join(map(chr, f['respelled']))[:120]
                    for f in fails[:5]],
        'traces_validated_against_impl': len(pairs),
        'distribution': {'sweep': dict(stats), 'violation_classes': dict(classes)},
    })
    return res


def run_oracle_only(ctx):
    stats, fails, _classes = sweep(ctx.rng, ctx.n(1500, 30000))
    return {'failures': fails, 'evaluations': sum(v for k, v in stats.items() if k.startswith('mode:')),
            'distinct_nontrivial': stats['agree'], 'rule': 'oracle only (model unavailable)', 'samples': []}


def search(ctx, hints):
    import time
    t0 = time.time()
    tried = 0
    known = [k for k in KNOWN_PATTERNS if k.get('status') == 'open']
    while time.time() - t0 < ctx.n(60, 600):
        items, _w = gens_C11.case11(ctx.rng)
        tried += 1
        f = oracle_items(items)
        if isinstance(f, dict):
            # the pair may differ at several places: isolate them, report the first that is no instance of a listed finding
            try:
                parts = isolate(items)
            except Exception:  # noqa
                parts = [f]
            new = [g for g in parts if classify(g, known) is None]
            if new:
                return {'failures': new[:1], 'tried': tried}
    return {'failures': [], 'tried': tried}


def shrink(f):
    if not f or 'items' not in f:
        return f
    _, g = shrink_items([tuple(i) for i in f['items']])
    return g or f


def replay(payload):
    f = payload.get('failure')
    if not f or 'input' not in f or 'respelled' not in f:
        return {'fails': False, 'note': 'no concrete pair in replay file: ' + str(payload.get('no_longer_checks'))}
    g = oracle_pair(''.join(map(chr, f['input'])), ''.join(map(chr, f['respelled'])))
    return {'fails': bool(g), 'observed': g}
