"""C05 - statements end exactly at top-level semicolons; opaque regions never split."""
import collections
import random

import vlib
import impl
import gens
from props import common
from props import split_common as sc

THEOREMS = ['Props/C05.v: C05_k_statements (k plain statements joined by `;` + whitespace/one-line comments are returned as '
            'exactly those k, for any k and any token contents)',
            'C05_paren_no_split_partial (a `;` nested in parentheses does not end the statement when no END precedes it)',
            'C05_paren_refuted (F1: witness by vm_compute on the lexed text)',
            'C05_opaque_values (changing the values of tokens that are neither keywords nor punctuation leaves number and '
            'extent of the statements unchanged)',
            'Split/Level.v: csl_plain, plain_run, units_split, plain_is_unit; Split/Level2.v: csl_strict, nested_run, '
            'paren_semi_no_split, process_go_shape -- all over the REGENERATED _change_splitlevel / terminator / EOS tables',
            'Lexer/Regions.v: single_quoted_lexed, double_quoted_lexed, backtick_lexed, block_comment_lexed, '
            'line_comment_lexed, dollar_quoted_lexed (each region is exactly one token of a non-keyword, non-punctuation type)']
TRUSTED = ['hand-written process loop of the splitter (tied by the splitstream correspondence stage)',
           'the rendering grammar -> token classes step is covered by the region theorems for literals/comments and by the '
           'lex correspondence for the rest']
ASSUMPTIONS = ['plain statements: no DECLARE/BEGIN/END IF/END FOR/END WHILE keyword tokens, parentheses balanced']


def _known():
    return [k for k in vlib.load_known_findings() if k.get('property') == 'C05' and k.get('status') == 'open']


def oracle_script(stmts_text, script):
    import sqlparse
    try:
        pieces = sqlparse.split(script)
    except Exception as e:  # noqa
        return None          # totality is C07
    why = sc.check_pieces(script, stmts_text, pieces)
    if why:
        # F18: everything agrees except for one extra, final, comment-only piece
        extra = len(pieces) == len(stmts_text) + 1 and sc.sig_tokens(pieces[-1]) == [] \
            and sc.check_pieces(script, stmts_text, pieces[:-1]) is None
        return {'input': [ord(c) for c in script], 'kind': 'k_statements', 'observed': why,
                'written': len(stmts_text), 'returned': len(pieces), 'extra_comment_only': extra}
    # the same script handed over as a text stream (split() accepts file-like objects): same statements
    import io
    try:
        pieces2 = sqlparse.split(io.StringIO(script))
    except Exception:  # noqa
        return None
    if pieces2 != pieces:
        why2 = sc.check_pieces(script, stmts_text, pieces2) or 'pieces differ from those of the str form'
        return {'input': [ord(c) for c in script], 'kind': 'k_statements', 'form': 'stream', 'observed': 'as a text stream: ' + why2,
                'written': len(stmts_text), 'returned': len(pieces2), 'extra_comment_only': False}
    return None


BODIES = {
    'sq': ["a;b", ";", ";;select 1;", "x''y;", "--;", "/*;*/", "(;", "end;begin", "\n;\n", "$$;$$", "`;`", ""],
    'bt': ["a;b", ";", "x``y;", "--;", "'", '"', "\n;", ""],
    'dq': ["a;b", ";", 'x""y;', "--;", "'", "`;", "\n;"],
    'bc': ["a;b", ";", " ; ", "';'", "--;\n", "/*;", "begin;end", "*", "\n;\n"],
    'lc': ["a;b", ";", " ;'\"`", "/*;", "*/;", "begin;"],
    'dl': ["a;b", ";", "';'", "--;\n", "$;", "$x$;", "\n;\n", ""],
}


def region_variants(rng, script):
    """(original, variant) where every opaque region of `script` got another body without its terminator."""
    from sqlparse import lexer, tokens as T
    out = []
    changed = 0
    for tt, v in lexer.tokenize(script):
        nv = v
        if tt is T.String.Single and len(v) >= 2 and v[0] == v[-1] == "'":
            nv = "'" + rng.choice(BODIES['sq']) + "'"
        elif tt is T.String.Symbol and len(v) >= 2 and v[0] == v[-1] == '"' and '\\' not in v:
            nv = '"' + rng.choice(BODIES['dq']) + '"'
        elif tt is T.Name and len(v) >= 2 and v[0] == v[-1] == '`':
            nv = '`' + rng.choice(BODIES['bt']) + '`'
        elif tt is T.Comment.Multiline and v.startswith('/*') and v.endswith('*/') and len(v) >= 4:
            b = rng.choice(BODIES['bc'])
            nv = '/*' + (b if not b.startswith('+') else ' ' + b) + '*/'
        elif tt is T.Comment.Single and v.startswith('--'):
            nl = v[len(v.rstrip('\r\n')):]
            nv = '--' + rng.choice(BODIES['lc']) + nl
        elif tt is T.Literal and v.startswith('$') and v.count('$') >= 4:
            tag = v[:v.index('$', 1) + 1]
            b = rng.choice(BODIES['dl'])
            if tag.lower() not in b.lower():
                nv = tag + b + tag
        if nv != v:
            changed += 1
        out.append(nv)
    return ''.join(out), changed


def stmt_token_counts(text):
    """Number of tokens of each statement as the implementation splits the stream."""
    from sqlparse import lexer
    from sqlparse.engine.statement_splitter import StatementSplitter
    return [len(st.tokens) for st in StatementSplitter().process(lexer.tokenize(text))]


def oracle_regions(script, variant):
    from sqlparse import lexer
    try:
        a = [tt for tt, _ in lexer.tokenize(script)]
        b = [tt for tt, _ in lexer.tokenize(variant)]
        if a != b:
            return 'skip'       # the replacement changed the token structure around the region: not a valid variant
        ca, cb = stmt_token_counts(script), stmt_token_counts(variant)
    except Exception:  # noqa
        return None
    if ca != cb:
        return {'input': [ord(c) for c in script], 'variant': [ord(c) for c in variant], 'kind': 'region_replacement',
                'observed': f'statement extents {ca} became {cb} after replacing region bodies'}
    return None


EXPECTED_LONG = {'many-statements': None, 'long-error-run': None, 'many-items': 1}


def long_split_failure(kind, text, span):
    """The long inputs are built as `select 1; update ... <region> ...; select 2;` (3 statements) resp. 2 / n statements."""
    import sqlparse
    if kind == 'long-error-run':
        return None
    want = text.count('select 1;') if kind == 'many-statements' else 1 if kind == 'many-items' else 3 if span else 2
    try:
        got = len(sqlparse.split(text))
    except Exception:  # noqa
        return None
    if got != want:
        return {'input': [ord(c) for c in text[:200]], 'kind': 'long_input', 'long_input': {'kind': kind, 'length': len(text)},
                'written': want, 'returned': got,
                'observed': 'long input (%s, %d characters): %d statements written, split() returned %d' % (kind, len(text), want, got)}
    return None


def classify(f, known):
    s = ''.join(map(chr, f.get('input', [])))
    for k in known:
        if k.get('class') == 'paren-semicolon-after-unopened-END' and f.get('kind') == 'k_statements' \
                and sc.paren_semicolon_after_end(s):
            return k['id']
        if k.get('class') == 'trailing-comment-only-statement' and f.get('kind') == 'k_statements' \
                and f.get('extra_comment_only'):
            return k['id']
    return None


def rederive_known(k):
    w = ''.join(map(chr, k['witness']['input']))
    import sqlparse
    n = len(sqlparse.split(w))
    if n != k['witness'].get('expected_statements'):
        return {'input': k['witness']['input'], 'observed': f'{n} statements'}
    return None


def one_case(rng):
    g = sc.PlainGen(rng)
    stmts, seps = g.plain_script()
    script, texts = sc.render_script(stmts, seps, rng, rng.choice(['canon', 'random']), rng.choice([0, 0, 0.15, 0.3]),
                                     rng.choice([None, 'upper', 'lower', 'random']))
    return script, texts


def run(ctx):
    n = ctx.n(1500, 30000)
    res = {'disagreements': [], 'failures': []}
    scripts = []
    shapes = set()
    dist = collections.Counter()
    skipped = 0
    nreg = 0
    for _ in range(n):
        script, texts = one_case(ctx.rng)
        scripts.append(script)
        dist['k=%d' % len(texts)] += 1
        f = oracle_script(texts, script)
        if f:
            res['failures'].append(f)
        var, changed = region_variants(ctx.rng, script)
        if changed:
            r = oracle_regions(script, var)
            if r == 'skip':
                skipped += 1
            else:
                nreg += 1
                if r:
                    res['failures'].append(r)
    res['failures'] += fixed_family_failures()[:3]
    # two lazily read parsestream() results interleaved, and a complete split() between two reads of a stream: each
    # script comes back as its own statements (the oracle lives in props/C20.py)
    from props import C20 as _c20
    res['failures'] += _c20.interleave_failures()[:1]
    dist['fixed_family'] = len(FIXED_FAMILY)
    # long opaque regions with `;` inside, many statements (oracle only): thresholds on token / input size
    for kind, text, span in gens.long_cases(ctx.quick()):
        f = long_split_failure(kind, text, span)
        if f:
            res['failures'].append(f)
        dist['long:' + kind] += 1
    # correspondence: the splitter model against the implementation, statement by statement
    texts_all = common.corpus('split') + scripts[:ctx.n(1500, 20000)] + [gens.mixed_text(ctx.rng)[0] for _ in range(ctx.n(500, 5000))]
    dis, dumps = common.corr_stage('splitstream', texts_all, impl.splitstream_dump, 'splitstream')
    kdone = common.kernel_route(ctx, 'split', texts_all, res)
    res['disagreements'] += dis
    for d in dumps:
        if d.startswith('OK ') and '||' in d:
            shapes.add(tuple(len(st.split('|')) for st in d[3:].split('||'))[:12])
    res.update({
        'evaluations': n + nreg + len(texts_all),
        'distinct_nontrivial': len(shapes),
        'rule': 'scripts of k plain grammar statements (queries/DML/DDL with nesting, CASE, literals, comments, and a '
                'parenthesised `;` now and then) x separator layouts: split() must return exactly the k written statements; '
                'every opaque region replaced by bodies full of `;`/openers: statement extents in tokens must not move; '
                'splitstream correspondence of the extracted model; distinct_nontrivial = distinct tuples of statement '
                'lengths with >= 2 statements',
        'samples': scripts[:4],
        'traces_validated_against_impl': len(texts_all),
        'distribution': {'statements_per_script': dict(dist), 'region_variants_checked': nreg,
                         'kernel_evaluated_split (vm_compute inside coqc, compared with the implementation)': kdone,
                         'region_variants_discarded': skipped, 'length_histogram': common.length_hist(scripts)},
    })
    return res


def run_oracle_only(ctx):
    fails = []
    n = ctx.n(1500, 30000)
    for _ in range(n):
        script, texts = one_case(ctx.rng)
        f = oracle_script(texts, script)
        if f:
            fails.append(f)
    return {'failures': fails, 'evaluations': n, 'distinct_nontrivial': 0, 'rule': 'oracle only', 'samples': []}


# scripts whose structure is known by construction and that no generator produces: the keywords BEGIN / DECLARE in places
# where they open nothing, a statement starting with BEGIN / DECLARE directly behind a CREATE on the same line, literals that
# start with a doubled quote, a comment opener inside a block comment with a stray closer inside a later region.  All of
# them are split correctly by the unchanged library.
FIXED_FAMILY = [
    ("ALTER TABLESPACE users BEGIN BACKUP; select 2", 2),
    ("ALTER TABLE t ADD begin int; select 2", 2),
    ("ALTER TABLE t RENAME COLUMN a TO declare; select 2; select 3", 3),
    ("CREATE TABLE t (a int); BEGIN; select 1; COMMIT;", 4),
    ("CREATE INDEX i ON t (a);\tBEGIN TRANSACTION; select 1; COMMIT;", 4),
    ("CREATE TABLE t (a int); -- c\nDECLARE c CURSOR FOR select 1; select 2", 3),
    ("select '''x'; select 2", 2),
    ("select '''' as q; select ''''; select 3", 3),
    ('select """x" from t; select """"; select 3', 3),
    ("select 1 /* a /* b */; select '*/'; select 3", 3),
    ("select 1 /* a /* b */; select 2 -- */\n; select 3", 3),
    ('select 1 /* a /* b */; select "*/" from t; select 3', 3),
    ("#\n# banner\n#\nselect 1;\nselect 2;\n", 2),
    ("select 5 #\n 3; select 2", 2),
    ("select 1 /*/ x; y */; select 2", 2),
    ("select 1 /*+/ x; y */; select 2", 2),
]


def fixed_family_failures():
    import sqlparse
    out = []
    for text, k in FIXED_FAMILY:
        try:
            n = len(sqlparse.split(text))
        except Exception as e:  # noqa
            n = 'exception ' + type(e).__name__
        if n != k:
            out.append({'input': [ord(c) for c in text], 'kind': 'k_statements_fixed', 'written': k, 'returned': n,
                        'observed': 'split() returns %s statements, %d are written: %r' % (n, k, text)})
    # the same UTF-8 bytes script before and after unrelated calls that name another encoding: the same k statements
    stmts = ['select c\u00f4t\u00e9 from t', 'select h\u00f4tel from u', "select 'a;b'", 'select 4']
    script = ('; '.join(stmts) + ';').encode('utf-8')
    for other, enc in (('select 1; select 2'.encode('utf-16'), 'utf-16'), ("select 'caf\u00e9'; select 2;".encode('latin-1'), 'latin-1'),
                       (None, None)):
        try:
            got = sqlparse.split(script)
            n = len(got)
            if got != [x + ';' for x in stmts]:
                n = 'other pieces (%d)' % n
        except Exception as e:  # noqa
            n = 'exception ' + type(e).__name__
        if n != len(stmts):
            out.append({'input': list(script), 'kind': 'k_statements_fixed', 'written': len(stmts), 'returned': n, 'form': 'bytes',
                        'observed': 'split() of a UTF-8 bytes script of %d statements returns %s after an unrelated call with '
                                    'another encoding' % (len(stmts), n)})
            break
        if other is not None:
            try:
                sqlparse.split(other, encoding=enc)
            except Exception:  # noqa
                pass
    return out


def search(ctx, hints):
    import time
    fails = fixed_family_failures()[:1]
    if not fails:
        from props import C20 as _c20
        fails = _c20.interleave_failures()[:1]
    tried = 0
    t0 = time.time()
    known = _known()
    while time.time() - t0 < ctx.n(60, 600) and not fails:
        script, texts = one_case(ctx.rng)
        tried += 1
        f = oracle_script(texts, script)
        if f and classify(f, known) is None:
            fails.append(f)
        var, changed = region_variants(ctx.rng, script)
        if changed:
            r = oracle_regions(script, var)
            if r and r != 'skip':
                fails.append(r)
    return {'failures': fails[:1], 'tried': tried}


def replay(payload):
    f = payload.get('failure')
    if not f or 'input' not in f:
        return {'fails': False, 'note': 'no concrete input: ' + str(payload.get('no_longer_checks'))}
    import sqlparse
    s = ''.join(map(chr, f['input']))
    if f.get('kind') == 'region_replacement':
        r = oracle_regions(s, ''.join(map(chr, f['variant'])))
        return {'fails': bool(r) and r != 'skip', 'observed': r}
    if f.get('long_input'):
        lc = common.long_case_text(f)
        if lc:
            g = long_split_failure(*lc)
            return {'fails': bool(g), 'observed': g}
    if f.get('kind') == 'interleaved_streams':
        from props import C20 as _c20
        g = _c20.oracle(f)
        return {'fails': bool(g), 'observed': g}
    if f.get('form') == 'bytes':
        g = [x for x in fixed_family_failures() if x.get('form') == 'bytes']
        return {'fails': bool(g), 'observed': g[0]['observed'] if g else 'the bytes script splits as written'}
    if f.get('form') == 'stream':
        import io
        n = len(sqlparse.split(io.StringIO(s)))
    else:
        n = len(sqlparse.split(s))
    return {'fails': n != f.get('written'), 'observed': f'{n} statements, {f.get("written")} written'}
