"""A property decided by several parts (each part = one module in the style of props/C02.py).

make(globals(), [('tok', C08_tok), ('sc', C08_sc)]) installs run / run_oracle_only / search / shrink / replay /
classify / rederive_known that delegate to the parts; failures and disagreements are tagged with their part."""
import time
import traceback


def _tag(items, name):
    out = []
    for it in items or []:
        if isinstance(it, dict):
            it = dict(it)
            it['_part'] = name
        out.append(it)
    return out


def make(ns, parts, budget_split=True):
    names = [n for n, _ in parts]
    mods = dict(parts)

    def run(ctx):
        res = {'disagreements': [], 'failures': [], 'evaluations': 0, 'distinct_nontrivial': 0,
               'traces_validated_against_impl': 0, 'samples': [], 'distribution': {}, 'notes': []}
        rules = []
        for name, m in parts:
            t0 = time.time()
            try:
                r = m.run(ctx)
            except Exception:  # noqa
                res['disagreements'].append({'stage': 'harness:' + name, 'detail': traceback.format_exc()[-2000:]})
                continue
            res['disagreements'] += _tag(r.get('disagreements'), name)
            res['failures'] += _tag(r.get('failures'), name)
            for k in ('evaluations', 'distinct_nontrivial', 'traces_validated_against_impl'):
                res[k] += int(r.get(k, 0))
            res['samples'] += [s for s in r.get('samples', [])[:2]]
            res['distribution'][name] = r.get('distribution', {})
            res['distribution'][name + '_wall_s'] = round(time.time() - t0, 1)
            res['notes'] += [f'{name}: {x}' for x in r.get('notes', [])]
            if r.get('rule'):
                rules.append(f'[{name}] ' + r['rule'])
        res['rule'] = ' ;; '.join(rules)
        return res

    def run_oracle_only(ctx):
        res = {'failures': [], 'evaluations': 0, 'distinct_nontrivial': 0, 'rule': 'oracle only', 'samples': []}
        for name, m in parts:
            f = getattr(m, 'run_oracle_only', None)
            if f is None:
                continue
            try:
                r = f(ctx)
            except Exception:  # noqa
                continue
            res['failures'] += _tag(r.get('failures'), name)
            res['evaluations'] += int(r.get('evaluations', 0))
        return res

    def search(ctx, hints):
        out = {'failures': [], 'tried': 0, 'parts': {}}
        # parts whose stage disagreed / whose files broke go first
        order = list(parts)
        dis_parts = {d.get('_part') for d in hints.get('disagreements', []) if isinstance(d, dict)}
        order.sort(key=lambda p: 0 if p[0] in dis_parts else 1)
        for name, m in order:
            f = getattr(m, 'search', None)
            if f is None:
                continue
            h = dict(hints)
            h['disagreements'] = [d for d in hints.get('disagreements', []) if d.get('_part') in (None, name)]
            try:
                r = f(ctx, h)
            except Exception:  # noqa
                out['parts'][name] = traceback.format_exc()[-500:]
                continue
            out['tried'] += int(r.get('tried', 0))
            out['parts'][name] = {k: v for k, v in r.items() if k != 'failures'}
            fs = _tag(r.get('failures'), name)
            if fs:
                out['failures'] += fs
                break
        return out

    def _part_of(f):
        p = f.get('_part') if isinstance(f, dict) else None
        return mods.get(p)

    def shrink(f):
        m = _part_of(f)
        if m is not None and hasattr(m, 'shrink'):
            g = m.shrink(f)
            if isinstance(g, dict):
                g['_part'] = f.get('_part')
            return g
        return f

    def replay(payload):
        f = payload.get('failure')
        m = _part_of(f) if f else None
        if m is None:
            return {'fails': False, 'note': 'no concrete input in replay file: ' + str(payload.get('no_longer_checks'))}
        return m.replay(payload)

    def classify(f, known):
        m = _part_of(f)
        if m is not None and hasattr(m, 'classify'):
            return m.classify(f, known)
        return None

    def rederive_known(k):
        for name, m in parts:
            if hasattr(m, 'rederive_known'):
                try:
                    r = m.rederive_known(k)
                except Exception:  # noqa
                    r = None
                if r:
                    return r
        return None

    ns.update(run=run, run_oracle_only=run_oracle_only, search=search, shrink=shrink, replay=replay,
              classify=classify, rederive_known=rederive_known)
    th, tr, ass = [], [], []
    for name, m in parts:
        th += [f'[{name}] ' + t for t in getattr(m, 'THEOREMS', [])]
        tr += [f'[{name}] ' + t for t in getattr(m, 'TRUSTED', [])]
        ass += [f'[{name}] ' + t for t in getattr(m, 'ASSUMPTIONS', [])]
    ns.setdefault('THEOREMS', th)
    ns.setdefault('TRUSTED', tr)
    ns.setdefault('ASSUMPTIONS', ass)
