"""C20 - no call-history and no thread effects.

Stages of run():
  A  schedule correspondence: the singleton machine (extracted Coq model + its Python twin) against REAL threads
     forced through the same schedules statement by statement (tools/impl_sched.py): state after every step.
  B  history oracle: random histories (valid/invalid/raising calls, abandoned generators, lexer reconfiguration
     followed by default_initialization()) followed by a probe call; the probe's result must equal the result in
     a fresh interpreter (tools/impl_hist.py).
  C  free-running thread stress in fresh processes (first calls race on the initialisation).
  D  interrupted first initialisation: the first call is interrupted by an exception after k initialisation
     statements (injected at the translator's statement sites) or made close to the recursion limit (natural);
     the state left is compared with the model (xinit) and a later probe with a fresh interpreter.
search(): when the proof obligation on the generated program breaks (prog_well_locked) -> BFS over the model's
schedules for a violating one, replayed on real threads; when the inventory obligation breaks -> long histories.

The translated program has one of two shapes (coq/theories/Sys/Singleton.v: publish-then-initialise, the shape of
finding KF-C20-1, and initialise-then-publish, its repair); nothing here depends on which: the instruction list,
its source sites and the flag `publishes_before_init` come from the translator's side file on every run."""
import collections
import json
import os
import random
import time

import vlib
import impl_sched
import impl_hist
from props import common

THEOREMS = [
    'Props/C20.v: C20_sched_init_safe (forall n sched t o: a thread that has returned holds a fully initialised lexer)',
    'C20_sched_init_safe_later, C20_sched_same_instance, C20_sched_single_init, C20_sched_never_replaced, '
    'C20_sched_no_violation -- all thread counts, all schedules of the generated program; C20_sched_any_well_locked: the same '
    'for ANY program accepted by well_locked, i.e. for both shapes (publish-then-initialise / initialise-then-publish); '
    'C20_sched_prog_shape: the generated program is old_prog or new_prog over its own body',
    'C20_sched_no_deadlock_fair_partial (every schedule made of >= n*|prog| fair blocks terminates with the instance)',
    'C20_sched_default_cfg (the lexer handed to racing first calls has the configuration of a fresh process)',
    'C20_hist_calls_pure / _eff (calls, raising calls, abandoned generators never change the configuration)',
    'C20_hist_history (forall sem h call, ends_default h -> result_after h call = result_fresh call)',
    'C20_hist_any_state, C20_hist_reinit (default_initialization() restores default_cfg from ANY state)',
    'C20_hist_concurrent_calls, C20_hist_reads_stable (calls of other threads in between: no effect)',
    'C20_hist_needs_default (sharpness: clear() followed by nothing IS visible)',
    'C20_state_inventory(_full): forallb state_ok Gen.StateInv.bindings = true (vm_compute over the generated inventory)',
    'Sys/SingletonFacts.v: C20_unlocked_refuted, C20_unlocked_two_instances_refuted, C20_early_release_refuted (publish-first '
    'shape without the lock / early release); publish-last shape without the lock: C20_unlocked_new_two_instances_refuted, '
    'C20_unlocked_new_replaced_refuted, but C20_unlocked_new_init_safe HOLDS (all thread counts, all schedules)',
    'interrupted first initialisation, decided by the generated flag publishes_before_init (= publishes_before_initb prog, '
    'publishes_flag_ok): C20_hist_interrupted_init_refuted_if_publishes (flag = true -> the history statement is FALSE: '
    'KF-C20-1), C20_hist_history_if_publishes_last (flag = false -> it holds UNCONDITIONALLY, interrupted first initialisations '
    'included), C20_hist_interrupted_init_dichotomy, C20_hist_history_partial / _guarded (every history outside the class of '
    'the finding, both shapes); generic: C20_hist_new_shape_publishes_last, C20_hist_old_shape_publishes_first',
    'which case holds NOW: Inst/C20Finding.v (C20_publishes_before_init_now, C20_xhistory_refuted) while KF-C20-1 is open; '
    'Inst/C20Fixed.v (C20_publishes_last_now, C20_xhistory unconditional) once it is fixed -- exactly one is listed in _CoqProject',
]
TRUSTED = [
    'one Python statement of get_default_instance/default_initialization = one atomic model instruction '
    '(CPython with the GIL; free-threaded builds out of scope); clear() (two statements) is one instruction',
    'translators tools/regen/gen_singleton.py and gen_state.py (+ state_probe.py workload); the classification rules '
    'of the inventory: writes through a local/parameter or through self of a class without persistent instances '
    'are call-local (validated by deep fingerprints before/after the probe workload, not proved)',
    'History.v abstracts a call result as sem(configuration, arguments): justified by the inventory obligation, '
    'tested by the history oracle and the thread stress',
    'tools/impl_sched.py (sys.settrace stepping, lock proxy) and tools/impl_hist.py',
]
ASSUMPTIONS = ['no reconfiguration of the lexer concurrently with calls (reconfiguration is process-global by design)',
               'the history ends in the default configuration (no reconfiguration, or the last one is '
               'default_initialization()); otherwise results legitimately differ (C20_hist_needs_default)',
               'user code does not mutate the package tables (keywords.KEYWORDS..., SQL_REGEX) or token types']

FORMAT_OPTS = [{}, {'reindent': True}, {'keyword_case': 'upper'}, {'identifier_case': 'upper', 'strip_comments': True},
               {'reindent_aligned': True}, {'reindent_aligned': True}, {'strip_whitespace': True, 'use_space_around_operators': True},
               {'output_format': 'python'}, {'truncate_strings': 4}, {'reindent': True, 'comma_first': True, 'wrap_after': 10},
               {'right_margin': 30}]
BAD_OPTS = [{'keyword_case': 'x'}, {'indent_width': -1}, {'output_format': 3}, {'truncate_strings': 'a'}, {'reindent': 2},
            {'right_margin': 1}]
FIXED_TEXTS = ['select * from foo;', 'select a, b from t where x = 1; insert into t values (1, 2);',
               'create table t (a int); select 1', 'select foo, bar from baz order by 1 desc', '', ';',
               "select 'x' as y, count(*) from t group by y having count(*) > 1",
               'begin; update t set a = 1; commit;', 'select case when a then b else c end from d']


# ---------------------------------------------------------------------------------------------- stage A
def sched_jobs(ctx, side):
    pm = impl_sched.PyModel(side['prog'], list(range(len(side['kwnames']))))
    rng = ctx.rng
    info = {}
    jobs = []
    total2 = pm.count_moving(2)
    exh, complete = pm.moving_schedules(2, 3000)
    info['two_threads_moving_schedules_total'] = total2
    if complete:
        jobs += [(2, s) for s in exh]
        info['two_threads_exhaustive'] = len(exh)
    else:
        seen = set()
        for _ in range(3000):
            s = tuple(pm.random_schedule(2, rng))
            if s not in seen:
                seen.add(s)
                jobs.append((2, list(s)))
        info['two_threads_sampled'] = len(seen)
    # schedules that address blocked / finished / non-existing threads (no-op steps)
    for n, k in ((2, ctx.n(150, 1500)), (3, ctx.n(200, 2500)), (4, ctx.n(150, 2500)), (6, ctx.n(20, 300))):
        for _ in range(k):
            jobs.append((n, pm.random_schedule(n, rng, noop_share=rng.choice([0.0, 0.15, 0.4]))))
    # prefixes (threads parked in the middle) and the empty schedule
    for _ in range(ctx.n(60, 600)):
        n = rng.choice([2, 3, 4])
        s = pm.random_schedule(n, rng, noop_share=0.1)
        jobs.append((n, s[:rng.randrange(len(s) + 1)]))
    jobs.append((1, pm.random_schedule(1, rng)))
    jobs.append((2, []))
    info['schedules'] = len(jobs)
    info['by_threads'] = dict(collections.Counter(n for n, _ in jobs))
    return jobs, info


def stage_sched(ctx, res):
    side = impl_sched.load_side()
    pa = impl_sched.prog_arg(side)
    gen = vlib.run_model(['schedprog', 'welllocked gen', 'progshape gen'])
    if gen[0] != pa:
        res['disagreements'].append({'stage': 'sched-prog', 'detail': 'extracted program differs from the side file',
                                     'model': gen[0], 'side': pa})
    jobs, info = sched_jobs(ctx, side)
    dis, stats, real = impl_sched.compare(side, jobs, use_generated_cmd=True, nproc=6)
    res['disagreements'] += dis[:20]
    res['failures'] += impl_sched.property_failures(jobs, real)[:3]
    info['well_locked(gen)'] = gen[1]
    info['shape(gen)'] = gen[2]
    info['publishes_before_init(translator)'] = side.get('publishes_before_init')
    info.update({k: int(v) for k, v in stats.items()})
    return info, sum(len(s) for _, s in jobs), len(jobs)


# ---------------------------------------------------------------------------------------------- stage B
NON_ASCII_TEXTS = ['select "c\u00f4t\u00e9" from t; select 2', "select '\u00e4\u00f6\u00fc' as x; select \u00e9 from t\u00f4"]


def gen_probe(rng, texts):
    t = rng.choice(texts)
    k = rng.random()
    if k < 0.06:
        return ['bsplit', rng.choice(NON_ASCII_TEXTS)]
    if k < 0.45:
        return ['parse', t]
    if k < 0.65:
        return ['split', t, rng.random() < 0.3]
    return ['format', rng.choice(FORMAT_OPTS), t]


def gen_history(rng, texts):
    h = []
    for _ in range(rng.choice([0, 1, 2, 3, 4, 5, 6, 8])):
        k = rng.random()
        if k < 0.40:
            h.append(gen_probe(rng, texts))
        elif k < 0.48:
            h.append(['format_invalid', rng.choice(BAD_OPTS)])
        elif k < 0.60:
            h.append(['stream', rng.choice(texts), rng.choice([0, 0, 1, 1, 2, 3]), rng.random() < 0.5])
        elif k < 0.68:
            h.append(['raise_in_gen', rng.choice(['deepfmt', 'badtype', 'latin', 'deep', 'deepaligned', 'alignedcase', 'deepreindent'])])
        elif k < 0.74:
            h.append(['clear'])
        elif k < 0.79:
            h.append(['set_regex', rng.choice([0, 1, 2])])
        elif k < 0.85:
            h.append(['add_kw', rng.choice([0, 3, 8, 100, 101])])
        elif k < 0.91:
            h.append(['default_init'])
        elif k < 0.95:
            h.append(['get_instance'])
        else:
            h.append(['enc_call', rng.choice(['latin-1', 'utf-16', 'cp1252']), rng.choice(NON_ASCII_TEXTS)])
    if not impl_hist.ends_default(h):
        h.append(['default_init'])
        for _ in range(rng.choice([0, 0, 1, 2])):
            h.append(gen_probe(rng, texts))
    return h


def fresh_results(probes, batch=400, solo=0):
    """probe -> result in a fresh interpreter (batched; `solo` probes additionally alone in their own one)"""
    keys = []
    seen = {}
    for p in probes:
        k = json.dumps(p, sort_keys=True)
        if k not in seen:
            seen[k] = p
            keys.append(k)
    out = {}
    notes = []
    for i in range(0, len(keys), batch):
        ks = keys[i:i + batch]
        r = impl_hist.spawn('--probe-worker', {'probes': [seen[k] for k in ks]})
        for k, a, b in zip(ks, r['first'], r['again']):
            out[k] = a
            if a != b:
                notes.append({'kind': 'history', 'history': [seen[x] for x in ks], 'probe': seen[k], 'after': b, 'fresh': a,
                              'observed': 'the same call gave two different results within one fresh interpreter'})
    for k in keys[:solo]:
        r = impl_hist.spawn('--probe-worker', {'probes': [seen[k]]})
        if r['first'][0] != out[k]:
            notes.append({'kind': 'history', 'history': [], 'probe': seen[k], 'after': out[k], 'fresh': r['first'][0],
                          'observed': 'result in a batch of probes differs from the result alone in a fresh interpreter'})
    return out, notes


def stage_history(ctx, res, njobs, per_proc=40, model=True):
    rng = ctx.rng
    texts, dist = common.gen_texts(ctx, 150, maxlen=160)
    texts = FIXED_TEXTS + [t for t in texts if t.strip()][:150]
    jobs = [{'history': gen_history(rng, texts), 'probe': gen_probe(rng, texts)} for _ in range(njobs)]
    fresh, fl = fresh_results([j['probe'] for j in jobs], solo=ctx.n(4, 40))
    res['failures'] += fl[:2]
    opstat = collections.Counter()
    compared = 0
    shapes = set()
    batches = [jobs[i:i + per_proc] for i in range(0, len(jobs), per_proc)]
    model_reqs = []        # (request, observed state, history)
    outs = impl_hist.spawn_many('--history-worker', [{'jobs': b, 'keep_generators': bi % 2 == 0}
                                                     for bi, b in enumerate(batches)], nproc=6, timeout=900)
    for bi, (b, r) in enumerate(zip(batches, outs)):
        if 'worker_error' in r:
            res['disagreements'].append({'stage': 'harness', 'detail': r['worker_error'][:500]})
            continue
        prefix = []
        for j, out in zip(b, r['results']):
            prefix = prefix + j['history']
            syms = [impl_hist.model_symbol(op) for op in prefix]
            model_reqs.append(('hist ' + (','.join(syms) or '-'), out['state_after_history'], prefix))
            model_reqs.append(('hist ' + ','.join(syms + [impl_hist.model_symbol(j['probe'])]), out['state_after_probe'],
                               prefix + [j['probe']]))
            for op in j['history']:
                opstat[op[0]] += 1
            exp = fresh[json.dumps(j['probe'], sort_keys=True)]
            compared += 1
            shapes.add(tuple(op[0] for op in j['history']))
            if out['probe'] != exp:
                res['failures'].append({'kind': 'history', 'history': prefix, 'probe': j['probe'],
                                        'after': out['probe'][:300], 'fresh': exp[:300],
                                        'observed': 'probe result after the history differs from the fresh-interpreter result'})
            prefix = prefix + [j['probe']]
    nstate = 0
    if model:
        replies = vlib.run_model([q for q, _, _ in model_reqs])
        for (q, obs, hist), rep in zip(model_reqs, replies):
            nstate += 1
            if rep != obs:
                res['disagreements'].append({'stage': 'history-state', 'history': hist[-12:], 'model': rep, 'impl': obs})
    return {'histories': len(jobs), 'interpreters': len(batches), 'ops': dict(opstat),
            'lexer_states_compared_with_model': nstate,
            'distinct_history_shapes': len(shapes), 'probe_results_compared': compared,
            'distinct_probes': len(fresh), 'text_generators': dict(dist)}, compared, len(shapes)


# ---------------------------------------------------------------------------------------------- stage C
def stage_stress(ctx, res, procs, threads, rounds):
    rng = ctx.rng
    texts, _ = common.gen_texts(ctx, 30, maxlen=200)
    texts = FIXED_TEXTS + [t for t in texts if t.strip()][:16]
    corpus = [gen_probe(rng, texts) for _ in range(28)]
    total = 0
    outs = impl_hist.spawn_many('--stress-worker', [{'corpus': corpus, 'threads': threads[k % len(threads)], 'rounds': rounds,
                                                     'switch': [1e-6, 1e-5, 5e-3][k % 3]} for k in range(procs)],
                                nproc=4, timeout=900)
    for k, r in enumerate(outs):
        if 'worker_error' in r:
            res['disagreements'].append({'stage': 'harness', 'detail': r['worker_error'][:500]})
            continue
        total += r['compared']
        if r['nbad'] or r['errors']:
            res['failures'].append({'kind': 'stress', 'corpus': corpus, 'threads': threads[k % len(threads)], 'rounds': rounds,
                                    'observed': f"{r['nbad']} results differ from the sequential results; errors {r['errors'][:2]}",
                                    'examples': r['bad'][:2]})
    return {'processes': procs, 'threads': threads, 'results_compared': total}, total


# ---------------------------------------------------------------------------------------------- stage D
KF_ID = 'KF-C20-1'
PROBES_D = [['parse', 'select 1 from foo'], ['split', 'select 1; select 2', False], ['format', {'keyword_case': 'upper'}, 'select a from b']]


def interrupted_failures(ks, margins, probes=None):
    """first call interrupted after k init statements (injected) / made `margin` frames below the recursion limit
    (natural), then a probe: failures = probes whose result differs from the fresh-interpreter result."""
    probes = probes or PROBES_D
    fresh = impl_hist.spawn('--probe-worker', {'probes': probes})['first']
    first = ['parse', 'select 1']
    pl = [{'k': k, 'first': first, 'probe': probes[i % len(probes)]} for i, k in enumerate(ks)]
    out = impl_hist.spawn_many('--interrupt-worker', pl)
    fails, states = [], []
    for p, r in zip(pl, out):
        exp = fresh[probes.index(p['probe'])]
        states.append((p['k'], r.get('state'), r))
        if r.get('probe') != exp:
            fails.append({'kind': 'interrupted_init', 'k': p['k'], 'first': first, 'probe': p['probe'],
                          'state_left': r.get('state'), 'after': str(r.get('probe'))[:200], 'fresh': exp[:200],
                          'observed': 'a first call interrupted by an exception during the lexer initialisation leaves a '
                                      'half-initialised default lexer: later results differ from a fresh process'})
    pl2 = [{'margin': m, 'first': first, 'probe': probes[i % len(probes)]} for i, m in enumerate(margins)]
    out2 = impl_hist.spawn_many('--depth-worker', pl2)
    nat = []
    for p, r in zip(pl2, out2):
        exp = fresh[probes.index(p['probe'])]
        nat.append((p['margin'], r.get('state'), r.get('first')))
        if r.get('probe') != exp:
            fails.append({'kind': 'first_call_near_recursion_limit', 'margin': p['margin'], 'first': first, 'probe': p['probe'],
                          'state_left': r.get('state'), 'first_result': r.get('first'), 'after': str(r.get('probe'))[:200],
                          'fresh': exp[:200],
                          'observed': 'first sqlparse call made close to the recursion limit raises SQLParseError and leaves a '
                                      'half-initialised default lexer: every later call in the process gives a different result'})
    return fails, states, nat


def stage_interrupted(ctx, res, model=True):
    n = 13
    if model:
        n = int(vlib.run_model(['xinitlen'])[0])
    ks = list(range(0, n + 2))
    margins = ctx.n([4, 6, 8, 11, 14, 18, 22, 27, 33, 45], list(range(1, 60)))
    fails, states, nat = interrupted_failures(ks, margins)
    flag = None
    if model:
        replies = vlib.run_model([f'xinit {k}' for k in ks])
        for (k, st, r), rep in zip(states, replies):
            if st != rep:
                res['disagreements'].append({'stage': 'interrupted-init', 'k': k, 'model': rep, 'impl': st, 'detail': str(r)[:200]})
        # the flag the conditional theorems are about: translator (syntactic) vs model (semantic) vs what the injected
        # interruptions actually left behind on the implementation
        flag = vlib.run_model(['xinitflag'])[0]
        side = impl_sched.load_side()
        tr = 'true' if side.get('publishes_before_init') else 'false'
        full = vlib.run_model([f'xinit {n}'])[0]
        impl_flag = 'true' if any(st not in ('none', full) for _, st, _ in states) else 'false'
        if not (flag == tr == impl_flag):
            res['disagreements'].append({'stage': 'interrupted-init-flag', 'model': flag, 'translator': tr,
                                         'implementation': impl_flag,
                                         'detail': 'publishes_before_init: model / translator / implementation disagree'})
    res['failures'] += fails
    return {'injection_points': len(ks), 'publishes_before_init': flag, 'natural_margins': len(margins), 'states_left': sorted({str(s) for _, s, _ in states}),
            'natural_states_left': sorted({str(s) for _, s, _ in nat}), 'property_failures': len(fails)}, len(ks) + len(margins)


def classify(fl, kf):
    """known finding vs new violation"""
    if fl.get('kind') in ('interrupted_init', 'first_call_near_recursion_limit'):
        for k in kf:
            if k.get('id') == KF_ID:
                return KF_ID
    return None


REDERIVED = {}


def rederive_known(k):
    """KF-C20-1 is re-derived on the implementation on every run: a first call interrupted after 1 and after 3
    initialisation statements (injected) and first calls made 8..22 frames below the recursion limit (natural).
    Returns the first failure, or None when the finding no longer reproduces (repaired library: the interrupted
    initialisation leaves `_default_instance = None` and the next call initialises from scratch)."""
    if k.get('id') != KF_ID:
        return None
    fails, states, nat = interrupted_failures([1, 3], [8, 14, 18, 22])
    REDERIVED[KF_ID] = {'reproduces': bool(fails), 'states_left': sorted({str(s) for _, s, _ in states}),
                        'natural_states_left': sorted({str(s) for _, s, _ in nat})}
    if not fails:
        import sys
        print(f'NOTE: {KF_ID} no longer reproduces on this library (state left by an interrupted first initialisation: '
              f"{REDERIVED[KF_ID]['states_left']}, near the recursion limit: {REDERIVED[KF_ID]['natural_states_left']})",
              file=sys.stderr)
    return fails[0] if fails else None


# ---------------------------------------------------------------------------------------------- self-tests
def stage_selftest(ctx, res):
    """the machinery must reject broken variants (patched temp copies; /repo is never touched)"""
    info = {}
    kinds = ctx.n(('nolock', 'same', 'nolock_new', 'same_new'),
                  ('nolock', 'early_release', 'dcl', 'same', 'nolock_new', 'same_new'))
    rep = impl_sched.variant_selftest(kinds=kinds, nrandom=ctx.n(40, 200), seed=ctx.seed)
    for kind, r in rep.items():
        bad = None
        if 'translator' in r:
            bad = 'translator failed on the variant: ' + r['translator']
        elif r['ndis']:
            bad = f"model/real-thread disagreement on variant: {r['correspondence_disagreements'][:1]}"
        elif kind in ('same', 'same_new'):
            if r['well_locked'] != 'true' or r.get('shape') != {'same': 'publish-first', 'same_new': 'publish-last'}[kind] or r['search']['found'] or r['random_schedules_with_real_failure']:
                bad = 'control variant not accepted'
        elif r['well_locked'] != 'false' or not r['search'].get('confirmed'):
            bad = 'broken variant not rejected (well_locked=%s, search=%s)' % (r['well_locked'], str(r['search'])[:200])
        info['sched:' + kind] = {'well_locked': r.get('well_locked'), 'shape': r.get('shape'), 'violating_schedule': (r.get('search', {}).get('found') or {}).get('schedule'),
                                 'confirmed_on_real_threads': r.get('search', {}).get('confirmed'),
                                 'random_schedules': r.get('stats', {}).get('schedules')}
        if bad:
            res['disagreements'].append({'stage': 'selftest', 'variant': kind, 'detail': bad})
    if not ctx.quick():
        rep = impl_hist.state_variant_selftest()
        for kind, r in rep.items():
            ok = r.get('inventory_ok') == ('true' if kind == 'control_unchanged' else 'false') or \
                (kind != 'control_unchanged' and 'translator' in r)
            info['state:' + kind] = r.get('failing_bindings', r.get('translator')) if kind != 'lazy_tokentype' else r.get('missing_tokentypes')
            if not ok:
                res['disagreements'].append({'stage': 'selftest', 'variant': kind, 'detail': str(r)[:300]})
    return info


def run(ctx, model=True):
    res = {'disagreements': [], 'failures': []}
    dist = {}
    t0 = time.time()
    ev = nontriv = traces = 0
    if model:
        info, steps, nsched = stage_sched(ctx, res)
        dist['schedules'] = info
        ev += nsched
        traces += steps
        nontriv += nsched
    dist['t_sched_s'] = round(time.time() - t0, 1)
    t1 = time.time()
    info, compared, shapes = stage_history(ctx, res, ctx.n(240, 4000), model=model)
    dist['history'] = info
    ev += compared
    nontriv += shapes
    dist['t_history_s'] = round(time.time() - t1, 1)
    t2 = time.time()
    info, total = stage_stress(ctx, res, ctx.n(4, 24), [8, 16, 12], ctx.n(2, 6))
    dist['stress'] = info
    ev += total
    dist['t_stress_s'] = round(time.time() - t2, 1)
    t3 = time.time()
    info, total = stage_interrupted(ctx, res, model=model)
    dist['interrupted_first_initialisation'] = info
    ev += total
    dist['t_interrupted_s'] = round(time.time() - t3, 1)
    res['failures'] += interleave_failures()[:1]
    dist['interleaved_stream_pairs'] = len(INTERLEAVE_TEXTS)
    if model:
        t4 = time.time()
        dist['selftests_on_patched_copies'] = stage_selftest(ctx, res)
        dist['t_selftest_s'] = round(time.time() - t4, 1)
    res.update({
        'evaluations': ev, 'distinct_nontrivial': nontriv, 'traces_validated_against_impl': traces,
        'rule': 'A: schedules of 1-6 threads (2 threads: every maximal schedule in which each step moves a thread; '
                'others random, with no-op steps on blocked/finished threads, and prefixes) forced on real threads; the '
                'state (pc and result of every thread, every Lexer object, lock holder, shared variable) and the violation '
                'code are compared with the extracted model AFTER EVERY STEP (traces_validated = steps). '
                'B: random histories + probe vs fresh interpreter; distinct_nontrivial counts schedules + distinct history '
                'shapes; the lexer configuration after every history is compared with the extracted history machine. '
                'C: results of free-running threads racing on the first call vs sequential results. D: first call '
                'interrupted after k initialisation statements (injected) or made close to the recursion limit (natural), '
                'state left compared with the model (xinit), later probe compared with a fresh process.',
        'samples': [], 'distribution': dist,
    })
    return res


def run_oracle_only(ctx):
    return run(ctx, model=False)


# ---------------------------------------------------------------------------------------------- search
def search(ctx, hints):
    out = {'failures': [], 'tried': 0}
    broken = ' '.join(hints.get('broken', []))
    sched_dis = any(d.get('stage') in ('sched', 'sched-prog') for d in hints.get('disagreements', []))
    regen = hints.get('regen', {})
    if 'SingletonFacts' in broken or 'SingletonProg' in broken or sched_dis or not regen.get('gen_singleton', {}).get('ok', True):
        try:
            side = impl_sched.load_side()
            sr = impl_sched.search_and_replay(side, impl_sched.SIDE, vlib.REPO, max_threads=3)
            out['schedule_search'] = {k: v for k, v in sr.items() if k != 'failure'}
            out['tried'] += sr.get('explored', 0)
            if sr.get('confirmed'):
                out['failures'].append(sr['failure'])
                return out
        except Exception as e:   # noqa
            out['schedule_search'] = {'error': repr(e)[:300]}
        # the translator may have failed closed (no program): free-running stress is all that is left
    tmp = {'disagreements': [], 'failures': []}
    t0 = time.time()
    budget = ctx.n(60, 600)
    while time.time() - t0 < budget and not tmp['failures']:
        stage_history(ctx, tmp, 200)
        out['tried'] += 200
        if not tmp['failures']:
            stage_stress(ctx, tmp, 3, [16], 3)
    out['failures'] = tmp['failures'][:1]
    return out


# ---------------------------------------------------------------------------------------------- replay / shrink
def _check_history(history, probe):
    fresh = impl_hist.spawn('--probe-worker', {'probes': [probe]})['first'][0]
    if not impl_hist.ends_default(history):
        history = history + [['default_init']]
    after = impl_hist.spawn('--history-worker', {'jobs': [{'history': history, 'probe': probe}], 'keep_generators': True})
    after = after['results'][0]['probe']
    if after != fresh:
        return {'kind': 'history', 'history': history, 'probe': probe, 'after': after[:300], 'fresh': fresh[:300],
                'observed': 'probe result after the history differs from the fresh-interpreter result'}
    return None


def _check_schedule(n, sched):
    side = impl_sched.load_side()
    real = impl_sched.run_real([(n, sched)])
    fl = impl_sched.property_failures([(n, sched)], real)
    return fl[0] if fl else None


INTERLEAVE_TEXTS = [
    ('select 1; select a from t where x = 2; insert into t values (1); select 4',
     'update t set a = 1; delete from t; select (1), f(2) from u; select 9; select 10'),
    ("select 'a;b'; select 2 -- c\n; select 3", 'create table t (a int); select "x;y" from t; select 5'),
]


def interleave_failures():
    """two lazily consumed parsestream() generators advanced alternately, with a complete format() call in between: each
    yields exactly the statements parse() gives for its text (in a fresh worker process)"""
    code = (
        'import sys, json, itertools\n'
        'import sqlparse\n'
        'pairs = json.load(sys.stdin)\n'
        'bad = []\n'
        'for t1, t2 in pairs:\n'
        '    try:\n'
        '        g1, g2 = sqlparse.parsestream(t1), sqlparse.parsestream(t2)\n'
        '        o1, o2 = [], []\n'
        '        for a, b in itertools.zip_longest(g1, g2):\n'
        '            if a is not None: o1.append(str(a))\n'
        '            if b is not None: o2.append(str(b))\n'
        "            sqlparse.format('select x from y', reindent=True)\n"
        '        w1, w2 = [str(s) for s in sqlparse.parse(t1)], [str(s) for s in sqlparse.parse(t2)]\n'
        '        if o1 != w1 or o2 != w2:\n'
        "            bad.append({'texts': [t1, t2], 'observed': 'interleaved parsestream yields %r / %r, parse gives %r / %r' % (o1[:4], o2[:4], w1[:4], w2[:4])})\n"
        '    except Exception as e:\n'
        "        bad.append({'texts': [t1, t2], 'observed': 'exception ' + type(e).__name__ + ': ' + str(e)[:120]})\n"
        'json.dump(bad, sys.stdout)\n')
    import subprocess
    env = dict(os.environ, PYTHONPATH=vlib.REPO, PYTHONHASHSEED='0')
    try:
        p = subprocess.run(['/venv/bin/python', '-c', code], input=json.dumps(INTERLEAVE_TEXTS), stdout=subprocess.PIPE,
                           stderr=subprocess.PIPE, text=True, timeout=120, env=env)
        bad = json.loads(p.stdout) if p.returncode == 0 else [{'texts': list(INTERLEAVE_TEXTS[0]), 'observed': 'worker failed: ' + p.stderr[-300:]}]
    except subprocess.TimeoutExpired:
        bad = [{'texts': list(INTERLEAVE_TEXTS[0]), 'observed': 'the interleaved generators did not finish within 120 s'}]
    return [dict(b, kind='interleaved_streams') for b in bad]


def oracle(f):
    if f.get('kind') == 'interleaved_streams':
        g = [x for x in interleave_failures() if x['texts'] == f.get('texts')]
        return g[0] if g else None
    if f.get('kind') == 'schedule':
        return _check_schedule(f['nthreads'], f['schedule'])
    if f.get('kind') == 'history':
        return _check_history(f['history'], f['probe'])
    if f.get('kind') == 'interrupted_init':
        fails, _, _ = interrupted_failures([f['k']], [], probes=[f['probe']])
        return fails[0] if fails else None
    if f.get('kind') == 'first_call_near_recursion_limit':
        fails, _, _ = interrupted_failures([], [f['margin']], probes=[f['probe']])
        return fails[0] if fails else None
    if f.get('kind') == 'stress':
        tmp = {'failures': []}
        for _ in range(5):
            r = impl_hist.spawn('--stress-worker', {'corpus': f['corpus'], 'threads': f['threads'], 'rounds': f['rounds']})
            if r['nbad'] or r['errors']:
                return dict(f, observed=f"{r['nbad']} results differ; errors {r['errors'][:2]}", examples=r['bad'][:2])
        return None
    return None


def shrink(f):
    if f.get('kind') == 'schedule':
        n, s = f['nthreads'], list(f['schedule'])
        best = f
        i = 0
        while i < len(s):
            t = s[:i] + s[i + 1:]
            g = _check_schedule(n, t)
            if g:
                s, best = t, g
            else:
                i += 1
        return best
    if f.get('kind') == 'history':
        h = list(f['history'])
        best = f
        k = max(1, len(h) // 2)
        while k >= 1:
            i = 0
            while i < len(h):
                t = h[:i] + h[i + k:]
                g = _check_history(t, f['probe']) if impl_hist.ends_default(t) else None
                if g:
                    h, best = t, g
                else:
                    i += k
            k //= 2
        return best
    return f


def replay(payload):
    f = payload.get('failure')
    if not f:
        return {'fails': False, 'note': 'no concrete failure in replay file: ' + str(payload.get('no_longer_checks'))}
    g = oracle(f)
    return {'fails': bool(g), 'observed': g}
