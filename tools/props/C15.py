"""C15 - deep nesting: every entry point either succeeds (round trip / tree guarantees intact) or raises
SQLParseError; RecursionError never escapes, the interpreter survives, a later ordinary call still works.

Two halves.
* LOGIC (proved, Props/C15.v over Gen/CallGraph.v regenerated from /repo): where the guard is, which
  functions recurse, what each entry point evaluates inside / outside the guard; budget model.
* INTERPRETER behaviour (observed here): a SUBPROCESS MATRIX, one fresh /venv/bin/python per cell:
  construct x depth x sys.setrecursionlimit x entry point x option set, plus head-room probes (the entry
  point called with only h frames left below the limit, as the first or a later call of the process),
  plus a limit scan (success monotone in the limit; frames per nesting level).
"""
import collections
import concurrent.futures
import json
import os
import subprocess
import time

import vlib
from props import common

THEOREMS = [
    'Props/C15.v: C15_guard (forall L >= entry_frames, text, option set: parse/split/format_budget <> Err RecursionError)',
    'C15_guard_parse / _split / _format (outcome = unbudgeted result | SQLParseError | an error the unbudgeted model has too)',
    'C15_ok_is_unbudgeted (a budget only adds failures) ; C15_success_keeps_guarantees (C02 round trip and C03 leaf/cached '
    'invariants hold for every successful result under any limit)',
    'C15_monotone (success is monotone in the limit) ; C15_enough_frames (a large enough limit gives the unbudgeted result)',
    'C15_split_outside (what split() evaluates outside the guard is str() of ungrouped statements: depth 1, two frames)',
    'C15_str_budget / C15_flatten_budget (str / flatten succeed exactly when the depth fits)',
    'C15_callgraph_ok (Inst/C15.v: forallb inside_guard_or_shallow Gen.CallGraph.reach = true, guard shape, no lazily '
    'stored generators in grouping, only parse/parsestream return deep trees)',
    'limits, with witnesses: C15_no_headroom_refuted (no frames left to ENTER the entry point: RecursionError before the '
    'guard exists), C15_caller_str_unguarded (str() applied by the caller to a returned deep tree is outside the guard)',
]
TRUSTED = [
    'tools/regen/gen_callgraph.py: call graph by NAME over the ast of every file of /repo/sqlparse (conservative: '
    'method calls by name, calls through variables by parameter flow or else every escaping function value); '
    'fail-closed on the shape of FilterStack, the entry points, StatementSplitter.process',
    'budget model: frame use of a grouping pass / statement filter ABSTRACTED as max(depth in, depth out) + c',
    'NOT modelled, observed by the subprocess matrix: CPython frame accounting and constants, C stack, MemoryError, '
    'generator yield-from chains, running time, state surviving a call (Lexer singleton)',
]
ASSUMPTIONS = ['option values are str/int/bool as documented (KCallerOption sites: repr() of an option value in an '
               'error message runs outside the guard)',
               'operations the CALLER applies to trees returned by parse()/parsestream() are outside the property']

WORKER = os.path.join(vlib.VERIF, 'tools', 'impl_c15.py')
CONSTRUCTS = ['paren', 'brack', 'unclosed', 'case', 'func', 'subq', 'idlist', 'mixed']
ENTRIES = [('parse', 'none'), ('parsestream', 'none'), ('split', 'none'),
           ('format', 'none'), ('format', 'reindent'), ('format', 'strip'), ('format', 'kwcase')]
GROUPING = {('parse', 'none'), ('parsestream', 'none'), ('format', 'reindent'), ('format', 'strip')}


# ---------------------------------------------------------------------------------------------
def run_cell(cell, timeout):
    t0 = time.time()
    try:
        p = subprocess.run([vlib.PY, WORKER, json.dumps(cell)], env=vlib.pyenv(), stdout=subprocess.PIPE,
                           stderr=subprocess.PIPE, timeout=timeout, text=True, errors='replace')
    except subprocess.TimeoutExpired:
        return {'status': 'timeout', 'wall': round(time.time() - t0, 1), 'limit_s': timeout}
    r = {'status': 'done', 'rc': p.returncode, 'wall': round(time.time() - t0, 2)}
    try:
        r['res'] = json.loads(p.stdout.strip().splitlines()[-1])
    except (ValueError, IndexError):
        r['status'] = 'crash'
        r['stderr'] = p.stderr[-600:]
        r['stdout'] = p.stdout[-200:]
    if p.returncode != 0:
        r['status'] = 'crash'
        r['stderr'] = p.stderr[-600:]
    return r


def verdict(cell, r):
    """None: the cell satisfies the property; 'inconclusive'; or a failure dict"""
    def fail(kind, obs):
        return {'cell': cell, 'kind': kind, 'observed': obs,
                'reproducer': "PYTHONPATH=%s /venv/bin/python tools/impl_c15.py '%s'" % (vlib.REPO, json.dumps(cell))}
    if r['status'] == 'timeout':
        # a cell that costs well under a second on the unchanged tree (calibrated: est_cost) and has not come back after
        # a minute neither succeeded nor raised SQLParseError: work that explodes with the nesting depth.  Cells that are
        # expensive anyway (deep trees) stay inconclusive.
        if 'headroom' not in cell and r.get('limit_s', 0) >= 60 and \
                est_cost(cell['construct'], cell['depth'], cell['limit'], cell['entry'], cell['opts']) <= 1.0:
            return fail('no-result', 'the call neither returned nor raised within %s s (a cell of about %.1f s on the unchanged '
                        'tree): nesting depth %d' % (r.get('limit_s'), est_cost(cell['construct'], cell['depth'], cell['limit'],
                                                                                 cell['entry'], cell['opts']), cell['depth']))
        return 'inconclusive'
    if r['status'] == 'crash':
        return fail('crash', 'interpreter exit status %s: %s' % (r.get('rc'), (r.get('stderr') or '')[-300:]))
    res = r['res']
    o = res['outcome']
    if o == 'RecursionError':
        if 'headroom' in cell and not res.get('through_guard'):
            # raised before FilterStack.run started: the caller left too few frames to enter the entry point
            pass
        else:
            return fail('escape', 'RecursionError escaped from %s (through the guard: %s)' % (cell['entry'], res.get('through_guard')))
    elif o not in ('ok', 'SQLParseError'):
        return fail('escape', 'exception %s escaped: %s' % (o, res.get('detail', '')))
    if res.get('check'):
        return fail('result', res['check'])
    if res.get('later'):
        return fail('later-call', 'a later ordinary call in the same process misbehaves: ' + res['later'])
    return None


def run_cells(cells, timeout):
    with concurrent.futures.ThreadPoolExecutor(vlib.NPROC) as ex:
        return list(ex.map(lambda c: run_cell(c, timeout), cells))


def est_cost(construct, depth, limit, entry, opts):
    """rough seconds of one cell (calibrated on this machine); used to pick the quick subset and to order"""
    if (entry, opts) not in GROUPING or construct == 'unclosed':
        return 0.2 + depth / 50000.0
    eff = min(depth, limit // 3 if limit < 10000 else depth)     # levels built before the limit bites
    k = {'paren': 6, 'brack': 6, 'func': 30, 'case': 40, 'subq': 12, 'idlist': 30, 'mixed': 150}.get(construct, 30)
    return 0.2 + k * (eff / 1000.0) ** 3 + depth / 2000.0


HEAVY = ('case', 'idlist', 'mixed')


def in_quick(c, d, lim):
    """the quick subset (calibrated: about 25 s wall on 16 idle cores, every kind of cell represented)"""
    if d == 200000:
        return False
    if c == 'unclosed':
        return True                                   # stays flat: cheap at every depth and limit
    if lim == 150:
        return d <= 3000 or (d == 20000 and c not in HEAVY)
    if lim == 1000:
        if d <= 100:
            return True
        if d == 500:
            return c != 'mixed'
        if d == 1000:
            return c in ('paren', 'brack')
        return c == 'paren' and d == 3000             # far beyond the limit
    # limit 10000: nothing fails below depth ~3000, and building such trees takes minutes
    if d <= 100:
        return True
    return d == 500 and c in ('paren', 'brack', 'subq')


def matrix(ctx):
    quick = ctx.quick()
    depths = [10, 100, 500, 1000, 3000, 20000, 200000]
    limits = [150, 1000, 10000]
    cells = []
    for c in CONSTRUCTS + ([] if quick else ['rand:1', 'rand:2']):
        for d in depths:
            for lim in limits:
                if quick and not in_quick(c, d, lim):
                    continue
                for e, o in ENTRIES:
                    cell = {'construct': c, 'depth': d, 'limit': lim, 'entry': e, 'opts': o}
                    cells.append((est_cost(c, d, lim, e, o), cell))
    # the command line front end (in-process sqlparse.cli.main on a temporary file)
    for c in CONSTRUCTS:
        for d in ([100, 3000] if quick else [100, 1000, 3000, 20000]):
            for lim in [150, 1000]:
                for o in ('none', 'reindent'):
                    if quick and not in_quick(c, d, lim):
                        continue
                    cells.append((est_cost(c, d, lim, 'format', o), {'construct': c, 'depth': d, 'limit': lim,
                                                                     'entry': 'cli', 'opts': o}))
    if not quick:
        # further option sets (every filter family), on a reduced grid
        for c in CONSTRUCTS:
            for d in [100, 1000, 3000]:
                for lim in [150, 1000]:
                    for o in ('aligned', 'spaces', 'python', 'idcase_trunc'):
                        cells.append((est_cost(c, d, lim, 'format', 'reindent'),
                                      {'construct': c, 'depth': d, 'limit': lim, 'entry': 'format', 'opts': o}))
    cells.sort(key=lambda x: -x[0])                           # long cells first
    return [c for _, c in cells]


def headroom_cells(ctx):
    hs = [1, 2, 3, 4, 6, 8, 10, 12, 15, 18, 20, 22, 25, 30, 40, 60, 100]
    cells = []
    for e, o in ENTRIES:
        for h in hs:
            for warm in (False, True):
                cells.append({'construct': 'plain', 'depth': 0, 'limit': 1000, 'entry': e, 'opts': o,
                              'headroom': h, 'warm': warm})
    for c in ('paren', 'func'):
        for h in (10, 30, 100):
            cells.append({'construct': c, 'depth': 200, 'limit': 1000, 'entry': 'parse', 'opts': 'none',
                          'headroom': h, 'warm': True})
    return cells


# ---------------------------------------------------------------------------------------------
def threshold_scan(ctx):
    spec = {'constructs': CONSTRUCTS, 'depths': [5, 20, 40, 80],
            'limits': [30, 40, 50, 60, 80, 100, 120, 150, 200, 250, 300, 400, 500, 700, 1000]}
    p = subprocess.run([vlib.PY, WORKER, '--thresholds', json.dumps(spec)], env=vlib.pyenv(),
                       stdout=subprocess.PIPE, stderr=subprocess.PIPE, timeout=600, text=True)
    rows = json.loads(p.stdout.strip().splitlines()[-1])
    dis = []
    thr = {}
    for row in rows:
        outs = row['outcomes']
        seen_ok = False
        for lim, o in zip(spec['limits'], outs):
            if o == 'ok':
                if not seen_ok:
                    thr[(row['construct'], row['depth'])] = lim
                seen_ok = True
            elif o == 'SQLParseError':
                if seen_ok:
                    dis.append({'stage': 'monotone', 'detail': 'parse(%s depth %d) fails at limit %d after succeeding at a lower one'
                                                                % (row['construct'], row['depth'], lim)})
            else:
                dis.append({'stage': 'limit-scan', 'detail': '%s depth %d limit %d: %s' % (row['construct'], row['depth'], lim, o)})
    # thresholds must not decrease with the depth (the model: needed frames = depth + c)
    for c in spec['constructs']:
        prev = 0
        for d in spec['depths']:
            t = thr.get((c, d))
            if t is None:
                continue
            if t < prev:
                dis.append({'stage': 'threshold', 'detail': f'{c}: threshold at depth {d} ({t}) below that of a smaller depth ({prev})'})
            prev = t
    table = {f'{c}@{d}': thr.get((c, d)) for c in spec['constructs'] for d in spec['depths']}
    return dis, table, len(rows) * len(spec['limits'])


def depth_correspondence(ctx):
    import sys
    sys.path.insert(0, os.path.join(vlib.VERIF, 'tools'))
    import impl_c15
    texts = []
    for c in CONSTRUCTS + ['rand:%d' % i for i in range(ctx.n(20, 200))]:
        for d in ([1, 2, 3, 5, 8, 13, 21, 34] if not c.startswith('rand') else [3, 7, 12, 25]):
            texts.append(impl_c15.build(c, d))
    p = subprocess.run([vlib.PY, WORKER, '--depths', '-'], input=json.dumps(texts), env=vlib.pyenv(),
                       stdout=subprocess.PIPE, stderr=subprocess.PIPE, timeout=900, text=True)
    mine = json.loads(p.stdout.strip().splitlines()[-1])
    model = vlib.run_model(['depths ' + vlib.cps(t) for t in texts])
    dis = []
    for t, a, b in zip(texts, mine, model):
        if a != b:
            dis.append({'stage': 'depths', 'input': [ord(ch) for ch in t], 'impl': a, 'model': b})
    # sanity of the extracted budget model on the same inputs
    reqs, exp = [], []
    for t, a in zip(texts[:60], mine[:60]):
        if not a.startswith('OK'):
            continue
        ds = [int(x) for x in a[3:].split(',') if x]
        big = max(ds + [1]) + 40
        reqs += [f'budget parse {big} {vlib.cps(t)}', f'budget parse 3 {vlib.cps(t)}', f'budget parse 1 {vlib.cps(t)}',
                 f'budget split 6 {vlib.cps(t)}']
        exp += [f'OK {len(ds)}', 'ERR SQLParseError', 'ERR RecursionError', None]
    got = vlib.run_model(reqs)
    for q, e, g in zip(reqs, exp, got):
        if e is not None and g != e:
            dis.append({'stage': 'budget-model', 'detail': f'{q[:60]}: model says {g}, expected {e}'})
        if e is None and not g.startswith('OK'):
            dis.append({'stage': 'budget-model', 'detail': f'{q[:60]}: model says {g}, expected OK'})
    return dis, len(texts) + len(reqs)


# ---------------------------------------------------------------------------------------------
def run(ctx, model=True):
    res = {'disagreements': [], 'failures': [], 'notes': []}
    timeout = ctx.n(60, 200)
    cells = matrix(ctx)
    t0 = time.time()
    outs = run_cells(cells, timeout)
    t_matrix = time.time() - t0
    hcells = headroom_cells(ctx)
    houts = run_cells(hcells, 60)
    dist = collections.Counter()
    per_kind = collections.defaultdict(collections.Counter)
    caller_str = collections.Counter()
    slow = []
    nontrivial = set()
    for cell, r in list(zip(cells, outs)) + list(zip(hcells, houts)):
        v = verdict(cell, r)
        if r['status'] == 'timeout':
            o = 'timeout'
        elif r['status'] == 'crash':
            o = 'crash'
        else:
            o = r['res']['outcome']
            if r['res'].get('later'):
                o += '+later-call-broken'
            if r['res'].get('check'):
                o += '+bad-result'
            if 'caller_str' in r['res']:
                caller_str[r['res']['caller_str']] += 1
        kind = ('headroom%s:' % ('(warm)' if cell.get('warm') else '(first call)') if 'headroom' in cell else '') + \
            '%s/%s' % (cell['entry'], cell['opts'])
        dist[o] += 1
        per_kind['%s limit=%d' % (kind, cell['limit'])][o] += 1
        per_kind['construct=%s depth=%d' % (cell['construct'].split(':')[0], cell['depth'])][o] += 1
        if r.get('wall', 0) > 60:
            slow.append('%s d=%d lim=%d %s/%s %.0fs %s' % (cell['construct'], cell['depth'], cell['limit'],
                                                           cell['entry'], cell['opts'], r['wall'], o))
        if isinstance(v, dict):
            res['failures'].append(v)
        if r['status'] == 'done' and cell['depth'] >= 100:
            nontrivial.add((cell['construct'], cell['depth'], cell['limit'], cell['entry'], cell['opts'], o))
    # one representative per failure kind first (check.py shrinks / replays the first new one)
    res['failures'].sort(key=lambda f: (f['kind'] != 'escape', f['kind'] != 'crash', f['kind'] != 'result',
                                        f['cell'].get('headroom', 0), f['cell']['depth']))
    n_eval = len(cells) + len(hcells)
    dis, table, n = threshold_scan(ctx)
    res['disagreements'] += dis
    n_eval += n
    n_corr = 0
    if model:
        dis, n_corr = depth_correspondence(ctx)
        res['disagreements'] += dis
        n_eval += n_corr
    res.update({
        'evaluations': n_eval,
        'distinct_nontrivial': len(nontrivial),
        'rule': 'one fresh interpreter per cell; cell = construct x depth x setrecursionlimit x entry x option set; outcome must '
                'be normal return (then iterative round-trip / parent / cached-value checks) or SQLParseError, exit status 0, and '
                'a later format/parse/split call in the same process must be right; head-room probes call the entry point with h '
                'frames left (first call of the process, or after a warm-up call); limit scan for monotonicity; model/impl depth of '
                'the parsed trees compared; distinct_nontrivial = distinct (cell, outcome) with depth >= 100',
        'samples': ['%s depth=%d limit=%d %s/%s -> %s' % (c['construct'], c['depth'], c['limit'], c['entry'], c['opts'],
                                                          (r.get('res') or {}).get('outcome', r['status']))
                    for c, r in list(zip(cells, outs))[:8]],
        'traces_validated_against_impl': n_corr,
        'distribution': {'outcomes': dict(dist), 'per_cell_kind': {k: dict(v) for k, v in sorted(per_kind.items())},
                         'caller_side_str_on_returned_tree': dict(caller_str),
                         'min_limit_for_parse_ok': table, 'cells': len(cells), 'headroom_cells': len(hcells),
                         'matrix_wall_s': round(t_matrix, 1), 'cell_timeout_s': timeout, 'slow_cells': slow[:40]},
    })
    return res


def run_oracle_only(ctx):
    return run(ctx, model=False)


# ---------------------------------------------------------------------------------------------
def oracle_cell(cell, timeout=120):
    v = verdict(cell, run_cell(cell, timeout))
    return v if isinstance(v, dict) else None


def search(ctx, hints):
    """random nestings at random limits / head-rooms, looking for an escape, a crash or a broken later call"""
    r = ctx.rng
    t0 = time.time()
    tried = 0
    fails = []
    budget = ctx.n(60, 600)
    while time.time() - t0 < budget and not fails:
        batch = []
        for _ in range(vlib.NPROC * 2):
            e, o = r.choice(ENTRIES)
            cell = {'construct': 'rand:%d' % r.randrange(10 ** 6), 'depth': r.choice([5, 30, 100, 300, 800, 2000]),
                    'limit': r.choice([100, 150, 300, 1000, 3000]), 'entry': e, 'opts': o}
            if r.random() < 0.3:
                cell['headroom'] = r.choice([2, 5, 10, 20, 40, 80])
                cell['warm'] = r.random() < 0.5
                cell['limit'] = max(cell['limit'], 300)
            batch.append(cell)
        for cell, out in zip(batch, run_cells(batch, 60)):
            tried += 1
            v = verdict(cell, out)
            if isinstance(v, dict):
                fails.append(v)
    return {'failures': fails[:1], 'tried': tried}


def shrink(f):
    """smallest depth (and, for head-room probes, a plain input) on which the same kind of failure shows"""
    cell = dict(f['cell'])
    kind = f['kind']

    def bad(c):
        g = oracle_cell(c)
        return g if g and g['kind'] == kind else None
    best = f
    if cell['construct'] != 'plain':
        c2 = dict(cell, construct='plain', depth=0)
        g = bad(c2)
        if g:
            return g
    lo, hi = 0, cell['depth']
    while lo < hi:
        mid = (lo + hi) // 2
        g = bad(dict(cell, depth=mid))
        if g:
            best, hi = g, mid
        else:
            lo = mid + 1
    return best


def replay(payload):
    f = payload.get('failure')
    if not f or 'cell' not in f:
        return {'fails': False, 'note': 'no concrete cell in replay file: ' + str(payload.get('no_longer_checks'))}
    g = oracle_cell(f['cell'], timeout=600)
    return {'fails': bool(g), 'observed': g}


def classify(f, known):
    for k in known:
        m = k.get('match', {})
        if m.get('kind') == f.get('kind') and all(f['cell'].get(a) == b for a, b in m.get('cell', {}).items()) \
                and ('headroom' in f['cell']) == bool(m.get('headroom')):
            return k['id']
    return None


def rederive_known(k):
    cell = k.get('reproducer_cell')
    if not cell:
        return None
    g = oracle_cell(cell)
    return g if g and g['kind'] == k.get('match', {}).get('kind') else None
