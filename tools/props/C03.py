"""C03 - grouping is purely structural; well-formed tree; navigation helpers agree.

Two parts: `tree` (leaf/cached-value/non-empty theorems on the pure tree model + per-node oracle on the implementation) and
`heap` (object-heap model with identities and parent pointers: group_tokens/insert_* preserve the parent-pointer invariant,
refinement to the pure model, navigation helper specifications; correspondence on random operation sequences and on the
replayed group_tokens calls of the real pipeline)."""
from props import composite, C03_tree, C03_heap

composite.make(globals(), [('tree', C03_tree), ('heap', C03_heap)])
