"""Accessor slice (C07 accessors, C12, C13, C18): correspondence stage of the accessor model and
direct, model-independent oracles on generated grammar instances.

  corr(rng, n)            model `acc <text>` vs tools/impl_acc.acc_dump on the accessor mix
  c07_sweep(texts)        accessor calls that raise on a tree parse() returned
  c12_sweep(rng, n)       object references: (qualifier, name, alias, quoting, AS?, whitespace, context)
  c13_sweep(rng, n)       lists, call arguments, CASE parts, comparison operands
  c18_sweep(rng, n)       get_type
Every sweep returns findings shrunk at the level of the generated instance, with observed vs expected.
"""
import collections
import os
import sys

import vlib
import impl_acc
import gens
import gens_acc
from props import common


# =================================================================================================
# correspondence
def gen_texts(rng, n, maxlen=700):
    out, dist = [], collections.Counter()
    for _ in range(n):
        s, k = gens_acc.acc_text(rng)
        out.append(s[:maxlen])
        dist[k] += 1
    return out, dist


def first_diff(m, i):
    mf, jf = m.split(';'), i.split(';')
    for a, b in zip(mf, jf):
        if a != b:
            return {'model': a[:300], 'impl': b[:300]}
    return {'model': 'fragments: %d' % len(mf), 'impl': 'fragments: %d' % len(jf)}


def disagrees(s):
    m = vlib.run_model(['acc ' + vlib.cps(s)], nproc=1)[0]
    i = impl_acc.acc_dump(s)
    return first_diff(m, i) if m != i else None


def corr(rng, n, extra_texts=(), maxlen=700):
    texts, dist = gen_texts(rng, n, maxlen)
    texts = list(extra_texts) + texts
    replies = vlib.run_model(['acc ' + vlib.cps(s) for s in texts])
    dis = []
    nfrag = 0
    per_acc = collections.Counter()
    per_acc_nt = collections.Counter()
    exc = collections.Counter()
    nontrivial = set()
    for s, m in zip(texts, replies):
        i = impl_acc.acc_dump(s)
        if i.startswith('OK '):
            for f in i[3:].split(';'):
                if not f:
                    continue
                nfrag += 1
                head, _, val = f.partition('=')
                a = head.split(':')[1]
                per_acc[a] += 1
                if val.startswith('!'):
                    exc[(a, val[1:])] += 1
                if val not in ('None', 'False', '[]'):
                    nontrivial.add((a, common.tree_shape(val)))
                    per_acc_nt[a] += 1
        if i != m:
            d = first_diff(m, i)
            d.update({'stage': 'acc', 'input': [ord(c) for c in s]})
            dis.append(d)
    # shrink the first few
    for d in dis[:3]:
        s = ''.join(map(chr, d['input']))
        t, best = common.shrink_text(s, disagrees)
        if best:
            d['shrunk_input'] = [ord(c) for c in t]
            d['shrunk_text'] = t
            d['shrunk_diff'] = best
    return {'texts': texts, 'evaluations': len(texts), 'fragments': nfrag, 'disagreements': dis,
            'distribution': {'generator': dict(dist), 'length_histogram': common.length_hist(texts),
                             'accessor_calls': dict(per_acc),
                             'accessor_results_other_than_None_False_empty': dict(per_acc_nt)},
            'exceptions': {f'{a}:{e}': c for (a, e), c in exc.items()},
            'distinct_nontrivial': len(nontrivial)}


# =================================================================================================
# C07 (accessor part): no exception escapes an accessor on a tree parse() returns
def c07_sweep(texts):
    found = {}
    count = collections.Counter()
    for s in texts:
        for p, cls, a, e, txt in impl_acc.escaping(s):
            key = (cls, a, e)
            count[key] += 1
            if key not in found or len(s) < len(found[key][0]):
                found[key] = (s, p, txt)
    out = []
    for key, (s, p, txt) in found.items():
        def fails(t, key=key):
            return any((c, a, e) == key for _, c, a, e, _ in impl_acc.escaping(t))
        t, _ = common.shrink_text(s, fails)
        hit = [(pp, tt) for pp, c, a, e, tt in impl_acc.escaping(t) if (c, a, e) == key][0]
        out.append({'property': 'C07', 'class': key[0], 'accessor': key[1], 'exception': key[2], 'input': t,
                    'node_path': hit[0], 'node_text': hit[1], 'occurrences': count[key]})
    return out


# =================================================================================================
# C12
PLAIN = ['a', 'b', 'c', 'x', 'y', 'emp#no', 'v$name', 'x#1', 'foo', 'bar', 't1', 'tbl', 'users', 'my_table', 'Über', 'naïve', '_z', 'k2', 'col9',
         'emp', 'dept', 'schema1', 'o', 'u', 'É', 'ßx',
         # plain identifiers that merely START with (or end in) a keyword: no lexer rule may bite the keyword off
         'description', 'ascii_col', 'desc_x', 'asc1', 'selection', 'fromage', 'order_id', 'group1', 'inner_x', 'ended',
         'casein', 'whenever_', 'nullable_', 'not_null_', 'limit1', 'tables_', 'values_', 'join_id', 'on_hand', 'as_of', 'isbn',
         'in_stock', 'orphan', 'andy', 'unionized', 'set_id', 'interval_x', 'date_x', 'int1', 'do_x', 'go_x', 'if_x', 'for_x',
         'x_asc', 'my_desc', 'to_date_', 'left_x', 'usings', 'likely', 'betweenx', 'likes', 'overdue', 'current_x']
TRICKY_PLAIN = ['date', 'text', 'user', 'name', 'type', 'value', 'count', 'key', 'level', 'data', 'int', 'year', 'role',
                'public', 'comment', 'id', 'character', 'order_', 'select1']
QUOTED_BODY = PLAIN + ['A b', 'select', 'from', 'x.y', 'a;b', 'q-1', ' lead', 'trail ', '1', "it's", 'AS', '*', 'é è', 'a""b', '""', 'x``y', 'p""']
WS = [' ', ' ', ' ', '  ', '\t', '\n', ' \n ', '\r\n', '\t\t ']
JOINS = ['JOIN', 'INNER JOIN', 'LEFT JOIN', 'LEFT OUTER JOIN', 'RIGHT JOIN', 'RIGHT OUTER JOIN', 'FULL JOIN',
         'FULL OUTER JOIN', 'CROSS JOIN', 'NATURAL JOIN']
CONTEXTS = ['select_sole', 'select_first', 'select_middle', 'select_last', 'from_sole', 'from_first', 'from_middle',
            'from_last', 'update_target', 'insert_target_values', 'insert_target_cols', 'insert_target_select',
            'delete_target', 'subquery_from', 'subquery_where', 'where_operand', 'on_operand', 'order_by_item',
            'group_by_item', 'call_argument', 'subquery_from_as', 'subquery_from_as_item', 'subquery_select_as', 'cte_body',
            'cte_body_item', 'nested_subquery_as'] + ['join:' + j for j in JOINS] + \
           ['join_noon:' + j for j in JOINS]


def quote(body, style):
    if style == 'plain':
        return body
    if style == 'dq':
        return '"' + body + '"'
    return '`' + body + '`'


def c12_instance(rng, tricky=0.1):
    def part():
        style = rng.choice(['plain', 'plain', 'dq', 'bt'])
        if style == 'plain':
            body = rng.choice(TRICKY_PLAIN if rng.random() < tricky else PLAIN)
        else:
            body = rng.choice(QUOTED_BODY)
            if style == 'bt':
                body = body if body == 'x``y' else body.replace('`', '')
            elif '`' in body:
                body = body.replace('`', '')
        return {'body': body, 'style': style}
    inst = {'name': part(), 'qualifier': part() if rng.random() < 0.5 else None,
            'alias': part() if rng.random() < 0.65 else None, 'as': rng.random() < 0.5,
            'ws1': rng.choice(WS), 'ws2': rng.choice(WS), 'context': pick_context(rng),
            'kwcase': rng.choice(['lower', 'upper'])}
    if inst['context'] in NO_ALIAS_CONTEXTS:
        inst['alias'] = None
    if inst['alias'] and inst['as'] and inst['alias']['style'] != 'plain' and rng.random() < 0.25:
        inst['ws2'] = ''          # AS"alias" / AS`alias`: no whitespace is needed in front of a quoted alias
    return inst


NO_ALIAS_CONTEXTS = ('where_operand', 'on_operand', 'order_by_item', 'group_by_item', 'call_argument')


def pick_context(rng):
    kinds = sorted({c.split(':')[0] for c in CONTEXTS})
    k = rng.choice(kinds)
    return rng.choice([c for c in CONTEXTS if c.split(':')[0] == k])


def c12_ref(inst):
    s = ''
    if inst['qualifier']:
        s += quote(inst['qualifier']['body'], inst['qualifier']['style']) + '.'
    s += quote(inst['name']['body'], inst['name']['style'])
    if inst['alias']:
        s += inst['ws1']
        if inst['as']:
            s += ('AS' if inst['kwcase'] == 'upper' else 'as') + inst['ws2']
        s += quote(inst['alias']['body'], inst['alias']['style'])
    return s


def c12_text(inst):
    ref = c12_ref(inst)
    c = inst['context']
    k = (lambda w: w.upper()) if inst['kwcase'] == 'upper' else (lambda w: w.lower())
    if c == 'select_sole':
        return f"{k('select')} {ref} {k('from')} t0"
    if c == 'select_first':
        return f"{k('select')} {ref}, p1, p2 {k('from')} t0"
    if c == 'select_middle':
        return f"{k('select')} p1, {ref}, p2 {k('from')} t0"
    if c == 'select_last':
        return f"{k('select')} p1, p2, {ref} {k('from')} t0"
    if c == 'from_sole':
        return f"{k('select')} 1 {k('from')} {ref}"
    if c == 'from_first':
        return f"{k('select')} 1 {k('from')} {ref}, t8, t9"
    if c == 'from_middle':
        return f"{k('select')} 1 {k('from')} t8, {ref}, t9"
    if c == 'from_last':
        return f"{k('select')} 1 {k('from')} t8, t9, {ref}"
    if c == 'update_target':
        return f"{k('update')} {ref} {k('set')} p1 = 1"
    if c == 'insert_target_values':
        return f"{k('insert into')} {ref} {k('values')} (1)"
    if c == 'insert_target_cols':
        return f"{k('insert into')} {ref} (p1) {k('values')} (1)"
    if c == 'insert_target_select':
        return f"{k('insert into')} {ref} {k('select')} 1"
    if c == 'delete_target':
        return f"{k('delete from')} {ref} {k('where')} p1 = 1"
    if c == 'subquery_from':
        return f"{k('select')} 1 {k('from')} ({k('select')} p1 {k('from')} {ref}) s9"
    if c == 'subquery_from_as':
        return f"{k('select')} 1 {k('from')} ({k('select')} p1 {k('from')} {ref}) {k('as')} s9"
    if c == 'subquery_from_as_item':
        return f"{k('select')} 1 {k('from')} ({k('select')} {ref}, p2 {k('from')} t0) {k('as')} s9"
    if c == 'subquery_select_as':
        return f"{k('select')} ({k('select')} p1 {k('from')} {ref}) {k('as')} s9 {k('from')} t0"
    if c == 'cte_body':
        return f"{k('with')} c9 {k('as')} ({k('select')} p1 {k('from')} {ref}) {k('select')} 1 {k('from')} c9"
    if c == 'cte_body_item':
        return f"{k('with')} c9 {k('as')} ({k('select')} {ref} {k('from')} t0) {k('select')} 1 {k('from')} c9"
    if c == 'nested_subquery_as':
        return f"{k('select')} 1 {k('from')} ({k('select')} 1 {k('from')} ({k('select')} p1 {k('from')} {ref}) {k('as')} s8) {k('as')} s9"
    if c == 'subquery_where':
        return f"{k('select')} 1 {k('from')} t0 {k('where')} p1 {k('in')} ({k('select')} p2 {k('from')} {ref})"
    if c == 'where_operand':
        return f"{k('select')} 1 {k('from')} t0 {k('where')} {ref} = 1"
    if c == 'on_operand':
        return f"{k('select')} 1 {k('from')} t0 {k('join')} t1 {k('on')} {ref} = 1"
    if c == 'order_by_item':
        return f"{k('select')} 1 {k('from')} t0 {k('order by')} {ref}"
    if c == 'group_by_item':
        return f"{k('select')} 1 {k('from')} t0 {k('group by')} {ref}"
    if c == 'call_argument':
        return f"{k('select')} f0({ref}) {k('from')} t0"
    kind, j = c.split(':')
    if kind == 'join':
        return f"{k('select')} 1 {k('from')} t0 {k(j)} {ref} {k('on')} 1 = 1"
    return f"{k('select')} 1 {k('from')} t0 {k(j)} {ref}"


def c12_expected(inst):
    real = inst['name']['body']
    parent = inst['qualifier']['body'] if inst['qualifier'] else None
    alias = inst['alias']['body'] if inst['alias'] else None
    return {'get_real_name': real, 'get_parent_name': parent, 'get_alias': alias,
            'get_name': alias if alias is not None else real, 'has_alias': alias is not None}


def observe_five(node):
    out = {}
    for a in ('get_real_name', 'get_parent_name', 'get_alias', 'get_name', 'has_alias'):
        try:
            out[a] = getattr(node, a)()
        except Exception as e:  # noqa
            out[a] = '!' + type(e).__name__
    return out


def all_nodes(stmts):
    stack = list(stmts)
    while stack:
        n = stack.pop()
        yield n
        if n.is_group:
            stack.extend(reversed(n.tokens))


def c12_check(inst):
    """None, or a deviation record."""
    import sqlparse
    from sqlparse import sql
    text = c12_text(inst)
    exp = c12_expected(inst)
    ref = c12_ref(inst)
    try:
        stmts = sqlparse.parse(text)
    except Exception as e:  # noqa
        return {'input': text, 'observed': 'parse raised ' + type(e).__name__, 'expected': exp}
    idents = [n for n in all_nodes(stmts) if isinstance(n, sql.Identifier)]
    for n in idents:
        if observe_five(n) == exp:
            return None
    # closest candidates: the Identifier whose text is the written reference, else any node with that text
    cands = [n for n in idents if str(n) == ref] or [n for n in all_nodes(stmts) if n.is_group and str(n) == ref] \
        or [n for n in idents if ref.startswith(str(n)) or str(n).startswith(ref.split('.')[0])]
    obs = [{'class': type(n).__name__, 'text': str(n), **observe_five(n)} for n in cands[:2]]
    why = 'no Identifier answers the five accessors as written'
    if not any(isinstance(n, sql.Identifier) and str(n) == ref for n in cands):
        why = 'the written reference is not one Identifier'
    return {'input': text, 'reference': ref, 'expected': exp, 'observed': obs, 'why': why}


def c12_simplify(inst):
    """simpler variants of an instance, most aggressive first"""
    def with_(**kw):
        d = dict(inst)
        d.update(kw)
        return d
    out = []
    if inst['alias']:
        out.append(with_(alias=None))
    if inst['qualifier']:
        out.append(with_(qualifier=None))
    for key, simple in (('name', 'n'), ('qualifier', 'q'), ('alias', 'a')):
        p = inst[key]
        if p:
            if p['style'] != 'plain':
                out.append(with_(**{key: {'body': simple, 'style': 'plain'}}))
            if p['body'] != simple:
                out.append(with_(**{key: {'body': simple, 'style': p['style']}}))
    if inst['ws1'] != ' ':
        out.append(with_(ws1=' '))
    if inst['ws2'] != ' ':
        out.append(with_(ws2=' '))
    if inst['as'] and inst['alias']:
        out.append(with_(**{'as': False}))
    if inst['kwcase'] != 'lower':
        out.append(with_(kwcase='lower'))
    rank = {'from_sole': 0, 'select_sole': 1}
    for c in ('from_sole', 'select_sole'):
        if rank.get(inst['context'], 2) > rank[c]:
            out.append(with_(context=c))
    return out


def shrink_instance(inst, check, simplify, classify=None):
    """greedy descent; every simplify() is strictly decreasing in some measure (each candidate removes a part,
    replaces it by the canonical simplest one, or lowers the context rank); the round cap is a safety net"""
    best = check(inst)
    cls0 = classify(inst, best) if classify and best else None
    changed = True
    rounds = 0
    while changed and rounds < 200:
        rounds += 1
        changed = False
        for cand in simplify(inst):
            d = check(cand)
            if d and (classify is None or classify(cand, d) == cls0):
                inst, best, changed = cand, d, True
                break
    return inst, best


def c12_class(inst, dev):
    """coarse class of a deviation, to report one shrunk example per class"""
    obs = dev.get('observed')
    if isinstance(obs, str):
        return obs
    exp = dev['expected']
    wrong = []
    if obs:
        wrong = [a for a in exp if obs[0].get(a) != exp[a]]
    tr = [k for k in ('name', 'qualifier', 'alias') if inst[k] and inst[k]['style'] == 'plain' and inst[k]['body'] in TRICKY_PLAIN]
    if tr:
        return ('a plain part is a word the lexer does not type as Name', tuple(tr))
    ctx = inst['context'].split(':')[0]
    return (dev['why'], ctx, tuple(wrong), obs[0]['class'] if obs else 'none',
            'implicit alias' if inst['alias'] and not inst['as'] else 'AS alias' if inst['alias'] else 'no alias')


def c12_sweep(rng, n):
    devs = {}
    count = collections.Counter()
    dist = collections.Counter()
    words = collections.Counter()
    for _ in range(n):
        inst = c12_instance(rng)
        dist[inst['context'].split(':')[0]] += 1
        dist['quoting:' + '/'.join((inst[k]['style'] if inst[k] else '-') for k in ('qualifier', 'name', 'alias'))] += 1
        d = c12_check(inst)
        if d:
            sinst, sd = shrink_instance(inst, c12_check, c12_simplify, c12_class)
            key = c12_class(sinst, sd)
            if key[0].startswith('a plain part'):
                words[tuple(sinst[k]['body'] for k in key[1])] += 1
            count[key] += 1
            if key not in devs or len(sd['input']) < len(devs[key]['input']):
                devs[key] = sd
    out = []
    for key, d in devs.items():
        d = dict(d)
        d['property'] = 'C12'
        d['occurrences'] = count[key]
        out.append(d)
    return {'evaluations': n, 'deviating': sum(count.values()), 'findings': out, 'distribution': dict(dist),
            'non_name_words': {'/'.join(k): v for k, v in words.items()}}


# =================================================================================================
# C13
def c13_items(rng, kind):
    """written items of a select / FROM list and the class of the simplest item"""
    def ref():
        s = rng.choice(PLAIN)
        if rng.random() < 0.3:
            s = rng.choice(PLAIN) + '.' + s
        return s
    pool_sel = [('ref', ref), ('ref_alias', lambda: ref() + ' ' + rng.choice(['as ', '']) + rng.choice(PLAIN)),
                ('number', lambda: rng.choice(['1', '42', '1.5'])), ('string', lambda: rng.choice(["'s'", "'a b'"])),
                ('star', lambda: '*'), ('qstar', lambda: rng.choice(PLAIN) + '.*'),
                ('call', lambda: rng.choice(['f(x)', 'count(*)', 'max(a.b)', 'g()'])),
                ('call_alias', lambda: 'f(x) as ' + rng.choice(PLAIN)),
                ('arith', lambda: ref() + rng.choice([' + ', '*', ' - ']) + '1'),
                ('null', lambda: rng.choice(['NULL', 'null'])), ('case', lambda: 'CASE WHEN a THEN b END'),
                ('paren', lambda: '(a + 1)'), ('subselect', lambda: '(select 1)'),
                ('cast', lambda: ref() + '::int'), ('cmp', lambda: ref() + ' = 1'),
                ('typed', lambda: "date '2020-01-01'"), ('kwname', lambda: rng.choice(TRICKY_PLAIN)),
                ('placeholder', lambda: rng.choice(['?', ':p', '%s', '$1'])), ('neg', lambda: '-1'),
                ('true', lambda: rng.choice(['TRUE', 'false'])), ('current', lambda: 'CURRENT_DATE')]
    pool_from = [('ref', ref), ('ref_alias', lambda: ref() + ' ' + rng.choice(['as ', '']) + rng.choice(PLAIN)),
                 ('subselect_alias', lambda: '(select 1) ' + rng.choice(PLAIN)),
                 ('call', lambda: 'unnest(x)'), ('dq', lambda: '"T x"'), ('kwname', lambda: rng.choice(TRICKY_PLAIN))]
    pool = pool_sel if kind == 'select' else pool_from
    n = rng.choice([2, 2, 3, 4])
    return [(k, f()) for k, f in (rng.choice(pool) for _ in range(n))]


def c13_list_check(inst):
    import sqlparse
    from sqlparse import sql
    items = [t for _, t in inst['items']]
    sep = inst['sep']
    if inst['kind'] == 'select':
        text = 'select ' + sep.join(items) + ' from t0'
    else:
        text = 'select 1 from ' + sep.join(items)
    try:
        stmts = sqlparse.parse(text)
    except Exception as e:  # noqa
        return {'input': text, 'observed': 'parse raised ' + type(e).__name__}
    lists = [n for n in all_nodes(stmts) if isinstance(n, sql.IdentifierList)]
    got = [[str(x) for x in n.get_identifiers()] for n in lists]
    if items in got:
        return None
    return {'input': text, 'expected': items, 'observed': got, 'what': inst['kind'] + ' list'}


def c13_list_simplify(inst):
    out = []
    items = inst['items']
    if len(items) > 2:
        for i in range(len(items)):
            out.append(dict(inst, items=items[:i] + items[i + 1:]))
    for i, (k, t) in enumerate(items):
        if k != 'ref' or t != 'r%d' % i:
            out.append(dict(inst, items=items[:i] + [('ref', 'r%d' % i)] + items[i + 1:]))
    if inst['sep'] != ', ':
        out.append(dict(inst, sep=', '))
    return out


ARGS = [('ref', 'a'), ('qref', 'a.b'), ('number', '1'), ('string', "'s'"), ('null', 'NULL'), ('star', '*'),
        ('arith', 'a+1'), ('arith_ws', 'a + 1'), ('call', 'g(y)'), ('typed', "date '2020-01-01'"),
        ('case', 'CASE WHEN a THEN b END'), ('subselect', '(select 1)'), ('distinct', 'DISTINCT a'),
        ('cast', 'a::int'), ('cmp', 'a = 1'), ('placeholder', '?'), ('paren', '(a)'), ('neg', '-1'),
        ('true', 'TRUE'), ('kwname', 'date'), ('qstar', 't.*'), ('dq', '"A"'), ('concat', "a || 'x'")]


def c13_call_check(inst):
    import sqlparse
    from sqlparse import sql
    args = [t for _, t in inst['args']]
    call = inst['fname'] + inst['sp'] + '(' + inst['sep'].join(args) + ')'
    text = 'select ' + call + inst.get('tail', '') + ' from t0'
    try:
        stmts = sqlparse.parse(text)
    except Exception as e:  # noqa
        return {'input': text, 'observed': 'parse raised ' + type(e).__name__}
    fns = [n for n in all_nodes(stmts) if isinstance(n, sql.Function) and str(n).startswith(inst['fname'])]
    got = []
    for n in fns:
        try:
            got.append([str(x) for x in n.get_parameters()])
        except Exception as e:  # noqa
            got.append('!' + type(e).__name__)
    if args in got:
        return None
    return {'input': text, 'expected': args, 'observed': got, 'what': 'get_parameters'}


def c13_call_simplify(inst):
    out = []
    args = inst['args']
    if len(args) > 1:
        for i in range(len(args)):
            out.append(dict(inst, args=args[:i] + args[i + 1:]))
    for i, (k, t) in enumerate(args):
        if k != 'ref':
            out.append(dict(inst, args=args[:i] + [('ref', 'r%d' % i)] + args[i + 1:]))
    if inst['sep'] != ', ':
        out.append(dict(inst, sep=', '))
    if inst['sp']:
        out.append(dict(inst, sp=''))
    if inst.get('tail'):
        out.append(dict(inst, tail=''))
    return out


CONDS = [('cmp', 'a = 1'), ('ref', 'a'), ('and', 'a = 1 AND b < 2'), ('isnull', 'a IS NULL'), ('like', "a LIKE 'x%'"),
         ('in', 'a IN (1, 2)'), ('num', '1'), ('call', 'f(a) > 0'), ('between', 'a BETWEEN 1 AND 2')]
VALS = [('num', '1'), ('str', "'x'"), ('ref', 'b'), ('arith', 'b + 1'), ('null', 'NULL'), ('call', 'f(b)'),
        ('case', 'CASE WHEN c THEN d END'), ('qref', 't.b')]


def c13_case_check(inst):
    """Case.get_cases(): expected [(WHEN-part, THEN-part)] + [(None, ELSE-part)]; the token lists returned
    contain the keyword and the surrounding whitespace, which the comparison strips."""
    import sqlparse
    from sqlparse import sql, tokens as T
    ws = inst['ws']
    text = 'CASE'
    if inst['operand']:
        text += ws + inst['operand']
    exp = []
    for (ck, c), (vk, v) in inst['whens']:
        text += ws + 'WHEN' + ws + c + ws + 'THEN' + ws + v
        exp.append((c, v))
    if inst['else']:
        text += ws + 'ELSE' + ws + inst['else'][1]
        exp.append((None, inst['else'][1]))
    text += ws + 'END'
    text = 'select ' + text + ' from t0'
    try:
        stmts = sqlparse.parse(text)
    except Exception as e:  # noqa
        return {'input': text, 'observed': 'parse raised ' + type(e).__name__}
    cases = [n for n in all_nodes(stmts) if isinstance(n, sql.Case)]

    def part(toks, kws):
        if toks is None:
            return None
        toks = list(toks)
        if toks and toks[0].ttype is T.Keyword and toks[0].normalized in kws:
            toks = toks[1:]
        return ''.join(str(t) for t in toks).strip()
    got = []
    for n in cases:
        try:
            r = n.get_cases(skip_ws=inst['skip_ws'])
            got.append([(part(c, ('WHEN',)), part(v, ('THEN', 'ELSE'))) for c, v in r])
        except Exception as e:  # noqa
            got.append('!' + type(e).__name__)
    if inst['skip_ws']:
        exp = [(None if c is None else c.replace(' ', ''), v.replace(' ', '')) for c, v in exp]
        got = [g if isinstance(g, str) else [(None if c is None else c.replace(' ', ''), v.replace(' ', '')) for c, v in g] for g in got]
    if exp in got:
        return None
    return {'input': text, 'expected': exp, 'observed': got[:1], 'what': 'get_cases(skip_ws=%s)' % inst['skip_ws']}


def c13_case_simplify(inst):
    out = []
    if inst['else']:
        out.append(dict(inst, **{'else': None}))
    if inst['operand']:
        out.append(dict(inst, operand=None))
    w = inst['whens']
    if len(w) > 1:
        for i in range(len(w)):
            out.append(dict(inst, whens=w[:i] + w[i + 1:]))
    for i, (c, v) in enumerate(w):
        if c[0] != 'ref':
            out.append(dict(inst, whens=w[:i] + [(('ref', 'a'), v)] + w[i + 1:]))
        if v[0] != 'ref':
            out.append(dict(inst, whens=w[:i] + [(c, ('ref', 'b'))] + w[i + 1:]))
    if inst['ws'] != ' ':
        out.append(dict(inst, ws=' '))
    return out


OPERANDS = [('ref', 'a'), ('qref', 'a.b'), ('num', '1'), ('str', "'s'"), ('call', 'f(x)'), ('arith', 'a + 1'),
            ('subselect', '(select 1)'), ('neg', '-1'), ('null', 'NULL'), ('cast', 'a::int'), ('dq', '"A"'),
            ('placeholder', '?'), ('paren', '(a)'), ('typed', "date '2020-01-01'"), ('kwname', 'date'),
            ('true', 'TRUE'), ('array', 'a[1]'), ('case', 'CASE WHEN c THEN d END')]
CMPS = ['=', '<', '>', '<=', '>=', '<>', '!=', 'LIKE', 'NOT LIKE', 'ILIKE', '==', '~', '!~*', 'NOT ILIKE', '~~']


def c13_cmp_check(inst):
    import sqlparse
    from sqlparse import sql
    l, r = inst['left'][1], inst['right'][1]
    op = inst['op']
    sp = inst['sp'] if not op[0].isalpha() else (inst['sp'] or ' ')
    text = 'select 1 from t0 where ' + l + sp + op + sp + r
    try:
        stmts = sqlparse.parse(text)
    except Exception as e:  # noqa
        return {'input': text, 'observed': 'parse raised ' + type(e).__name__}
    cmps = [n for n in all_nodes(stmts) if isinstance(n, sql.Comparison)]
    got = [(str(n.left), str(n.right)) for n in cmps]
    if (l, r) in got:
        return None
    return {'input': text, 'expected': (l, r), 'observed': got, 'what': 'Comparison.left/right (operator %s)' % op}


def c13_cmp_simplify(inst):
    out = []
    if inst['left'][0] != 'ref':
        out.append(dict(inst, left=('ref', 'l')))
    if inst['right'][0] != 'ref':
        out.append(dict(inst, right=('ref', 'r')))
    if inst['op'] != '=':
        out.append(dict(inst, op='='))
    if inst['sp'] != ' ':
        out.append(dict(inst, sp=' '))
    return out


def c13_sweep(rng, n):
    devs = {}
    count = collections.Counter()
    dist = collections.Counter()

    def record(kind, inst, check, simplify, keyf):
        d = check(inst)
        if d:
            sinst, sd = shrink_instance(inst, check, simplify)
            key = (kind,) + keyf(sinst)
            count[key] += 1
            if key not in devs or len(sd['input']) < len(devs[key]['input']):
                devs[key] = sd
    for _ in range(n):
        r = rng.random()
        if r < 0.3:
            kind = rng.choice(['select', 'from'])
            inst = {'kind': kind, 'items': c13_items(rng, kind), 'sep': rng.choice([', ', ',', ' , ', ',\n  '])}
            dist[kind + '_list'] += 1
            record('list', inst, c13_list_check, c13_list_simplify,
                   lambda i: (i['kind'], tuple(sorted({k for k, _ in i['items']} - {'ref'}))))
        elif r < 0.6:
            inst = {'fname': rng.choice(['f', 'count', 'coalesce', 'my_func']), 'sp': rng.choice(['', '', ' ']),
                    'args': [rng.choice(ARGS) for _ in range(rng.choice([0, 1, 1, 2, 3]))],
                    'sep': rng.choice([', ', ',', ' , ']),
                    'tail': rng.choice(['', '', '', ' over (partition by z)', ' over w', ' as al'])}
            dist['call/%d' % len(inst['args'])] += 1
            record('call', inst, c13_call_check, c13_call_simplify,
                   lambda i: (len(i['args']), tuple(sorted({k for k, _ in i['args']} - {'ref'})),
                              (i['fname'] if i['fname'] in ('count', 'coalesce') else 'f') + i['sp'] + '(', i.get('tail', '')))
        elif r < 0.8:
            inst = {'operand': rng.choice([None, None, 'x', 'x.y']),
                    'whens': [(rng.choice(CONDS), rng.choice(VALS)) for _ in range(rng.choice([1, 1, 2, 3]))],
                    'else': rng.choice([None, rng.choice(VALS)]), 'ws': rng.choice([' ', ' ', '\n', '  ']),
                    'skip_ws': rng.random() < 0.5}
            dist['case/skip_ws=%s' % inst['skip_ws']] += 1
            record('case', inst, c13_case_check, c13_case_simplify,
                   lambda i: (i['skip_ws'], bool(i['operand']), bool(i['else']),
                              tuple(sorted({c[0] for c, _ in i['whens']} - {'ref'})),
                              tuple(sorted({v[0] for _, v in i['whens']} - {'ref'}))))
        else:
            inst = {'left': rng.choice(OPERANDS), 'right': rng.choice(OPERANDS), 'op': rng.choice(CMPS),
                    'sp': rng.choice([' ', ' ', '', '  '])}
            dist['comparison'] += 1
            record('cmp', inst, c13_cmp_check, c13_cmp_simplify,
                   lambda i: (i['left'][0] if i['left'][0] != 'ref' else '', i['right'][0] if i['right'][0] != 'ref' else '',
                              i['op'] if i['op'] != '=' else ''))
    out = []
    for key, d in devs.items():
        d = dict(d)
        d['property'] = 'C13'
        d['class'] = repr(key)
        d['occurrences'] = count[key]
        out.append(d)
    return {'evaluations': n, 'deviating': sum(count.values()), 'findings': out, 'distribution': dict(dist)}


# =================================================================================================
# C18
def dml_ddl_keywords():
    from sqlparse import keywords, tokens as T
    dml, ddl = set(), set()
    for name in dir(keywords):
        v = getattr(keywords, name)
        if isinstance(v, dict):
            for k, t in v.items():
                if t is T.Keyword.DML:
                    dml.add(k)
                elif t is T.Keyword.DDL:
                    ddl.add(k)
    return sorted(dml), sorted(ddl)


PREFIXES = ['', '', '', ' ', '\n', '\t ', '/**/', '/**/ ', '/***/', '/* c */', '/* c */ ', '-- c\n', ' -- c\n  ', '/* a */ /* b */\n', '--\n',
            '/*+ hint */ ', '# c\n', '\r\n', '-- select\n', '/* create */']
UNKNOWN_HEADS = ['explain', 'show', 'grant', 'revoke', 'begin', 'set', 'use', 'call', 'foo', '(select 1)', '1',
                 'values', 'vacuum', 'analyze', 'describe', 'declare', 'from', 'end', 'if', '"select"', 'exec']
RESTS = [' 1', ' * from t', ' a, b from t where x = 1', ' into t values (1)', ' t set a = 1', ' from t', ' table t',
         ' view v as select 1', ' index i on t (a)', '', ' ', ' x; ', '\n1',
         # "whatever follows": continuations that start with a keyword / operator / punctuation after the separator
         ' as struct 1 as a', ' AS VALUE x from t', ' + 1', ' = 1', ' , a', ' in (1)', ' between 1 and 2', ' like x', ' and b',
         ' or b', ' not null', ' is null', ' order by a', ' union select 2', ' case when a then b end', " date '2020-01-01'",
         ' [1]', ' -1', ' distinct a', ' over (x)', ' where x', ' limit 1', ' a asc', ' %s', ' ?', ' @v', ' "x" y', ' null',
         ' values (1)', ' a -> b', ' a::int', " 'x'::text", ' := 1', ' :: int', ' . x',
         " at time zone 'utc' as x", " AT TIME ZONE 'utc' 'x'", ' x:=a b:=;', ' 1 x:=a b:=;', ' x := 1, y := 2 from t', ' x:=a b:=c;']
AFTER = [' ', '\n', '\t', '  ', '(1)', '.1', '.x', '(', ';', '', '*', ',', '/* c */', '-- c\n', "'s'", '"x"', '=1',
         '[1]', '::int', ':x', '+1', '-1', '@']


def recase(rng, w):
    r = rng.random()
    if r < 0.3:
        return w.upper()
    if r < 0.6:
        return w.lower()
    return ''.join(c.upper() if rng.random() < 0.5 else c.lower() for c in w)


def c18_instance(rng):
    dml, ddl = dml_ddl_keywords()
    r = rng.random()
    pre = rng.choice(PREFIXES)
    if r < 0.40:
        w = rng.choice(dml + ddl)
        head = recase(rng, w)
        after = rng.choice(AFTER)
        rest = rng.choice(RESTS) if after.strip() == '' else rng.choice(['', ' x', ' from t'])
        if w.lower() == 'create' and after.strip() == '' and after != '' and rng.random() < 0.5:
            # only CREATE OR REPLACE is reported as a whole: any other word after CREATE leaves the type CREATE
            rest = rng.choice(['or alter view v as select 1', 'OR ALTER procedure p as select 1', 'or refresh table t',
                               'unique index i on t(a)', 'temporary table t(a int)', 'or\talter function f()', 'or replaced'])
        return {'kind': 'keyword', 'text': pre + head + after + rest, 'expected': w.upper(), 'after': after, 'pre': pre}
    if r < 0.55:
        sp1, sp2 = rng.choice([' ', '  ', '\n', '\t', ' \n ']), rng.choice([' ', '  ', '\n', '\t', ' \n '])
        head = recase(rng, 'create') + sp1 + recase(rng, 'or') + sp2 + recase(rng, 'replace')
        return {'kind': 'create_or_replace', 'text': pre + head + ' view v as select 1', 'expected': 'CREATE OR REPLACE',
                'sp': sp1 + sp2, 'pre': pre}
    if r < 0.85:
        n = rng.choice([1, 1, 2, 3])
        ctes = []
        for i in range(n):
            nm_ = rng.choice(PLAIN) + str(i)
            cols = ' (c1, c2)' if rng.random() < 0.15 else ''
            ctes.append(nm_ + cols + rng.choice([' as ', ' AS ', ' as', ' As\n']) + '(select ' + str(i) + rng.choice(['', ' from t', ' union select 2']) + ')')
        w = rng.choice(['select', 'insert', 'update', 'delete', 'merge'])
        rec = rng.choice(['', '', '', 'recursive '])
        gap = rng.choice([' ', '\n', '  ', ' /* c */ ', '\n-- c\n'])
        rest = rng.choice(RESTS)
        text = pre + recase(rng, 'with') + ' ' + rec + rng.choice([', ', ',', ',\n']).join(ctes) + gap + recase(rng, w) + rest
        return {'kind': 'cte', 'text': text, 'expected': w.upper(), 'cols': any('(c1' in c for c in ctes), 'rec': rec, 'gap': gap, 'pre': pre, 'n': n,
                'rest': rest}
    head = rng.choice(UNKNOWN_HEADS)
    return {'kind': 'unknown', 'text': pre + recase(rng, head) + rng.choice(RESTS), 'expected': 'UNKNOWN', 'pre': pre}


def c18_check_text(text, expected):
    import sqlparse
    try:
        stmts = sqlparse.parse(text)
    except Exception as e:  # noqa
        return {'input': text, 'observed': 'parse raised ' + type(e).__name__, 'expected': expected}
    if not stmts:
        return {'input': text, 'observed': 'no statement', 'expected': expected}
    try:
        got = stmts[0].get_type()
    except Exception as e:  # noqa
        got = '!' + type(e).__name__
    if got == expected:
        return None
    return {'input': text, 'observed': got, 'expected': expected}


def c18_sweep(rng, n):
    devs = {}
    count = collections.Counter()
    dist = collections.Counter()
    for _ in range(n):
        inst = c18_instance(rng)
        dist[inst['kind']] += 1
        d = c18_check_text(inst['text'], inst['expected'])
        if d:
            exp = inst['expected']
            t, sd = common.shrink_text(inst['text'], lambda s: c18_check_text(s, exp) if keeps_kind(inst, s) else None)
            if not sd:
                sd = dict(d, note='not shrunk')
            key = (inst['kind'], sd['observed'] if inst['kind'] != 'create_or_replace' else 'ws kept',
                   inst.get('after', '') if inst['kind'] == 'keyword' else '',
                   (inst.get('cols'), bool(inst.get('rec')), 'c' in inst.get('gap', '')) if inst['kind'] == 'cte' else '')
            count[key] += 1
            if key not in devs or len(sd['input']) < len(devs[key]['input']):
                devs[key] = dict(sd, kind=inst['kind'])
    out = []
    for key, d in devs.items():
        d = dict(d)
        d['property'] = 'C18'
        d['occurrences'] = count[key]
        out.append(d)
    return {'evaluations': n, 'deviating': sum(count.values()), 'findings': out, 'distribution': dict(dist)}


def keeps_kind(inst, s):
    """shrinking must keep what makes the expectation valid: the leading keyword (resp. WITH .. (..) DML) stays"""
    import re
    body = s
    low = body.lower()
    if inst['kind'] == 'keyword':
        w = inst['expected'].lower()
        # the statement still begins (after whitespace/comments) with the complete keyword
        m = re.match(r'(\s|/\*.*?\*/|--[^\n]*\n|# [^\n]*\n)*', low, re.S)
        rest = low[m.end():]
        return rest.startswith(w) and not re.match(r'\w', rest[len(w):len(w) + 1] or ' ')
    if inst['kind'] == 'create_or_replace':
        return re.search(r'create\s+or\s+replace\b', low) is not None and low.lstrip().startswith('create')
    if inst['kind'] == 'cte':
        return re.match(r'(\s|/\*.*?\*/|--[^\n]*\n|# [^\n]*\n)*with\s', low, re.S) is not None and \
            re.search(r'\)\s*(/\*.*?\*/|--[^\n]*\n)?\s*' + inst['expected'].lower() + r'\b', low) is not None and \
            low.count('(') == low.count(')') and re.search(r'\w+\s*(\(c1, c2\))?\s*as\s*\(select', low) is not None
    return False


# =================================================================================================
def main():
    import random
    import json
    seed = int(sys.argv[1]) if len(sys.argv) > 1 else 0
    n = int(sys.argv[2]) if len(sys.argv) > 2 else 5000
    what = sys.argv[3].split(',') if len(sys.argv) > 3 else ['corr', 'c07', 'c12', 'c13', 'c18']
    rng = random.Random(f'acc:{seed}')
    texts = None
    if 'corr' in what:
        vlib.ensure_built()
        res = corr(rng, n)
        texts = res.pop('texts')
        dis = res.pop('disagreements')
        print('== correspondence (acc):', json.dumps(res, ensure_ascii=True))
        print('   disagreements:', len(dis))
        for d in dis[:5]:
            print('  ', json.dumps({k: v for k, v in d.items() if k != 'input'}, ensure_ascii=True)[:1500])
    if 'c07' in what:
        if texts is None:
            texts, _ = gen_texts(rng, n)
        f = c07_sweep(texts)
        print('== C07 accessors: texts', len(texts), 'escaping exception classes:', len(f))
        for d in f:
            print('  ', json.dumps(d, ensure_ascii=True))
    for name, fn in (('c12', c12_sweep), ('c13', c13_sweep), ('c18', c18_sweep)):
        if name in what:
            res = fn(rng, n)
            print(f'== {name.upper()}: evaluations {res["evaluations"]} deviating {res["deviating"]} classes {len(res["findings"])}')
            print('   distribution', json.dumps(dict(sorted(res['distribution'].items())), ensure_ascii=True)[:2500])
            if res.get('non_name_words'):
                print('   plain words not typed Name:', json.dumps(res['non_name_words'], ensure_ascii=True)[:600])
            for d in sorted(res['findings'], key=lambda d: -d['occurrences']):
                print('  ', json.dumps(d, ensure_ascii=True)[:900])


if __name__ == '__main__':
    main()
