"""C10 (reindent part) - direct oracles on the real library:
 (a) every clause keyword of the output token stream starts its own line,
 (b) no output line ends in a blank,
 (c) no exception other than SQLParseError,
over generated scripts x reindent sub-option combinations.

Definitions (on the OUTPUT of format(text, reindent=True, **opts), re-lexed with sqlparse.lexer):
 * clause keyword: a token of type exactly Token.Keyword whose upper-cased value with runs of whitespace
   collapsed to one blank is FROM, WHERE, AND, OR, GROUP BY, ORDER BY, HAVING, LIMIT, UNION, UNION ALL,
   EXCEPT, SET, or ends in JOIN;  an AND that is the first AND after a BETWEEN at the same parenthesis
   depth is not a clause keyword ("AND/OR outside BETWEEN").
 * it starts its own line iff the output text between the preceding '\n' (or the start) and the
   keyword consists of blanks (' ' / '\t') only.
 * a line (output split on '\n') ends in a blank iff its last character is ' ' or '\t'.
"""
import collections
import re

import vlib

import sqlparse
from sqlparse import lexer, tokens as T
from sqlparse.exceptions import SQLParseError

import gens
import gens_reindent as gr
from props import common

WHERE_CLOSE = {'ORDER BY', 'GROUP BY', 'LIMIT', 'UNION', 'UNION ALL', 'EXCEPT', 'HAVING', 'RETURNING', 'INTO'}
CLAUSE = {'FROM', 'WHERE', 'AND', 'OR', 'GROUP BY', 'ORDER BY', 'HAVING', 'LIMIT', 'UNION', 'UNION ALL',
          'EXCEPT', 'SET'}


def norm_kw(v):
    return re.sub(r'\s+', ' ', v.upper())


def is_clause_kw(tt, v):
    if tt is not T.Keyword:
        return False
    n = norm_kw(v)
    return n in CLAUSE or n.endswith('JOIN')


def scan_output(out):
    """-> list of dicts for every clause keyword of the output with its context."""
    toks = []
    pos = 0
    for tt, v in lexer.tokenize(out):
        toks.append((tt, v, pos))
        pos += len(v)
    res = []
    depth = 0
    paren_kind = []          # 'func' | 'plain' per open parenthesis
    between = collections.Counter()   # depth -> pending BETWEENs
    case_depth = 0
    open_where = collections.Counter()   # depth -> a WHERE is open (no closing keyword seen yet)
    prev_sig = None          # previous non-whitespace token
    for i, (tt, v, p) in enumerate(toks):
        if tt in T.Whitespace:
            continue
        n = norm_kw(v) if tt in T.Keyword else v
        if tt is T.Punctuation and v == '(':
            kind = 'func' if (i > 0 and toks[i - 1][0] in T.Name and toks[i - 1][0] is not T.Name.Placeholder) else 'plain'
            paren_kind.append(kind)
            depth += 1
        elif tt is T.Punctuation and v == ')':
            if depth:
                between[depth] = 0
                open_where[depth] = 0
                depth -= 1
                paren_kind.pop()
        elif tt is T.Keyword and n == 'CASE':
            case_depth += 1
        elif tt is T.Keyword and n == 'END' and case_depth:
            case_depth -= 1
        if tt is T.Punctuation and v == ';' and depth == 0:
            open_where[0] = 0
        nested_where = False
        if tt is T.Keyword and n in WHERE_CLOSE:
            open_where[depth] = 0
        if tt is T.Keyword and n == 'WHERE':
            nested_where = open_where[depth] > 0
            open_where[depth] = 1
        if tt is T.Keyword and n == 'BETWEEN':
            between[depth] += 1
        elif is_clause_kw(tt, v):
            exempt = False
            if n == 'AND' and between[depth] > 0:
                between[depth] -= 1
                exempt = True
            ls = out.rfind('\n', 0, p) + 1
            own = out[ls:p].strip(' \t') == ''
            cr = out.rfind('\r', ls, p)
            after_cr = cr >= 0 and out[cr + 1:p].strip(' \t') == ''
            res.append({'kw': n, 'raw': v, 'pos': p, 'own_line': own, 'between_and': exempt,
                        'in_func': 'func' in paren_kind, 'depth': depth, 'in_case': case_depth > 0,
                        'after_comment': prev_sig is not None and prev_sig[0] in T.Comment,
                        'first': prev_sig is None, 'after_bare_cr': after_cr, 'nested_where': nested_where,
                        'prev': (str(prev_sig[0]), prev_sig[1][:20]) if prev_sig else None,
                        'multi_blank': n != v.upper()})
        prev_sig = (tt, v)
    return res, toks


def kw_class(k):
    """Classification of a clause keyword that does not start its own line."""
    if k['after_bare_cr']:
        return 'after-bare-CR'                            # only possible when the serializer is desynchronised
    if k['nested_where']:
        return 'where-inside-open-where'                  # e.g. after INTERSECT: the first Where group swallows the rest
    if k['multi_blank']:
        return 'kw-with-irregular-inner-whitespace'      # 'group  by': split word 'GROUP BY' is not found
    if k['kw'].endswith('JOIN') and not re.fullmatch(r'((LEFT|RIGHT|FULL) )?((INNER|OUTER|STRAIGHT) )?JOIN|(CROSS|NATURAL) JOIN|STRAIGHT_JOIN', k['kw']):
        return 'join-variant-not-one-token'
    return 'own-line-violated:' + k['kw'].split(' ')[-1]


def format_pieces(text, opts):
    """sqlparse.format(text, reindent=True, **opts) as the list of per-statement strings it joins."""
    from sqlparse import engine, filters, formatter
    stack = engine.FilterStack()
    o = formatter.validate_options(dict(opts, reindent=True))
    stack = formatter.build_filter_stack(stack, o)
    stack.postprocess.append(filters.SerializerUnicode())
    return list(stack.run(text))


# pinned reference copy of utils.SPLIT_REGEX / LINE_MATCH (NOT imported from /repo: a change of the library's regex must
# not move the reference split points; Gen/SplitRx.v is the regenerated one the Coq model uses)
REF_SPLIT_REGEX = re.compile(r'''
(
 (?:                     # Start of non-capturing group
  (?:\r\n|\r|\n)      |  # Match any single newline, or
  [^\r\n'"]+          |  # Match any character series without quotes or
                         # newlines, or
  "(?:[^"\\]|\\.)*"   |  # Match double-quoted strings, or
  '(?:[^'\\]|\\.)*'      # Match single quoted strings
 )
)
''', re.VERBOSE)
REF_LINE_MATCH = re.compile(r'(\r\n|\r|\n)')


def trailing_blank_lines(out, toks, pieces):
    """-> list of (line_no, class) for lines ending in a blank."""
    SPLIT_REGEX, LINE_MATCH = REF_SPLIT_REGEX, REF_LINE_MATCH
    split_points = set()
    base = 0
    for pc in pieces:       # the serializer runs per statement
        split_points |= {base + m.start() for m in SPLIT_REGEX.finditer(pc) if LINE_MATCH.match(m.group())}
        base += len(pc)
    res = []
    pos = 0
    spans = [(p, p + len(v), tt) for tt, v, p in toks]
    for ln, line in enumerate(out.split('\n')):
        end = pos + len(line)
        if line and line[-1] in ' \t':
            cls = 'trailing-blank'
            for a, b, tt in spans:
                if a <= end - 1 < b:
                    if tt in T.Literal.String or tt in T.Comment or tt in T.Name and b > end:
                        # the blank and the following newline are inside one literal/comment token
                        cls = 'inside-literal-or-comment' if b > end else 'trailing-blank'
                    break
            if cls == 'trailing-blank' and end in split_points:
                cls = 'trailing-blank-at-split-point'     # would contradict the serializer's rstrip
            res.append((ln, cls))
        pos = end + 1
    return res


def oracle_all(text, opts):
    """All failures of (a) (b) (c) for one input; [] when the property holds."""
    inp = [ord(c) for c in text]
    try:
        pieces = format_pieces(text, opts)
        out = ''.join(pieces)
    except SQLParseError:
        return []
    except Exception as e:  # noqa
        return [{'input': inp, 'options': opts, 'part': 'c', 'class': 'exception:' + type(e).__name__,
                 'observed': f'{type(e).__name__}: {e}'[:200]}]
    fails = []
    kws, toks = scan_output(out)
    for k in kws:
        if not k['own_line'] and not k['between_and']:
            fails.append({'input': inp, 'options': opts, 'part': 'a', 'class': kw_class(k),
                          'observed': f"{k['raw']!r} at {k['pos']} not at line start; prev token {k['prev']}; "
                                      f"in_func={k['in_func']} in_case={k['in_case']} after_comment={k['after_comment']}",
                          'output': out[:400]})
    for ln, cls in trailing_blank_lines(out, toks, pieces):
        if cls == 'trailing-blank-at-split-point':
            fails.append({'input': inp, 'options': opts, 'part': 'b', 'class': cls,
                          'observed': f'line {ln}', 'output': out[:400]})
        if cls == 'trailing-blank':
            fails.append({'input': inp, 'options': opts, 'part': 'b', 'class': 'line-ends-in-blank',
                          'observed': f'line {ln} ends in a blank: {out.split(chr(10))[ln][-30:]!r}', 'output': out[:400]})
    return fails


def oracle(text, opts=None):
    f = oracle_all(text, opts or {})
    return f[0] if f else None


# ---- known classes ---------------------------------------------------------------------------------
def has_quote_in_comment(text):
    for tt, v in lexer.tokenize(text):
        if tt in T.Comment and ("'" in v or '"' in v):
            return True
    return False


def classify(fl, kf=None):
    """-> id of the known finding the failure belongs to, or None."""
    cls = fl.get('class', '')
    text = ''.join(map(chr, fl.get('input', [])))
    ids = {k['class']: k['id'] for k in (kf or KNOWN)}
    if kf is not None:
        # an escaping exception is decided by C07: its open listed findings are known here too
        for k in vlib.load_known_findings():
            if k.get('property') == 'C07' and k.get('status') == 'open' and k.get('class'):
                ids.setdefault(k['class'], k['id'])
    if cls in ('line-ends-in-blank', 'after-bare-CR'):
        # by construction: a blank before a newline (or a bare CR) outside literal/comment tokens survives
        # SerializerUnicode only where SPLIT_REGEX regards the newline as quoted
        return ids.get('serializer-quote-desync')
    if cls == 'exception:IndexError' and re.search(r'\(\s*(as|::|:=)\s*\)', text, re.I):
        return ids.get('stripws-parenthesis-swallowed')
    if cls in ids:
        return ids[cls]
    return None


KNOWN = [
    {'id': 'C10-RX-1', 'property': 'C10', 'status': 'open', 'class': 'serializer-quote-desync',
     'witness': "select a, -- don't\n  b   \nfrom t where c = 'x'",
     'what_fails': "reindent: output lines end in a blank when a comment (or an unterminated literal) contains a quote: "
                   "SerializerUnicode's SPLIT_REGEX pairs the quote with the next one, the newlines in between are "
                   "treated as quoted and the lines are not right-stripped"},
    {'id': 'C10-RX-2', 'property': 'C10', 'status': 'open', 'class': 'where-inside-open-where',
     'witness': 'select a from t where x=1 intersect select b from u where y=2',
     'what_fails': "reindent: the WHERE of a SELECT that follows INTERSECT (or any WHERE after a WHERE that is not closed by "
                   "ORDER BY/GROUP BY/LIMIT/UNION/EXCEPT/HAVING/RETURNING/INTO) is inside the first Where group and "
                   "_process_where only breaks before the group's first WHERE: output '... from u where y=2'"},
    {'id': 'C10-RX-3', 'property': 'C10', 'status': 'open', 'class': 'kw-with-irregular-inner-whitespace',
     'witness': 'select a from t group  by a',
     'what_fails': "reindent: 'GROUP  BY' written with two blanks / a tab / a newline between the words is one Keyword token whose "
                   "normalized value does not contain the split word 'GROUP BY', so no line break is put before it "
                   "('ORDER  BY' is still broken, by accident: it contains 'OR')"},
    {'id': 'C07-RX-1', 'property': 'C07', 'status': 'fixed', 'class': 'stripws-parenthesis-swallowed',
     'witness': '(as)',
     'what_fails': "format('(as)', reindent=True) (also strip_whitespace=True; also '(::)', 'f( as )') raises IndexError in "
                   "StripWhitespaceFilter._stripws_parenthesis: group_as/group_typecasts wrap '(', the keyword and ')' into one "
                   "Identifier, the Parenthesis has a single child and tokens[1] does not exist"},
]


# ---- harness entry points --------------------------------------------------------------------------
def gen_case(rng):
    text, kind = gr.gen_text(rng)
    return text, kind, gr.gen_opts(rng)


def gen_grammar_case(rng):
    """A script of the verification grammar (any rendering) + reindent sub-options."""
    g = gens.SqlGen(rng, max_depth=rng.choice([1, 2, 3]))
    text = gens.render(g.script(), rng, layout=rng.choice(['canon', 'random']),
                       comments=rng.choice([0, 0, 0.1, 0.3]), recase=rng.choice([None, 'upper', 'lower', 'random']))
    return text, 'grammar-script', gr.gen_opts(rng)


def run(ctx):
    n = ctx.n(1500, 20000)
    fails = []
    dist = collections.Counter()
    classes = collections.Counter()
    for i in range(n):
        if i % 3 == 2:
            text, kind, o = gen_case(ctx.rng)        # focused constructs, junk, unicode: part (c) only
            parts = ('c',)
        else:
            text, kind, o = gen_grammar_case(ctx.rng)
            parts = ('a', 'b', 'c')
        dist[kind] += 1
        for f in oracle_all(text, o):
            if f['part'] not in parts:
                continue
            classes[f['class']] += 1
            fails.append(f)
    return {'failures': fails[:50], 'evaluations': n, 'distinct_nontrivial': len(dist),
            'rule': 'oracles (a) own line (b) no trailing blank (c) no exception on format(text, reindent=True, **opts)',
            'distribution': {'generator': dict(dist), 'failure_classes': dict(classes)}, 'samples': []}


run_oracle_only = run


def search(ctx, hints):
    return common.generic_search(ctx, hints, common.new_only('C10', oracle, classify), gen=lambda r: gr.gen_text(r)[0])


def shrink(fl):
    o = fl.get('options', {})
    cls = fl.get('class')

    def fails(s):
        for f in oracle_all(s, o):
            if f['class'] == cls:
                return f
        return None
    s = ''.join(map(chr, fl['input']))
    _, best = common.shrink_text(s, fails)
    return best or fl


def replay(payload):
    f = payload.get('failure')
    if not f or 'input' not in f:
        return {'fails': False, 'note': 'no concrete input'}
    g = oracle_all(''.join(map(chr, f['input'])), f.get('options', {}))
    return {'fails': bool(g), 'observed': g[:1]}


def rederive_known(k):
    """Re-run the oracle on a known finding's witness; -> the failure if it still reproduces."""
    w = k['witness']
    text = w if isinstance(w, str) else (w.get('text') or ''.join(map(chr, w.get('input', []))))
    opts = k.get('options') or (w.get('options') if isinstance(w, dict) else None) or {}
    if not any(k.get('class') == kk['class'] for kk in KNOWN):
        return None
    for f in oracle_all(text, opts):
        if classify(f, [k]) == k['id']:
            return f
    return None
