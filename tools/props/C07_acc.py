"""C07 (accessor part): the exact accessor models agree with the implementation on which accessor raises what, on every node."""
import vlib
from props import common
from props import acc_common as A

THEOREMS = ['Acc/AccFacts.v: accessors_raise_only (on trees with non-empty leaf values and groups, the only accessors that can raise '
            'are get_window / get_parameters), names_total, name_accessors_total, get_cases_total, get_type_total, comparison_total, '
            'get_window_spec, get_window_no_over (None without OVER since the library fix), C07_accessors_get_window_fixed']
TRUSTED = ['accessor models tied to the code by the acc correspondence (result or exception class of every accessor on every node)']
ASSUMPTIONS = []


def run(ctx):
    c = A.corr(ctx.rng, ctx.n(1500, 15000))
    return {'failures': [], 'disagreements': c['disagreements'][:20], 'evaluations': c['fragments'],
            'distinct_nontrivial': c['distinct_nontrivial'],
            'rule': 'acc stage: for every statement of parse(text) and every node in pre-order, every accessor the node class offers: '
                    'canonical result or exception class, extracted model vs implementation',
            'samples': c['texts'][:3], 'traces_validated_against_impl': c['evaluations'],
            'distribution': dict(c['distribution'], exceptions=c['exceptions'])}


def search(ctx, hints):
    return {'failures': [], 'tried': 0}


def replay(payload):
    return {'fails': False, 'note': 'correspondence stage only'}
