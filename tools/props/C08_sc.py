"""C08 (strip_comments part) - format(sql, strip_comments=True) removes every comment except optimizer
hints and nothing else; the other significant tokens come out unchanged and in order; no two tokens are
fused by the edit; the filter is idempotent.

Correspondence: driver command `stripcomments <text>` (cur_parse + Filters/StripComments.v strip_comments on
every statement) against the real FilterStack(grouping + StripCommentsFilter) stopped before the serializer;
`scsearch` (the Gallina transcription of re.search(r'([\\r\\n]+) *$')) against CPython's re.
Direct oracle: the property text on the real library."""
import collections
import itertools
import re
import time

import vlib
import impl
import impl_stripcomments as isc
import gens
import gens_sc
from props import common

THEOREMS = [
    'Filters/StripCommentsFacts.v: sc_process_spec (the while loop of _process = the left-to-right scan sc_spec)',
    'sc_total (strip_comments never fails: the fuel S(len) suffices)',
    'sc_residue (a non-hint comment child that survives stands first in its token list or directly after "(")',
    'sc_no_comments_partial (no two adjacent comment children anywhere => no non-hint comment child survives)',
    'sc_no_comments_refuted, sc_hints_refuted, sc_idem_refuted, sc_fuse_refuted (concrete texts)',
    'sc_noncomment_leaves (Comment groups pure => significant leaves unchanged, in order)',
    'sc_hints_preserved (hint-led Comment groups => hint leaves unchanged, in order)',
    'sc_separated (every new adjacency of children involves an inserted whitespace leaf or a preceding "(")',
    'sc_idem_partial (no non-hint comment child left => a second run changes nothing)',
]
TRUSTED = ['the hand-written model of StripCommentsFilter.process/_process and the Gallina transcription of '
           "re.search(r'([\\r\\n]+) *$') are tied to the code by differential runs, not by translation"]
ASSUMPTIONS = ['premise parse = Ok: totality of parse is C07']

KINDS = ('exception', 'comment-left', 'hint-removed', 'token-changed', 'fused', 'glued', 'glued-after-paren',
         'relex-multiword', 'not-idempotent', 'not-idempotent-ws')


def _hints(T):
    return (T.Comment.Multiline.Hint, T.Comment.Single.Hint)


def _sig(tok, T):
    return not tok.is_whitespace and tok.ttype not in T.Comment


def oracle_all(text):
    """All violations of the property text on the real library for this input: list of dicts."""
    import sqlparse
    from sqlparse import tokens as T, lexer
    inp = [ord(c) for c in text]
    out = []
    try:
        before_st = [list(st.flatten()) for st in sqlparse.parse(text)]
        before = [t for st in before_st for t in st]
    except Exception:  # noqa
        return out        # totality of parse is C07
    try:
        stmts = isc.stripcomments_stmts(text)
        after_st = [list(st.flatten()) for st in stmts]
        after = [t for st in after_st for t in st]
        formatted = sqlparse.format(text, strip_comments=True)
    except Exception as e:  # noqa
        return [{'input': inp, 'kind': 'exception', 'observed': 'strip_comments raises %s' % type(e).__name__}]
    hints = _hints(T)
    left = [t.value for t in after if t.ttype in T.Comment and t.ttype not in hints]
    if left:
        out.append({'input': inp, 'kind': 'comment-left',
                    'observed': 'a non-hint comment survives: %r; output %r' % (left[0][:40], formatted[:120])})
    hb = [(str(t.ttype), t.value) for t in before if t.ttype in hints]
    ha = [(str(t.ttype), t.value) for t in after if t.ttype in hints]
    if hb != ha:
        out.append({'input': inp, 'kind': 'hint-removed',
                    'observed': 'hints before %r, after %r; output %r' % ([v for _, v in hb][:4], [v for _, v in ha][:4], formatted[:120])})
    sb = [(str(t.ttype), t.value) for t in before if _sig(t, T)]
    sa = [(str(t.ttype), t.value) for t in after if _sig(t, T)]
    if sb != sa:
        out.append({'input': inp, 'kind': 'token-changed',
                    'observed': 'significant tokens differ: before %r after %r' % (sb[:6], sa[:6])})
    else:
        # (1) adjacency: two significant tokens that had something between them are now direct neighbours
        def seps(flat):
            res, cur, started = [], False, False
            for t in flat:
                if _sig(t, T):
                    if started:
                        res.append(cur)
                    started, cur = True, False
                else:
                    cur = True
            return res
        found = False
        for bst, ast_ in zip(before_st, after_st):          # within one statement
            sep_b, sep_a = seps(bst), seps(ast_)
            sigs = [t for t in ast_ if _sig(t, T)]
            for i, (x, y) in enumerate(zip(sep_b, sep_a)):
                if x and not y:
                    u, v = sigs[i], sigs[i + 1]
                    paren = u.match(T.Punctuation, '(')
                    out.append({'input': inp, 'kind': 'glued-after-paren' if paren else 'glued',
                                'observed': 'tokens %r and %r were separated and are now adjacent; output %r'
                                            % (u.value[:20], v.value[:20], formatted[:120])})
                    found = True
                    break
            if found:
                break
        # (2) lexical fusion: the text of the edited tree no longer lexes into the same significant tokens
        newtext = ''.join(t.value for t in after)
        try:
            relex = [(str(tt), v) for tt, v in lexer.tokenize(newtext)
                     if tt not in T.Whitespace and tt not in T.Comment]
        except Exception:  # noqa
            relex = None
        orig = [(str(tt), v) for tt, v in lexer.tokenize(text) if tt not in T.Whitespace and tt not in T.Comment]
        # (types may change with the context -- `WHEN\n.` lexes WHEN as a Name -- only the cut into values counts)
        if relex is not None and [v for _, v in relex] != [v for _, v in orig] and not left and hb == ha:
            k = 0
            while k < min(len(relex), len(orig)) and relex[k][1] == orig[k][1]:
                k += 1
            multi = k < len(relex) and re.search(r'\s', relex[k][1]) is not None
            out.append({'input': inp, 'kind': 'relex-multiword' if multi else 'fused',
                        'observed': 'output text %r lexes differently at token %d: %r vs input %r'
                                    % (newtext[:120], k, relex[k:k + 2], orig[k:k + 2])})
    try:
        again = sqlparse.format(formatted, strip_comments=True)
    except Exception as e:  # noqa
        again = 'EXC ' + type(e).__name__
    if again != formatted:
        ws_only = again != None and re.sub(r'\s+', '', again) == re.sub(r'\s+', '', formatted)
        out.append({'input': inp, 'kind': 'not-idempotent-ws' if ws_only else 'not-idempotent',
                    'observed': 'format(s)=%r but format(format(s))=%r' % (formatted[:120], again[:120])})
    return out


# what the property text forbids / what is only recorded in the distribution:
#   glued             two tokens of one statement lose their separator but still lex apart (`b/**/::int` -> `b::int`)
#   glued-after-paren the same directly after "(" (the case the code special-cases on purpose)
#   relex-multiword   the inserted blank/newline lets the lexer read a multi-word keyword (`order/**/by` -> `order by`)
#   not-idempotent-ws format(format(s)) differs from format(s) in whitespace only (serializer rstrip / splitter, not the filter)
VIOLATION_KINDS = ('exception', 'comment-left', 'hint-removed', 'token-changed', 'fused', 'not-idempotent')
INFO_KINDS = ('glued', 'glued-after-paren', 'relex-multiword', 'not-idempotent-ws')


def oracle(text):
    for f in oracle_all(text):
        if f['kind'] in VIOLATION_KINDS:
            return f
    return None


def oracle_kind(kind):
    def f(text):
        for x in oracle_all(text):
            if x['kind'] == kind:
                return x
        return None
    return f


# ---- by construction: scripts in which NOTHING is a comment although a comment marker character ends a line ------------
# (a `#` is a comment opener only when a blank follows it; `-` + line break + `-` and `/` + line break + `*` are operators)
def _squeeze(t):
    return re.sub(r'\s+', ' ', t).strip()


EOL_MARKER_CASES = [
    # text, fragment of the squeezed result under: strip_comments / keyword_case=upper / identifier_case=upper
    ('#\n# cleanup\n#\ndelete from t where a = 1;\nselect 2;\n',
     'delete from t where a = 1; select 2;', 'DELETE FROM t WHERE a = 1;', 'delete from T where A = 1;'),
    ('select 5 #\n  3 as x\nfrom t;', '3 as x from t;', '3 AS x FROM t;', '3 as X from T;'),
    ('select 5 #\r\n  3 as x\r\nfrom t;', '3 as x from t;', '3 AS x FROM t;', '3 as X from T;'),
    ('select 1; #\rselect 2;\rselect 3;', 'select 2; select 3;', 'SELECT 2; SELECT 3;', 'select 2; select 3;'),
    ('select 5 -\n- 3 as x\nfrom t;', '3 as x from t;', '3 AS x FROM t;', '3 as X from T;'),
    ('select 5 /\n* 3 as x\nfrom t;', '3 as x from t;', '3 AS x FROM t;', '3 as X from T;'),
    ('select a#\nfrom t where b = 1;', 'from t where b = 1;', 'FROM t WHERE b = 1;', 'from T where B = 1;'),
]


def eol_marker_failures():
    import sqlparse
    out = []
    for text, f_sc, f_kw, f_id in EOL_MARKER_CASES:
        for opts, frag in (({'strip_comments': True}, f_sc), ({'keyword_case': 'upper'}, f_kw),
                           ({'identifier_case': 'upper'}, f_id), ({'strip_comments': True, 'reindent': True}, f_sc)):
            try:
                res = sqlparse.format(text, **opts)
            except Exception as e:  # noqa
                res = 'exception ' + type(e).__name__
            if frag not in _squeeze(res):
                out.append({'input': [ord(c) for c in text], 'kind': 'code-after-eol-marker-lost', 'options': opts,
                            'observed': 'format(%r, %r) = %r: the code after a comment-marker character that ends a line '
                                        'is no comment; expected to find %r' % (text, opts, res[:200], frag)})
                break
    return out


def sc_texts(ctx, n):
    out, dist = [], collections.Counter()
    cases = gens_sc.every_position_cases()
    # the systematic block: in the quick tier a deterministic sample of it
    if ctx.quick():
        step = max(1, len(cases) // 2500)
        cases = cases[ctx.rng.randrange(step)::step]
    out += cases
    dist['every_pos_systematic'] += len(cases)
    for _ in range(n):
        s, k = gens_sc.sc_text(ctx.rng)
        out.append(s[:ctx.n(400, 2500)])
        dist[k] += 1
    return out, dist


def search_strings():
    alpha = ['\r', '\n', ' ', 'x']
    strs = ['']
    for n in range(1, 8):
        strs += [''.join(p) for p in itertools.product(alpha, repeat=n)]
    return strs


def run(ctx):
    texts, dist = sc_texts(ctx, ctx.n(4000, 40000))
    texts = common.corpus('stripcomments') + texts
    res = {'disagreements': [], 'failures': eol_marker_failures()[:3]}
    dis, dumps = common.corr_stage('stripcomments', texts, isc.stripcomments_dump, 'stripcomments')
    res['disagreements'] += dis
    strs = search_strings()
    r = ctx.rng
    alpha2 = ['\r', '\n', ' ', 'x', '\t', '\x0b', '\x0c', '\x85', ' ', '\xa0', '-', '*', '/']
    strs += [''.join(r.choice(alpha2) for _ in range(r.randrange(0, 16))) for _ in range(ctx.n(3000, 30000))]
    d2, _ = common.corr_stage('scsearch', strs, isc.scsearch_dump, 'scsearch')
    res['disagreements'] += d2
    # the hypotheses / conclusions of the theorems, evaluated by the extracted model on the same inputs
    preds = vlib.run_model(['scpreds ' + vlib.cps(s) for s in texts])
    kinds = collections.Counter()
    info = {}
    pred_counts = collections.Counter()
    shapes = set()
    with_comment = 0
    for s, d, pr in zip(texts, dumps, preds):
        fs = oracle_all(s)
        fk = {f['kind'] for f in fs}
        for f in fs:
            kinds[f['kind']] += 1
            if f['kind'] in VIOLATION_KINDS and len([x for x in res['failures'] if x['kind'] == f['kind']]) < 3:
                res['failures'].append(f)
            elif f['kind'] in INFO_KINDS and f['kind'] not in info:
                info[f['kind']] = {'input': ''.join(map(chr, f['input']))[:200], 'observed': f['observed'][:300]}
        has_comment = 'Comment' in impl.parse_dump(s)
        if has_comment:
            with_comment += 1
            shapes.add(common.tree_shape(d))
        if pr.startswith('OK '):
            pv = dict(kv.split('=') for kv in pr[3:].split())
            if has_comment:
                for k, v in pv.items():
                    pred_counts[k + '=' + v] += 1
            # what the theorems predict for the implementation (via the correspondence)
            bad = None
            if pv['residue'] != '1':
                bad = 'sc_residue'
            elif pv['noadj'] == '1' and (pv['clean'] != '1' or 'comment-left' in fk):
                bad = 'sc_no_comments_partial'
            elif pv['pure'] == '1' and 'token-changed' in fk:
                bad = 'sc_noncomment_leaves'
            elif pv['hintled'] == '1' and 'hint-removed' in fk:
                bad = 'sc_hints_preserved'
            elif pv['clean'] == '1' and 'comment-left' in fk:
                bad = 'no_plain_comment_leaves'
            if bad:
                res['disagreements'].append({'stage': 'theorem-vs-impl:' + bad, 'input': [ord(c) for c in s],
                                             'model': pr, 'impl': sorted(fk)})
        elif not d.startswith('ERR'):
            res['disagreements'].append({'stage': 'scpreds', 'input': [ord(c) for c in s], 'model': pr, 'impl': d[:80]})
    res.update({
        'evaluations': len(texts) + len(strs),
        'distinct_nontrivial': len(shapes),
        'rule': 'texts: every base statement x every inter-token position x every comment/hint spelling, plus random '
                'dense/ends/junk/mixed texts; the complete tree (classes, leaf types and values, cached values) after '
                'grouping + StripCommentsFilter is compared between model and implementation; nl_search against re on all '
                'strings over {CR,LF,blank,x} up to length 7 plus random ones; distinct_nontrivial = distinct output tree '
                'shapes among inputs whose parse contains a comment',
        'samples': [t[:120] for t in texts[:3] + texts[-3:]],
        'traces_validated_against_impl': len(texts) + len(strs),
        'distribution': {'generator': dict(dist), 'length_histogram': common.length_hist(texts),
                         'inputs_with_comment': with_comment, 'oracle_failure_kinds': dict(kinds),
                         'theorem_hypotheses_on_inputs_with_comment': dict(pred_counts), 'info_kind_examples': info},
    })
    return res


def run_oracle_only(ctx):
    texts, dist = sc_texts(ctx, ctx.n(4000, 40000))
    fails = [f for f in (oracle(s) for s in texts) if f]
    return {'failures': fails[:5], 'evaluations': len(texts), 'distinct_nontrivial': 0,
            'rule': 'oracle only (model unavailable)', 'samples': texts[:3]}


KNOWN_WITNESSES = ['-- a\n-- b\n', 'select /* c */ /*+ h */ a from t', 'select f/**/AS c from t', 'x -/**/--+ h\n- y']


def search(ctx, hints):
    fs = eol_marker_failures()
    if fs:
        return {'failures': fs[:1], 'tried': len(EOL_MARKER_CASES)}
    known = [k for k in vlib.load_known_findings() if k.get('property') == 'C08' and k.get('status') == 'open']

    def oracle_new(text):
        # violations that are not instances of a listed finding (the witnesses of the listed findings are among the candidates:
        # reporting them unfiltered would end the search of the whole composite with an input that fails anyway)
        for f in oracle_all(text):
            if f['kind'] in VIOLATION_KINDS and classify(f, known) is None:
                return f
        return None
    return common.generic_search(ctx, hints, oracle_new, gen=lambda r: gens_sc.sc_text(r)[0],
                                 extra_inputs=KNOWN_WITNESSES)


def shrink(f):
    if not f or 'input' not in f:
        return f
    s = ''.join(map(chr, f['input']))
    if f.get('kind') == 'code-after-eol-marker-lost':
        return f
    orc = oracle_kind(f['kind']) if f.get('kind') in KINDS else oracle
    _, best = common.shrink_text(s, orc)
    return best or f


def replay(payload):
    f = payload.get('failure') or {}
    if f.get('kind') == 'code-after-eol-marker-lost':
        again = [g for g in eol_marker_failures() if g['input'] == f.get('input')]
        return {'fails': bool(again), 'observed': again[0] if again else None}
    return common.replay_with(oracle, payload)


def _model_preds(text):
    """The decidable hypotheses of the partial theorems, evaluated by the extracted model on the parse of the text:
    noadj (no two adjacent comment children anywhere), hintled (every Comment group holding a hint starts with it)."""
    try:
        r = vlib.run_model(['scpreds ' + vlib.cps(text)])[0]
        return dict(p.split('=') for p in r.split() if '=' in p)
    except Exception:  # noqa
        return {}


def _first_child_comment(text):
    """Some nested group (not the statement) of the real parse tree starts with a comment: that comment has no
    previous sibling in its own token list, so the filter deletes it without putting whitespace in its place."""
    import sqlparse
    from sqlparse import sql, tokens as T
    try:
        stmts = sqlparse.parse(text)
    except Exception:  # noqa
        return False
    stack = [k for st in stmts for k in st.tokens]
    while stack:
        n = stack.pop()
        if n.is_group:
            if not isinstance(n, sql.Comment) and n.tokens and \
                    (isinstance(n.tokens[0], sql.Comment) or n.tokens[0].ttype in T.Comment):
                return True
            stack.extend(n.tokens)
    return False


def classify(f, known):
    """A failure belongs to a known finding only if the MECHANISM of that finding is present in the input (the negation of
    the hypothesis of the corresponding partial theorem), so that the same kind of damage on other inputs is reported as new:
      sc-adjacent-comments    kind comment-left / not-idempotent, and the parse has two adjacent comment children
                              (theorem sc_no_comments_partial / sc_idem_no_adjacent: impossible otherwise)
      sc-hint-after-comment   kind hint-removed / fused / not-idempotent, and some Comment group holding a hint does not start
                              with it (theorem sc_hints_preserved: impossible otherwise)
      sc-first-child-comment  kind fused, and some nested group starts with a comment (prev_ is None there)"""
    kind = f.get('kind')
    text = ''.join(map(chr, f.get('input', [])))
    ids = {k.get('class'): k['id'] for k in known}
    pr = None
    if kind in ('comment-left', 'not-idempotent', 'hint-removed', 'fused'):
        pr = _model_preds(text)
    if kind in ('comment-left', 'not-idempotent') and pr.get('noadj') == '0' and 'sc-adjacent-comments' in ids:
        return ids['sc-adjacent-comments']
    if kind in ('hint-removed', 'fused', 'not-idempotent', 'comment-left') and pr and pr.get('hintled') == '0' \
            and 'sc-hint-after-comment' in ids:
        return ids['sc-hint-after-comment']
    if kind == 'fused' and 'sc-first-child-comment' in ids and _first_child_comment(text):
        return ids['sc-first-child-comment']
    return None


def rederive_known(k):
    w = k.get('witness', {}).get('input')
    if w is None:
        return None
    for f in oracle_all(''.join(map(chr, w))):
        if f['kind'] in VIOLATION_KINDS and classify(f, [k]) == k['id']:
            return f
    return None
