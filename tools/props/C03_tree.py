"""C03 - grouping is purely structural; well-formed tree; navigation helpers agree."""
import vlib
import impl
from props import common

THEOREMS = ['Props/C03.v: C03_nonempty (every group of every parsed statement is non-empty: Inst/TotalParse.v cur_parse_nonempty, Group/TotalFacts.v group_statement_nonempty)',
            'Props/C03.v: C03_leaves_and_cached (forall t: the leaves of parse(t) are the lexer tokens of the split '
            'statements -- same values, same types up to a re-typing to Operator -- and every group caches its text)',
            'C03_every_pass (the same after any prefix of the pass list)',
            'C03_at_offset (offset lookup returns the leaf covering the offset)',
            'Group/GroupFacts.v group_good; Tree/Inv.v group_tokens_leaves/group_tokens_cached']
TRUSTED = ['parent pointers, non-emptiness of groups and the navigation helpers token_index/token_next/token_prev/'
           'within/has_ancestor/is_child_of are at present checked on the implementation by the direct oracle only '
           '(the pure tree model has no object identity); see DESIGN.md section C03']
ASSUMPTIONS = ['premise parse = Ok: totality is C07']


def oracle(text):
    import sqlparse
    from sqlparse import sql, tokens as T, lexer
    from sqlparse.engine.statement_splitter import StatementSplitter
    inp = [ord(c) for c in text]
    try:
        stmts = sqlparse.parse(text)
        flat = list(StatementSplitter().process(lexer.tokenize(text)))
    except Exception:  # noqa
        return None
    if len(stmts) != len(flat):
        return {'input': inp, 'observed': 'statement count differs between parse and the splitter'}
    seen = set()
    for st, fl in zip(stmts, flat):
        lv = list(st.flatten())
        if len(lv) != len(fl.tokens):
            return {'input': inp, 'observed': 'number of leaves differs from the lexer tokens of the statement'}
        for a, b in zip(lv, fl.tokens):
            if a.value != b.value:
                return {'input': inp, 'observed': 'leaf value differs from lexer token: %r vs %r' % (a.value, b.value)}
            if a.ttype is not b.ttype and not (a.ttype is T.Operator and (b.ttype in T.Wildcard or b.ttype in T.Operator)):
                return {'input': inp, 'observed': 'leaf type %s differs from lexer type %s' % (a.ttype, b.ttype)}
        if st.parent is not None:
            return {'input': inp, 'observed': 'statement has a parent'}
        stack = [st]
        while stack:
            g = stack.pop()
            if id(g) in seen:
                return {'input': inp, 'observed': 'node occurs twice'}
            seen.add(id(g))
            if not g.is_group:
                continue
            if not g.tokens:
                return {'input': inp, 'observed': 'empty group %s' % type(g).__name__}
            if g.value != str(g):
                return {'input': inp, 'observed': 'cached value of %s differs from its text' % type(g).__name__}
            for i, c in enumerate(g.tokens):
                if c.parent is not g:
                    return {'input': inp, 'observed': 'parent of a child of %s is not that group' % type(g).__name__}
                if g.token_index(c) != i:
                    return {'input': inp, 'observed': 'token_index disagrees with position'}
                # token_index(token, start): the search starts at `start` (an index or a sibling) and still answers the
                # position in the whole list
                if i >= 1 and (g.token_index(c, i // 2) != i or g.token_index(c, g.tokens[i // 2]) != i):
                    return {'input': inp, 'observed': 'token_index(token, start) disagrees with position (start=%d)' % (i // 2)}
                if not c.is_child_of(g):
                    return {'input': inp, 'observed': 'is_child_of false for a child'}
                # token_next / token_prev: nearest non-whitespace sibling
                exp = next(((j, t) for j, t in enumerate(g.tokens) if j > i and not t.is_whitespace), (None, None))
                got = g.token_next(i)
                if got[0] != exp[0] or got[1] is not exp[1]:
                    return {'input': inp, 'observed': 'token_next disagrees with the sibling list'}
                exp = next(((j, g.tokens[j]) for j in range(i - 1, -1, -1) if not g.tokens[j].is_whitespace), (None, None))
                got = g.token_prev(i)
                if got[0] != exp[0] or got[1] is not exp[1]:
                    return {'input': inp, 'observed': 'token_prev disagrees with the sibling list'}
                # the other option combinations: skip_ws=False (immediate sibling), skip_cm=True (also skip comment
                # leaves and Comment groups)
                def is_cm(t):
                    return isinstance(t, sql.Comment) or (t.ttype is not None and t.ttype in T.Comment)
                for sw, scm in ((False, False), (True, True), (False, True)):
                    def keep(t, sw=sw, scm=scm):
                        return not ((sw and t.is_whitespace) or (scm and is_cm(t)))
                    exp = next(((j, t) for j, t in enumerate(g.tokens) if j > i and keep(t)), (None, None))
                    got = g.token_next(i, skip_ws=sw, skip_cm=scm)
                    if got[0] != exp[0] or got[1] is not exp[1]:
                        return {'input': inp, 'observed': 'token_next(skip_ws=%s, skip_cm=%s) disagrees with the sibling list' % (sw, scm)}
                    exp = next(((j, g.tokens[j]) for j in range(i - 1, -1, -1) if keep(g.tokens[j])), (None, None))
                    got = g.token_prev(i, skip_ws=sw, skip_cm=scm)
                    if got[0] != exp[0] or got[1] is not exp[1]:
                        return {'input': inp, 'observed': 'token_prev(skip_ws=%s, skip_cm=%s) disagrees with the sibling list' % (sw, scm)}
            # token_first with the same options
            for sw, scm in ((True, False), (False, False), (True, True)):
                def keep1(t, sw=sw, scm=scm):
                    return not ((sw and t.is_whitespace) or (scm and (isinstance(t, sql.Comment) or (t.ttype is not None and t.ttype in T.Comment))))
                exp1 = next((t for t in g.tokens if keep1(t)), None)
                if g.token_first(skip_ws=sw, skip_cm=scm) is not exp1:
                    return {'input': inp, 'observed': 'token_first(skip_ws=%s, skip_cm=%s) disagrees with the sibling list' % (sw, scm)}
            stack.extend(g.tokens)
        # ancestry
        def walk(n, anc):
            for c in (n.tokens if n.is_group else []):
                for a in anc + [n]:
                    if not c.has_ancestor(a):
                        return 'has_ancestor false for an ancestor'
                    if not c.within(type(a)):
                        return 'within false for an ancestor class'
                classes = {type(a) for a in anc + [n]}
                for k in (sql.Parenthesis, sql.Function, sql.Where, sql.Identifier, sql.Case):
                    if c.within(k) != any(issubclass(x, k) for x in classes):
                        return 'within(%s) disagrees with the ancestor chain' % k.__name__
                r = walk(c, anc + [n])
                if r:
                    return r
            return None
        r = walk(st, [])
        if r:
            return {'input': inp, 'observed': r}
        # offsets
        s = str(st)
        pos = 0
        for lf in lv:
            for off in range(pos, pos + len(lf.value)):
                if st.get_token_at_offset(off) is not lf:
                    return {'input': inp, 'observed': 'get_token_at_offset(%d) is not the covering leaf' % off}
            pos += len(lf.value)
        if len(s) != pos:
            return {'input': inp, 'observed': 'text length differs from sum of leaf lengths'}
    return None


def run(ctx):
    texts, dist = common.gen_texts(ctx, ctx.n(2500, 40000))
    texts = common.corpus('parse') + texts
    res = {'disagreements': [], 'failures': []}
    res['failures'] += common.threshold_failures('C03', ctx.quick())
    dis, dumps = common.corr_stage('parse', texts, impl.parse_dump, 'parse', extra='all ')
    res['disagreements'] += dis
    npass = len(impl.pass_list())
    sample = texts[ctx.n(250, 3000):ctx.n(500, 6000)]
    for k in range(npass + 1):
        d, _ = common.corr_stage('parse', sample, lambda s, k=k: impl.parse_dump(s, k), f'group_upto({k})', extra=f'{k} ')
        res['disagreements'] += d
    shapes = set()
    for s, d in zip(texts, dumps):
        f = oracle(s)
        if f:
            res['failures'].append(f)
        if 'G' in d[3:].replace('GStatement', ''):
            shapes.add(common.tree_shape(d))
    res.update({
        'evaluations': len(texts) + len(sample) * (npass + 1),
        'distinct_nontrivial': len(shapes),
        'rule': 'as C02; additionally the direct oracle checks, for every node of every tree, parent pointers, '
                'uniqueness, non-emptiness, cached value, token_index/next/prev, ancestry helpers and '
                'get_token_at_offset at every offset; distinct_nontrivial = distinct tree shapes with >= 1 inner group',
        'samples': [t[:120] for t in texts[:5]],
        'traces_validated_against_impl': len(texts) + len(sample) * (npass + 1),
        'distribution': {'generator': dict(dist), 'length_histogram': common.length_hist(texts), 'passes': npass},
    })
    return res


def run_oracle_only(ctx):
    texts, dist = common.gen_texts(ctx, ctx.n(2500, 40000))
    fails = [f for f in (oracle(s) for s in texts) if f]
    return {'failures': fails, 'evaluations': len(texts), 'distinct_nontrivial': 0,
            'rule': 'oracle only (model unavailable)', 'samples': texts[:3]}


def search(ctx, hints):
    return common.generic_search(ctx, hints, oracle)


def shrink(f):
    return common.shrink_failure(f, oracle)


def replay(payload):
    _f = payload.get('failure') or {}
    if _f.get('threshold_input'):
        return common.threshold_replay('C03', _f)
    return common.replay_with(oracle, payload)
