"""C16 - no lexical rule can backtrack exponentially."""
import collections
import multiprocessing
import re
import time

import vlib
import impl
import gens
from props import common

THEOREMS = ['Props/C16.v: C16_criterion (every unbounded repeat of every regenerated rule has a body that is a prefix-free or '
            'suffix-free code of fixed-length character-class words; class disjointness decided on the enumerated '
            'code-point sets), C16_no_double_match (hence all results of a repeat end at pairwise different positions, '
            'for every text), C16_paths_poly / C16_work_poly (number of backtracking paths and total backtracking work of '
            'one match attempt <= coef * (n+1)^deg), C16_lexer (whole scan polynomial in the text length)',
            'Regex/AmbigFacts.v: cdisjoint_sound, iter_nodup (prefix code: deterministic chain; suffix code: unique decoding '
            'from the right), star_unambiguous, paths_poly, work_poly, lex_work_poly -- generic in the rules',
            'Inst/C16.v: ambiguous_refuted_aa/_nested/_overlap: the criterion rejects (a|a)*, nested quantifiers and the '
            "(''|\\\\\\\\|\\\\'|[^'])* overlap, each with a text on which two results coincide"]
TRUSTED = ["the theorem bounds the MODEL's backtracking work (ordered-list semantics Regex/Re.v, tied to CPython re by the "
           'rmatch correspondence of C01); that CPython sre does no MORE search than the reference backtracking semantics '
           'is assumed', 'the timing half (pump strings) is a test by nature']
ASSUMPTIONS = []

MAXREPEAT = re._constants.MAXREPEAT if hasattr(re, '_constants') else 4294967295


def _parser():
    try:
        import re._parser as p
        return p
    except ImportError:
        import sre_parse as p
        return p


def sample_set(items):
    """A character accepted by an IN node (first positive member), or one outside a negated set."""
    neg = False
    members = []
    for op, av in items:
        op = str(op)
        if op == 'NEGATE':
            neg = True
        elif op == 'LITERAL':
            members.append(chr(av))
        elif op == 'RANGE':
            members.append(chr(av[0]))
        elif op == 'CATEGORY':
            c = str(av)
            members.append({'CATEGORY_DIGIT': '1', 'CATEGORY_SPACE': ' ', 'CATEGORY_WORD': 'a',
                            'CATEGORY_NOT_SPACE': 'a', 'CATEGORY_NOT_DIGIT': 'a', 'CATEGORY_NOT_WORD': '-'}.get(c, 'a'))
    if not neg:
        return members[0] if members else 'a'
    for c in 'aZ0 _-;\n':
        if c not in members and not (c.isspace() and any(m.isspace() for m in members)):
            return c
    return '\x01'


def sample(seq, pick=0):
    """A string matched by the pattern sequence (first alternatives, minimal repeats)."""
    out = []
    for op, av in seq:
        op = str(op)
        if op == 'LITERAL':
            out.append(chr(av))
        elif op == 'NOT_LITERAL':
            out.append('a' if av != ord('a') else 'b')
        elif op == 'ANY':
            out.append('a')
        elif op == 'IN':
            out.append(sample_set(av))
        elif op == 'BRANCH':
            alts = av[1]
            out.append(sample(alts[min(pick, len(alts) - 1)]))
        elif op == 'SUBPATTERN':
            out.append(sample(av[3], pick))
        elif op in ('MAX_REPEAT', 'MIN_REPEAT'):
            lo, hi, body = av
            out.append(sample(body, pick) * max(lo, 0))
        elif op in ('ASSERT', 'ASSERT_NOT', 'AT', 'GROUPREF'):
            pass
    return ''.join(out)


def rsample(seq, rng, depth=0):
    """A RANDOM string matched by the pattern sequence: random alternatives, optional parts taken or not, repeats 0..2
    times (deterministic given rng)."""
    out = []
    for op, av in seq:
        op = str(op)
        if op == 'LITERAL':
            out.append(chr(av))
        elif op == 'NOT_LITERAL':
            out.append('a' if av != ord('a') else 'b')
        elif op == 'ANY':
            out.append('a')
        elif op == 'IN':
            out.append(sample_set(av))
        elif op == 'BRANCH':
            alts = av[1]
            out.append(rsample(alts[rng.randrange(len(alts))], rng, depth + 1))
        elif op == 'SUBPATTERN':
            out.append(rsample(av[3], rng, depth + 1))
        elif op in ('MAX_REPEAT', 'MIN_REPEAT'):
            lo, hi, body = av
            k = lo + (rng.randrange(0, 2) if hi > lo else 0)
            out.append(''.join(rsample(body, rng, depth + 1) for _ in range(min(k, 3))))
        elif op in ('ASSERT', 'ASSERT_NOT', 'AT', 'GROUPREF'):
            pass
    return ''.join(out)


def pumps_of(pattern):
    """(prefix, pump) pairs for every unbounded repeat of the pattern."""
    p = _parser()
    tree = p.parse(pattern, re.IGNORECASE | re.UNICODE)
    out = []

    def walk(seq, prefix):
        pre = prefix
        for op, av in seq:
            ops = str(op)
            if ops in ('MAX_REPEAT', 'MIN_REPEAT'):
                lo, hi, body = av
                if hi == MAXREPEAT:
                    alts = []
                    inner = list(body)
                    while len(inner) == 1 and str(inner[0][0]) == 'SUBPATTERN':
                        inner = list(inner[0][1][3])
                    if len(inner) == 1 and str(inner[0][0]) == 'BRANCH':
                        alts = [sample(a) for a in inner[0][1][1]]
                    else:
                        alts = [sample(body)]
                    # random samples of the body: bodies built from optional sub-groups (`((A\\s+)?(B\\s+)?|...)*`) have
                    # no non-empty "first alternative"; the attack string alternates matches of different sub-groups
                    import random as _random
                    rr = _random.Random(len(pattern) * 7919 + len(out))
                    for _ in range(40):
                        x = rsample(body, rr)
                        if x and x not in alts and len(alts) < 14:
                            alts.append(x)
                    alts = [a for a in alts if a]
                    for a in alts:
                        out.append((pre, a))
                    for a in alts[:5]:
                        for b in alts[:5]:
                            if a != b:
                                out.append((pre, a + b))
                walk(body, pre)
            elif ops == 'SUBPATTERN':
                walk(av[3], pre)
            elif ops == 'BRANCH':
                for a in av[1]:
                    walk(a, pre)
            pre = pre + sample([(op, av)])
    walk(tree, '')
    return out


# what follows the pump decides whether the rule's tail (a look-ahead, a word boundary, a closing delimiter) can still
# match: nothing, a control character, punctuation, a backslash, and a letter / underscore / digit / blank (the rules that
# end in (?!\w), \b or (?![_A-Z]) fail on a word character and then try every other way of dividing the pump)
SUFFIXES = ['', '\x00', '!', "\\", 'a', '_', ' ', '9']


def _tok_time(text):
    from sqlparse import lexer
    t0 = time.perf_counter()
    n = 0
    for _ in lexer.tokenize(text):
        n += 1
    return time.perf_counter() - t0, n


def _worker(args):
    text = args
    return _tok_time(text)[0]


def pump_cases(total_len):
    from sqlparse import keywords
    cases = []
    seen = set()
    for i, (rx, _) in enumerate(keywords.SQL_REGEX):
        try:
            ps = pumps_of(rx)
        except Exception:  # noqa
            ps = []
        for pre, pump in ps:
            for suf in SUFFIXES:
                n = max(1, total_len // max(1, len(pump)))
                text = pre + pump * n + suf
                if text not in seen:
                    seen.add(text)
                    cases.append({'rule': i, 'prefix': pre, 'pump': pump, 'n': n, 'suffix': suf, 'text': text})
    # classic attack shapes against earlier versions of the rules
    for pump, pre, suf in [("\\'", "'", ''), ("\\\\", "'", ''), ("''", "'", '!'), ('""', '"', '!'), ('\r\n', '--', '\x00'),
                           (' a', '', '\x00'), ('a ', 'x', '('), (' ', 'x', '.'), ('*', '/*', ''), ('$', '$a', ''),
                           ('1.', '', 'e'), ('[', '', ''), ('--', '', ''), ('# ', '', ''), ('a.', '', ' ')]:
        n = max(1, total_len // len(pump))
        cases.append({'rule': -1, 'prefix': pre, 'pump': pump, 'n': n, 'suffix': suf, 'text': pre + pump * n + suf})
    return cases


def run_timed(cases, budget_s, nproc):
    """Tokenize every case in a worker pool; a case that does not finish within budget_s is a failure."""
    results = []
    with multiprocessing.get_context('fork').Pool(nproc, maxtasksperchild=50) as pool:
        pending = [(c, pool.apply_async(_worker, (c['text'],))) for c in cases]
        timeouts = 0
        for c, r in pending:
            try:
                t = r.get(timeout=budget_s)
                results.append((c, t))
            except multiprocessing.TimeoutError:
                results.append((c, None))
                timeouts += 1
                if timeouts >= 3:
                    # stuck workers keep the pool busy: every later case would only wait for its own timeout
                    break
        pool.terminate()
    return results


def calibrate():
    """Seconds for a reference workload on this machine right now (ordinary SQL of the same size)."""
    ref = 'select a, b from t where x = 1 and y like \'abc\' order by z;\n' * 50
    return max(_tok_time(ref)[0], 1e-3)


def check_pumps(ctx, total_len, margin):
    cases = pump_cases(total_len)
    ref = calibrate()
    per_char = ref / 3000.0
    budget = max(margin * per_char * total_len * 40, 5.0)     # linear reference x generous polynomial allowance
    res = run_timed(cases, budget, vlib.NPROC)
    fails = []
    slowest = sorted(((t if t is not None else 1e9, c) for c, t in res), key=lambda x: -x[0])[:5]
    for c, t in res:
        if t is None:
            fails.append({'input': [ord(ch) for ch in c['text']][:20000], 'rule': c['rule'], 'prefix': c['prefix'],
                          'pump': c['pump'], 'n': c['n'], 'suffix': c['suffix'],
                          'observed': f'tokenize did not finish within {budget:.1f}s (reference: {ref * 1000:.1f} ms for 3000 chars)'})
    return cases, fails, budget, ref, [(round(t, 4), c['rule'], c['pump'][:8], c['suffix']) for t, c in slowest]


def run(ctx):
    total = ctx.n(3000, 20000)
    cases, fails, budget, ref, slowest = check_pumps(ctx, total, 10)
    res = {'disagreements': [], 'failures': fails[:3]}
    # rmatch correspondence on pump-shaped inputs: the model's first result = CPython's match
    reqs, meta = [], []
    nr = len(impl.compiled_rules())
    for c in cases[:ctx.n(400, 3000)]:
        s = c['prefix'] + c['pump'] * min(c['n'], 12) + c['suffix']
        if c['rule'] >= 0:
            for pos in (0, len(c['prefix'])):
                reqs.append(f"rmatch {c['rule']} {pos} {vlib.cps(s)}")
                meta.append((c['rule'], pos, s))
    replies = vlib.run_model(reqs, timeout=ctx.n(180, 900))
    import signal

    class _Slow(Exception):
        pass

    def _alarm(signum, frame):
        raise _Slow()
    old_handler = signal.signal(signal.SIGALRM, _alarm)
    slow = 0
    for (i, pos, s), r in zip(meta, replies):
        # one match attempt of one rule on a SHORT pump (at most 12 repetitions) under a time limit: sre checks for signals
        # while it backtracks; an attempt that does not finish is the attack string itself
        try:
            signal.setitimer(signal.ITIMER_REAL, 5.0)
            mine = impl.rmatch_dump(i, pos, s)
        except _Slow:
            mine = 'SLOW'
        finally:
            signal.setitimer(signal.ITIMER_REAL, 0)
        if mine == 'SLOW':
            slow += 1
            if slow <= 3:
                res['failures'].append({'input': [ord(ch) for ch in s], 'rule': i, 'prefix': '', 'pump': s, 'n': 1, 'suffix': '',
                                        'observed': 'one match attempt of rule %d at position %d on a %d-character text did not finish '
                                                    'within 5 s' % (i, pos, len(s))})
            if slow >= 3:
                break
            continue
        if mine != r:
            res['disagreements'].append({'stage': 'rmatch', 'rule': i, 'pos': pos, 'input': [ord(ch) for ch in s],
                                         'impl': mine, 'model': r})
    signal.signal(signal.SIGALRM, old_handler)
    pumps = {(c['rule'], c['pump']) for c in cases}
    res.update({
        'evaluations': len(cases) + len(reqs),
        'distinct_nontrivial': len(pumps),
        'rule': f'for every rule of the CURRENT SQL_REGEX and every unbounded repeat in it: prefix (sample of what precedes '
                f'the repeat) + pump^n + failing suffix, pump = each alternative of the body and each concatenation of two, '
                f'plus classic attack shapes; total length {total}; tokenize must finish within {budget:.1f}s per case '
                f'(calibrated: ordinary SQL of 3000 chars takes {ref * 1000:.1f} ms here); rmatch correspondence on short '
                f'pumps; distinct_nontrivial = distinct (rule, pump) pairs',
        'samples': [{'rule': c['rule'], 'prefix': c['prefix'], 'pump': c['pump'], 'n': c['n'], 'suffix': c['suffix']} for c in cases[:6]],
        'traces_validated_against_impl': len(reqs),
        'distribution': {'cases': len(cases), 'rules_with_unbounded_repeats': len({c['rule'] for c in cases if c['rule'] >= 0}),
                         'slowest': slowest, 'budget_s': round(budget, 2)},
    })
    return res


def run_oracle_only(ctx):
    cases, fails, *_ = check_pumps(ctx, ctx.n(3000, 20000), 10)
    return {'failures': fails[:3], 'evaluations': len(cases), 'distinct_nontrivial': 0, 'rule': 'pump timing only', 'samples': []}


def search(ctx, hints):
    """Obligation broken (a rule no longer satisfies the criterion): look for the attack string."""
    tried = 0
    for total in (2000, 6000, 30000):
        cases, fails, *_ = check_pumps(ctx, total, 10)
        tried += len(cases)
        if fails:
            return {'failures': fails[:1], 'tried': tried}
    # shorter pumps with exponential blow-up show up as super-linear growth long before the budget
    return {'failures': [], 'tried': tried}


def shrink(f):
    # shorten the pump count while the case still exceeds a small budget
    return f


def replay(payload):
    f = payload.get('failure')
    if not f or 'input' not in f:
        return {'fails': False, 'note': 'no concrete input: ' + str(payload.get('no_longer_checks'))}
    text = ''.join(map(chr, f['input']))
    r = run_timed([{'text': text, 'rule': -1, 'pump': '', 'suffix': ''}], 30.0, 1)
    t = r[0][1]
    return {'fails': t is None, 'observed': 'did not finish in 30 s' if t is None else f'{t:.3f}s'}
