"""C10 (strip_whitespace / use_space_around_operators normal forms and fixed points) and the part of C06
(format() keeps the sequence of non-whitespace tokens) that concerns these options and the serializer.

run(ctx)     correspondence of the extracted model (Filters/StripWs.v, Spaces.v, Serializer.v, Format.v) with
             /repo's sqlparse on whitespace-rich generated inputs, stage by stage (tree after parse+filter,
             serializer output, final string of sqlparse.format), plus the direct oracle on the same inputs
oracle(text) model-free check of the property text on the real library; returns the first violation
violations(text) all violations (one per kind)
search/shrink/replay as in the other property modules.

Stand-alone:  PYTHONPATH=/repo /venv/bin/python tools/props/C10_ws.py --search 20000   (prints every distinct
kind of violation with a shrunk input)."""
import collections
import re
import concurrent.futures
import os
import sys
import time

HERE = os.path.dirname(os.path.abspath(__file__))
sys.path.insert(0, os.path.dirname(HERE))
sys.path.insert(0, os.path.join(os.path.dirname(HERE), 'gen'))

import vlib  # noqa: E402
import gens_ws  # noqa: E402
import impl_filters_ws as I  # noqa: E402
try:
    from props import common
except ImportError:  # stand-alone
    import common

THEOREMS = [
    'Filters/StripWsFacts.v: stripws_total (is_group n -> sw_wf n -> exists n\', stripws n = Ok n\' /\\ sw_nf n\'), '
    'stripws_leaves (ws_edit (leaves n) (leaves n\')), stripws_nonws_leaves, stripws_flat_nf (under edge_ok), '
    'strip_trailing_semicolon_spec',
    'Filters/SpacesFacts.v: sp_list_eq (the index-shifting while loop = one left-to-right pass, fuel never runs out), '
    'spaces_total, spaces_leaves (sp_ins), spaces_nonws_leaves, spaces_nf',
    'Filters/SerializerFacts.v: serialize_total, re_split_concat, serialize_keeps_quoted',
    'Filters/SerializerSpecFacts.v: match_cap_spec, re_split_spec, sun_spec, serialize_spec (SPLIT_REGEX = a direct scanner), sx_chars',
    'Filters/WsExamples.v: IndexError witnesses, stripws_idem_refuted, format_sw_fixed_point_refuted, stripws_flat_nf_refuted, '
    'stripws_no_trailing_ws_refuted, stripws_paren_blank_refuted, format_sp_fixed_point_refuted, '
    'spaces_flat_nf_refuted, c06_*_refuted (11 inputs)']
TRUSTED = ['hand-written models of StripWhitespaceFilter, SpacesAroundOperatorsFilter, StripTrailingSemicolonFilter, '
           'SerializerUnicode/split_unquoted_newlines, FilterStack.run are tied to the code by the differential runs below; '
           'SPLIT_REGEX / LINE_MATCH are translated (tools/regen/gen_split_regex.py, fail-closed on a changed function body)']
ASSUMPTIONS = ['Python recursion limits are not modelled (RecursionError -> SQLParseError on very deep nesting)']

SW = {'strip_whitespace': True}
SP = {'use_space_around_operators': True}
OPTS = [('sw', SW), ('sp', SP), ('plain', {})]

STAGES = [('stripws', I.stripws_dump), ('spaces', I.spaces_dump), ('spacesws', I.spacesws_dump),
          ('stripsemi', I.stripsemi_dump), ('serialize', I.serialize_dump), ('serialize_raw', I.serialize_raw_dump),
          ('sun', I.sun_dump), ('format_sw', I.format_sw_dump), ('format_sp', I.format_sp_dump),
          ('format_spsw', I.format_spsw_dump), ('format_plain', I.format_plain_dump)]
STAGE_FN = dict(STAGES)


# ------------------------------------------------------------------------------------------------
# direct oracle on the real library
def _toks(s):
    from sqlparse import lexer
    return list(lexer.tokenize(s))


def _is_ws(tt):
    from sqlparse import tokens as T
    return tt in T.Whitespace


def _nonws(toks):
    return [(tt, v) for tt, v in toks if not _is_ws(tt)]


def _tt(tt):
    return '.'.join(tt)


def _seq_violation(inp_toks, out_toks):
    a, b = _nonws(inp_toks), _nonws(out_toks)
    if [v for _, v in a] == [v for _, v in b]:
        return None
    ja, jb = ''.join(v for _, v in a), ''.join(v for _, v in b)
    i = 0
    while i < len(a) and i < len(b) and a[i][1] == b[i][1]:
        i += 1
    at = _tt(a[i][0]) if i < len(a) else 'END'
    if ja == jb:
        kind = 'fused' if len(b) < len(a) else 'split'
        return kind, '%s: input token %d %r (%s) / output token %r' % (kind, i, a[i][1] if i < len(a) else None, at,
                                                                    b[i][1] if i < len(b) else None)
    return 'changed:' + at, 'input token %d %r (%s) became %r' % (i, a[i][1] if i < len(a) else None, at,
                                                                 b[i][1] if i < len(b) else None)


def violations(text):
    """Every kind of violation of C10 / C06 the input exhibits: list of dicts."""
    import sqlparse
    from sqlparse import tokens as T
    out = []
    inp = [ord(c) for c in text]

    def add(kind, opt, res, observed):
        out.append({'input': inp, 'kind': kind, 'options': opt, 'output': res, 'observed': observed})

    try:
        itoks = _toks(text)
    except Exception as e:  # noqa
        return [{'input': inp, 'kind': 'lexer_crash', 'options': {}, 'output': None, 'observed': repr(e)}]
    for name, opt in OPTS:
        try:
            res = sqlparse.format(text, **opt)
        except Exception as e:  # noqa
            add('crash:%s:%s' % (name, type(e).__name__), opt, None, repr(e))
            continue
        otoks = _toks(res)
        sv = _seq_violation(itoks, otoks)
        if sv:
            add('C06:%s:%s' % (name, sv[0]), opt, res, sv[1])
        if name == 'plain':
            continue
        # fixed point
        try:
            res2 = sqlparse.format(res, **opt)
        except Exception as e:  # noqa
            add('crash_on_output:%s:%s' % (name, type(e).__name__), opt, res, repr(e))
            res2 = res
        if res2 != res:
            add('not_fixed_point:' + name, opt, res, 'format(output) = %r' % res2)
        if name == 'sw':
            if res[:1].isspace():
                add('sw:leading_ws', opt, res, 'output starts with whitespace')
            if res[-1:].isspace():
                k = 'sw:trailing_ws' + (':after_comment' if otoks and otoks[-1][0] in T.Comment else '')
                add(k, opt, res, 'output ends with whitespace')
            for i in range(len(otoks) - 1):
                if _is_ws(otoks[i][0]) and _is_ws(otoks[i + 1][0]):
                    near = (i > 0 and otoks[i - 1][0] in T.Comment) or (i + 2 < len(otoks) and otoks[i + 2][0] in T.Comment)
                    add('sw:double_ws' + (':next_to_comment' if near else ''), opt, res,
                        'two adjacent whitespace tokens at token %d: %r %r' % (i, otoks[i][1], otoks[i + 1][1]))
                    break
            seen = set()
            # pair the parentheses of the output (an unmatched one is never grouped as a Parenthesis)
            matched, stack = set(), []
            for i, (tt, v) in enumerate(otoks):
                if tt is T.Punctuation and v == '(':
                    stack.append(i)
                elif tt is T.Punctuation and v == ')' and stack:
                    matched.add(stack.pop())
                    matched.add(i)
            for i, (tt, v) in enumerate(otoks):
                if tt is T.Punctuation and v == '(' and i + 1 < len(otoks) and _is_ws(otoks[i + 1][0]):
                    near = i + 2 < len(otoks) and otoks[i + 2][0] in T.Comment
                    k = 'sw:blank_after_lparen' + (':next_to_comment' if near else '') + ('' if i in matched else ':unmatched')
                    if k not in seen:
                        seen.add(k)
                        add(k, opt, res, 'whitespace after ( at token %d' % i)
                if tt is T.Punctuation and v == ')' and i >= 1 and _is_ws(otoks[i - 1][0]):
                    near = (i >= 2 and otoks[i - 2][0] in T.Comment) or (i + 1 < len(otoks) and otoks[i + 1][0] in T.Comment)
                    k = 'sw:blank_before_rparen' + (':next_to_comment' if near else '') + ('' if i in matched else ':unmatched')
                    if k not in seen:
                        seen.add(k)
                        add(k, opt, res, 'whitespace before ) at token %d' % i)
        if name == 'sp':
            seen = set()
            for i, (tt, v) in enumerate(otoks):
                if tt in T.Operator:
                    left = _is_ws(otoks[i - 1][0]) if i > 0 else None
                    right = _is_ws(otoks[i + 1][0]) if i + 1 < len(otoks) else None
                    for side, ok in (('left', left), ('right', right)):
                        if ok is None:
                            k = 'sp:operator_at_edge:' + side
                        elif not ok:
                            k = 'sp:no_ws_%s_of:%s' % (side, _tt(tt))
                        else:
                            continue
                        if k not in seen:
                            seen.add(k)
                            add(k, opt, res, 'operator %r (token %d) has no whitespace on the %s' % (v, i, side))
    return out


def oracle(text):
    v = violations(text)
    return v[0] if v else None


def oracle_kind(kind):
    def f(text):
        for v in violations(text):
            if v['kind'] == kind:
                return v
        return None
    return f


# ------------------------------------------------------------------------------------------------
def _impl_chunk(args):
    stage, texts = args
    fn = STAGE_FN[stage]
    return [fn(s) for s in texts]


def impl_parallel(stage, texts, nproc=None):
    nproc = nproc or vlib.NPROC
    n = max(1, min(nproc, (len(texts) + 199) // 200))
    if n == 1:
        return _impl_chunk((stage, texts))
    chunks = [texts[i::n] for i in range(n)]
    with concurrent.futures.ProcessPoolExecutor(n) as ex:
        results = list(ex.map(_impl_chunk, [(stage, c) for c in chunks]))
    out = [None] * len(texts)
    for k, res in enumerate(results):
        out[k::n] = res
    return out


def corr(stage, texts):
    replies = vlib.run_model([f'{stage} {vlib.cps(s)}' for s in texts])
    mine = impl_parallel(stage, texts)
    dis = []
    for s, r, m in zip(texts, replies, mine):
        if m != r:
            dis.append({'stage': stage, 'input': [ord(c) for c in s], 'impl': m[:400], 'model': r[:400]})
    return dis, mine


def shrink_disagreement(d):
    stage = d['stage']
    fn = STAGE_FN[stage]

    def fails(s):
        r = vlib.run_model([f'{stage} {vlib.cps(s)}'])[0]
        m = fn(s)
        return {'stage': stage, 'input': [ord(c) for c in s], 'impl': m[:400], 'model': r[:400]} if m != r else None
    _, best = common.shrink_text(''.join(map(chr, d['input'])), fails)
    return best or d


def _viol_chunk(texts):
    return [violations(s) for s in texts]


def sweep(texts, nproc=None):
    """violations of all texts (in parallel) -> {kind: [violation, ...]}"""
    nproc = nproc or vlib.NPROC
    n = max(1, min(nproc, (len(texts) + 199) // 200))
    chunks = [texts[i::n] for i in range(n)]
    if n == 1:
        results = [_viol_chunk(chunks[0])]
    else:
        with concurrent.futures.ProcessPoolExecutor(n) as ex:
            results = list(ex.map(_viol_chunk, chunks))
    kinds = collections.defaultdict(list)
    for res in results:
        for vs in res:
            for v in vs:
                kinds[v['kind']].append(v)
    return kinds


def known_kinds():
    return {k.get('kind') for k in vlib.load_known_findings() if k.get('property') in ('C10', 'C06', 'C10_ws')}


def run(ctx):
    n = ctx.n(1200, 40000)
    texts, dist = gens_ws.ws_texts(ctx.rng, n)
    texts = common.corpus('filters_ws') + texts
    res = {'disagreements': [], 'failures': []}
    res['failures'] += common.threshold_failures('C10', ctx.quick())
    shapes = set()
    per_stage = {}
    for stage, _ in STAGES:
        dis, dumps = corr(stage, texts)
        per_stage[stage] = {'compared': len(texts), 'disagreements': len(dis),
                            'impl_errors': sum(1 for d in dumps if d.startswith('ERR'))}
        if dis:
            dis = [shrink_disagreement(dis[0])] + dis[1:20]
        res['disagreements'] += dis
        if stage in ('stripws', 'spaces'):
            for d in dumps:
                if 'G' in d[3:].replace('GStatement', ''):
                    shapes.add(common.tree_shape(d))
    # second evaluation route: the KERNEL evaluates the formatting models (strip_whitespace, use_space_around_operators,
    # reindent) on a sample and the final strings are compared with sqlparse.format (tools/kernel_corr.py, Inst/EncodeFmt.v)
    for st in ('fmt_sw', 'fmt_sp', 'fmt_ri'):
        per_stage['kernel-' + st] = {'compared': common.kernel_route(ctx, st, texts, res)}
    # every parsed statement satisfies the hypothesis of stripws_total
    wf = vlib.run_model([f'swwf {vlib.cps(s)}' for s in texts])
    not_wf = [s for s, r in zip(texts, wf) if not r.startswith('OK') or '0' in r[3:]]
    per_stage['swwf'] = {'compared': len(texts), 'not_wf': len(not_wf)}
    # the one way a parsed statement is known to miss the hypothesis: a Parenthesis that a later pass (group_as,
    # group_typecasts, group_assignment) wrapped into ONE child -- `( as )`: the filter then leaves it alone (it raised
    # IndexError until the fix of C07-RX-1) and the blanks next to the parentheses survive: finding C10-WS-9
    other = [s for s in not_wf if not _single_child_paren(s)]
    wrapped = [s for s in not_wf if _single_child_paren(s)]
    per_stage['swwf']['single_child_parenthesis'] = len(wrapped)
    if wrapped:
        res['failures'].append({'input': [ord(c) for c in wrapped[0]], 'kind': 'sw:parenthesis-wrapped-by-later-pass',
                                'options': {'strip_whitespace': True},
                                'observed': 'a Parenthesis with a single child (a later pass wrapped `(`, a keyword and `)` into '
                                            'one group): the hypothesis of stripws_total does not hold and the blanks next to the '
                                            'parentheses are kept'})
    if other:
        res['disagreements'].append({'stage': 'sw_wf fails on a parsed statement', 'input': [ord(c) for c in other[0]]})
    # the normal-form / fixed-point oracle quantifies over scripts of the verification grammar: junk, unicode soup and
    # spliced texts are used for the correspondence stages only
    gtexts = []
    while len(gtexts) < ctx.n(1200, 20000):
        t, k = gens_ws.ws_text(ctx.rng)
        if k in GRAMMAR_KINDS and len(t) <= 1500:
            gtexts.append(t)
    kinds = sweep(gtexts)
    res['failures'] += _pick_failures(kinds)
    res.update({
        'evaluations': len(texts) * (len(STAGES) + 2),
        'distinct_nontrivial': len(shapes),
        'rule': 'whitespace-rich inputs (tools/gen/gens_ws.py); per stage the canonical dump of the extracted model is '
                'compared with the same dump computed by /repo (tree after parse+filter incl. cached group values; '
                'serializer output per statement; final string of sqlparse.format for strip_whitespace / '
                'use_space_around_operators / both / no option); distinct_nontrivial = distinct tree shapes after a filter',
        'samples': [t[:120] for t in texts[:5]],
        'traces_validated_against_impl': len(texts) * len(STAGES),
        'distribution': {'generator': dict(dist), 'length_histogram': common.length_hist(texts), 'per_stage': per_stage,
                         'violation_kinds': {k: len(v) for k, v in sorted(kinds.items())}},
    })
    return res


def run_oracle_only(ctx):
    texts, dist = gens_ws.ws_texts(ctx.rng, ctx.n(5000, 40000))
    kinds = sweep(texts)
    return {'failures': _pick_failures(kinds), 'evaluations': len(texts), 'distinct_nontrivial': 0,
            'rule': 'oracle only (model unavailable)', 'samples': texts[:3]}


# ---- known findings: a failure belongs to one only if the MECHANISM of that finding is present --------------------
GRAMMAR_KINDS = ('sql_ws', 'template', 'proc_ws', 'mixed:sql')


def _txt_in(f):
    return ''.join(map(chr, f.get('input', [])))


def _has_comment(text):
    from sqlparse import tokens as T
    try:
        return any(tt in T.Comment for tt, _ in _toks(text))
    except Exception:  # noqa
        return False


def _ws_before_comma(text):
    from sqlparse import tokens as T
    try:
        toks = _toks(text)
    except Exception:  # noqa
        return False
    return any(_is_ws(toks[i][0]) and toks[i + 1][0] is T.Punctuation and toks[i + 1][1] == ','
               for i in range(len(toks) - 1))


def _operator_before_newline(text):
    from sqlparse import tokens as T
    try:
        toks = _toks(text)
    except Exception:  # noqa
        return False
    for i, (tt, v) in enumerate(toks):
        if tt in T.Operator or tt in T.Wildcard:
            j = i + 1
            while j < len(toks) and toks[j][0] in T.Whitespace and toks[j][0] not in T.Newline:
                j += 1
            if j < len(toks) and toks[j][0] in T.Newline:
                return True
    return False


def _unspaced_operators_at_group_edge(res):
    """Every operator of the output that lacks whitespace on a side is the first/last child of its group on that side
    (the filter looks for neighbours inside the operator's own token list only; a statement is such a list too)."""
    import sqlparse
    from sqlparse import tokens as T
    try:
        stmts = sqlparse.parse(res)
    except Exception:  # noqa
        return False
    leaves = [t for st in stmts for t in st.flatten()]
    ok, found = True, False
    for i, t in enumerate(leaves):
        if t.ttype in T.Operator:
            left = i > 0 and leaves[i - 1].is_whitespace
            right = i + 1 < len(leaves) and leaves[i + 1].is_whitespace
            if left and right:
                continue
            found = True
            par = t.parent
            idx = par.token_index(t)
            if not left and idx != 0 and i > 0:
                ok = False
            if not right and idx != len(par.tokens) - 1 and i + 1 < len(leaves):
                ok = False
    return found and ok


def _has_go(text):
    from sqlparse import tokens as T
    try:
        return any(tt is T.Keyword and v.split()[0] == 'GO' for tt, v in _toks(text))
    except Exception:  # noqa
        return False


def _operator_after_comment_group(text):
    """in parse(text) an Operator / Comparison token directly follows a Comment GROUP (which owns the line breaks after the
    comment): its previous sibling is then no whitespace token although a line break is written in front of it"""
    import sqlparse
    from sqlparse import sql, tokens as T
    try:
        stmts = sqlparse.parse(text)
    except Exception:  # noqa
        return False

    def walk(g):
        prev = None
        for t in g.tokens:
            # the previous sibling is a GROUP that ends with a Comment group (the comment itself, or the Identifier /
            # Function / ... that align_comments attached it to) whose text ends in white space (a Newline child, or the
            # line end inside a `--` comment token)
            if t.ttype in (T.Operator, T.Comparison) and prev is not None and prev.is_group and str(prev)[-1:].isspace():
                x = prev
                while x is not None and x.is_group:
                    if isinstance(x, sql.Comment):
                        return True
                    x = x.tokens[-1] if x.tokens else None
            if t.is_group and walk(t):
                return True
            prev = t
        return False
    return any(walk(s) for s in stmts)


def _single_child_paren(text):
    import sqlparse
    from sqlparse import sql
    try:
        stmts = sqlparse.parse(text)
    except Exception:  # noqa
        return False

    def walk(g):
        for t in g.tokens:
            if t.is_group:
                if isinstance(t, sql.Parenthesis) and len(t.tokens) < 2:
                    return True
                if walk(t):
                    return True
        return False
    return any(walk(s) for s in stmts)


def _sp_makes_hash_comment(f):
    """use_space_around_operators put a blank behind the operator '#': in the INPUT some Operator token ends in '#' and is
    directly followed by something that is no white space, and the OUTPUT re-lexes with a '# ' comment at a place where the
    input has none (finding C06-hash-operator-becomes-comment seen from C10: the normal forms are read off the re-lexed
    output, in which the rest of the line is a comment)"""
    from sqlparse import lexer, tokens as T
    text = ''.join(map(chr, f.get('input', [])))
    out = f.get('output') or ''
    try:
        toks = list(lexer.tokenize(text))
        otoks = list(lexer.tokenize(out))
    except Exception:  # noqa
        return False
    glued = any(tt in T.Operator and v.endswith('#') and i + 1 < len(toks) and not toks[i + 1][1][:1].isspace()
                for i, (tt, v) in enumerate(toks))
    n_in = sum(1 for tt, v in toks if tt in T.Comment and v.startswith('#'))
    n_out = sum(1 for tt, v in otoks if tt in T.Comment and v.startswith('#'))
    return glued and n_out > n_in


CLASS_PRED = {
    'sw-parenthesis-wrapped-by-later-pass': lambda f: f.get('kind') in ('sw:parenthesis-wrapped-by-later-pass',
                                                                        'sw:blank_after_lparen', 'sw:blank_before_rparen')
    and _single_child_paren(''.join(map(chr, f.get('input', [])))),
    'sp-hash-operator-becomes-comment': lambda f: str(f.get('kind', '')).startswith(('sp:', 'not_fixed_point:sp'))
    and _sp_makes_hash_comment(f),
    # use_space_around_operators, text level: the comment's Comment group takes the line break that follows it; in the
    # re-parsed output the operator's previous sibling is that group, not a whitespace token: a blank is added on the 2nd run
    'sp-not-fixed-point-after-comment': lambda f: f.get('kind') == 'not_fixed_point:sp'
    and _operator_after_comment_group(f.get('output') or ''),
    # strip_whitespace is not a fixed point: (a) a line break before a comma is removed AFTER blanks were collapsed
    # ('a  ,b' -> 'a ,b' -> 'a,b'); (b) a comment swallows the line breaks that follow it
    'sw-not-fixed-point-comma-or-comment': lambda f: f.get('kind') == 'not_fixed_point:sw'
    and (_ws_before_comma(f.get('output') or '') or _has_comment(f.get('output') or '')),
    # use_space_around_operators is not a fixed point / leaves no blank: the test is `ttype != T.Whitespace`, so a
    # Newline after an operator counts as "no whitespace" and a blank is inserted on every run
    'sp-newline-after-operator': lambda f: f.get('kind') in ('not_fixed_point:sp',)
    and _operator_before_newline(f.get('output') or ''),
    # strip_whitespace normal form next to a comment (the Comment group owns the following line breaks / is pulled
    # into the parenthesis)
    'sw-normal-form-next-to-comment': lambda f: bool(re.match(r'^sw:(double_ws|trailing_ws|blank_before_rparen|blank_after_lparen)'
                                                              r':(next_to_comment|after_comment)', f.get('kind', ''))),
    # an operator that is the first/last child of its group gets no blank on that side
    'sp-operator-at-group-edge': lambda f: bool(re.match(r'^sp:(no_ws_(left|right)_of|operator_at_edge)', f.get('kind', '')))
    and (f.get('kind', '').startswith('sp:operator_at_edge') or _unspaced_operators_at_group_edge(f.get('output') or '')),
    # unmatched parentheses are never grouped as a Parenthesis
    'sw-unmatched-parenthesis': lambda f: f.get('kind', '').startswith('sw:blank_') and f.get('kind', '').endswith(':unmatched'),
}


def classify(failure, known):
    for k in known:
        p = CLASS_PRED.get(k.get('class'))
        if p is None:
            continue
        try:
            if p(failure):
                return k['id']
        except Exception:  # noqa
            continue
    return None


def rederive_known(k):
    if k.get('class') not in CLASS_PRED:
        return None
    w = k.get('witness', {})
    text = w.get('text') or ''.join(map(chr, w.get('input', [])))
    for v in violations(text):
        if classify(v, [k]) == k['id']:
            return v
    return None


def _c10_kinds(kinds):
    """C06 token-sequence kinds are decided by the C06 check, crashes by C07: here only the C10 normal forms/fixed points."""
    return {k: vs for k, vs in kinds.items() if not k.startswith('C06:') and not k.startswith('crash')}


def _pick_failures(kinds):
    """Per kind: an instance that belongs to no listed finding if there is one (a NEW violation), else one known instance."""
    known = [k for k in vlib.load_known_findings() if k.get('property') == 'C10' and k.get('status') == 'open']
    out = []
    for kind, vs in sorted(_c10_kinds(kinds).items()):
        new = None
        for v in vs[:400]:
            if classify(v, known) is None:
                new = v
                break
        out.append(new or vs[0])
    return out


def search(ctx, hints):
    fails = []
    tried = 0
    for d in hints.get('disagreements', []):
        if 'input' in d:
            tried += 1
            f = oracle(''.join(map(chr, d['input'])))
            if f:
                fails.append(f)
                break
    t0 = time.time()
    budget = ctx.n(60, 600)
    while not fails and time.time() - t0 < budget:
        texts, _ = gens_ws.ws_texts(ctx.rng, 500)
        tried += len(texts)
        kinds = sweep(texts)
        known = [k for k in vlib.load_known_findings() if k.get('property') == 'C10' and k.get('status') == 'open']
        fails = [v for v in _pick_failures(kinds) if classify(v, known) is None]
    return {'failures': fails[:1], 'tried': tried}


def shrink(f):
    if not f or 'input' not in f:
        return f
    s = ''.join(map(chr, f['input']))
    _, best = common.shrink_text(s, oracle_kind(f['kind']))
    return best or f


def replay(payload):
    _f = payload.get('failure') or {}
    if _f.get('threshold_input'):
        return common.threshold_replay('C10', _f)
    f = payload.get('failure')
    if not f or 'input' not in f:
        return {'fails': False, 'note': 'no concrete input in replay file: ' + str(payload.get('no_longer_checks'))}
    s = ''.join(map(chr, f['input']))
    g = oracle_kind(f['kind'])(s) if f.get('kind') else oracle(s)
    return {'fails': bool(g), 'observed': g}


def main():
    import random
    n = int(sys.argv[sys.argv.index('--search') + 1]) if '--search' in sys.argv else 5000
    seed = int(os.environ.get('VERIF_SEED', '0'))
    rng = random.Random('C10_ws:%d' % seed)
    texts, dist = gens_ws.ws_texts(rng, n)
    t0 = time.time()
    kinds = sweep(texts)
    print('inputs', len(texts), dict(dist), 'sweep %.1fs' % (time.time() - t0))
    for k, vs in sorted(kinds.items()):
        # shrink the shortest few and keep the smallest
        cands = sorted(vs, key=lambda v: len(v['input']))[:3]
        best = None
        for v in cands:
            w = shrink(v)
            if best is None or len(w['input']) < len(best['input']):
                best = w
        print('KIND %-45s count=%-5d input=%r options=%r output=%r :: %s' % (
            k, len(vs), ''.join(map(chr, best['input'])), best['options'], best['output'], best['observed']))


if __name__ == '__main__':
    main()
