"""C19 (command line part) - `sqlformat FILE|- [--encoding E] [flags] [-o OUT]` writes exactly what format() returns
for the decoded text and the options the flags stand for.

Model: Gen/CliTab.v (create_parser() and the open modes of main(), regenerated from sqlparse/cli.py),
Sys/CliDefs.v (argparse subset + main), theorems Sys/CliFacts.v, Props/C19cli.v.
Correspondence (model vs the real sqlparse.cli, in-process):
  cliargs  parse_args(argv)                       -> namespace / SystemExit code
  cliopts  validate_options(vars(parse_args()))   -> the dictionary handed to format
  climain  main(argv) with sqlparse.format replaced from outside by a marker function, real temp files,
           patched stdin/stdout                   -> status, which _error, stdout text, -o file bytes
Direct oracle (whole property, real formatter): for every flag of create_parser() x every spelling x values x
{file, stdin} x {stdout, -o} x encodings, and random combinations: the output must be
format(decoded text, **options the flags MEAN).

A case is {'kind':'cli', 'text':[code points], 'enc': name, 'flags':[argv...], 'meant':{option: value},
           'inp':'file'|'stdin', 'out':'stdout'|'outfile'}; a failure is the case + 'observed','expected','class'.
"""
import codecs
import collections
import io
import os
import shutil
import sys
import tempfile
import time
import warnings

import vlib
import gens
import gens_cli as GC
import gens_frontends as GF
import impl_cli as IC
from props import common

THEOREMS = [
    'Props/C19cli.v: C19cli_options_spec (argv = documented flag uses (any order, any spelling, `flag value` or '
    '`flag=value`, repeats) around one file name -> the namespace is the default namespace updated with option := value '
    'for every use, the last use winning)',
    'C19cli_flag_lookup (corollary: the option a single documented use sets, everything else at its default)',
    'C19cli_defaults_off (the dictionary the CLI passes when no flag is given builds the same filter stack as format() '
    'with no options: Gen/OptTab.v validate_options + build_filter_stack, vm_compute)',
    'C19cli_semantics_family (2^8 boolean flags x case/language choices x a grid of widths: filter stack of the CLI '
    'dictionary = filter stack of the meant dictionary)',
    'C19cli_writes_format (+ _file_stdout/_file_outfile/_stdin_stdout/_stdin_outfile): no CR in the text, encodable '
    'result -> exit 0 and the chosen channel holds encode(enc, format(decode(enc, input), options)); any format function',
    'C19cli_default_encoding_utf8 (the --encoding default is utf-8 and all three open sites use args.encoding)',
    'refutations with witnesses: C19cli_newlines_refuted, C19cli_bool_flag_refuted, C19cli_unencodable_refuted; '
    'C19cli_newlines_current / C19cli_output_encoding_current (which behaviour the current source has)',
]
TRUSTED = [
    'Sys/CliDefs.v: hand-written model of the CPython 3.12 argparse subset used by create_parser() and of main(); '
    'validated against the real sqlparse.cli in-process (this module)',
    'tools/regen/gen_cli.py: add_argument calls and the statement shape of main() read off the AST, cross-checked '
    'against the parser object; fail-closed',
    'codecs other than utf-8/latin-1 (6 spellings) are abstract: a decoder/encoder pair with its round-trip law',
]
ASSUMPTIONS = [
    'POSIX: os.linesep == "\\n" (writing with newline=None translates nothing)',
    'sys.stdout accepts every str (its encoding is the environment\'s; compared as text)',
    'argv strings contain no NUL and no lone surrogates (what the OS can deliver); file names shorter than NAME_MAX',
    'usage/help/version texts and the wording of the [ERROR] messages are not modelled (exit status and which _error only)',
    'encoding=None (locale) is Stuck in the model; unreachable while --encoding has a str default',
]

CLI_ENCODINGS = ['utf-8', 'latin-1', 'gbk', 'cp1251']
BOOL_MEANT = {'True': True, 'true': True, '1': True, 'False': False, 'false': False, '0': False, '': False}
MODEL_NPROC = int(os.environ.get('VERIF_NPROC', '4'))

# the documented meaning of the sqlformat flags (help texts of create_parser(), docs/source/api.rst): flag -> option of
# sqlparse.format.  The expectation must NOT be read off argparse's `dest`.
FLAG_TO_OPTION = {
    '-k': 'keyword_case', '--keywords': 'keyword_case', '-i': 'identifier_case', '--identifiers': 'identifier_case',
    '-l': 'output_format', '--language': 'output_format', '--strip-comments': 'strip_comments',
    '-r': 'reindent', '--reindent': 'reindent', '--indent_width': 'indent_width',
    '--indent_after_first': 'indent_after_first', '--indent_columns': 'indent_columns',
    '-a': 'reindent_aligned', '--reindent_aligned': 'reindent_aligned',
    '-s': 'use_space_around_operators', '--use_space_around_operators': 'use_space_around_operators',
    '--wrap_after': 'wrap_after', '--comma_first': 'comma_first', '--compact': 'compact',
}


# =================================================================================================
# correspondence: model vs real cli
class Sandbox:
    """A scratch directory tree for one climain case: in.sql, in2.sql, sub/ (a directory), sub/in3.sql."""

    def __init__(self):
        self.root = tempfile.mkdtemp(prefix='c19cli')
        self.k = 0
        self.cwd = None

    def fresh(self, files):
        if self.cwd:
            shutil.rmtree(self.cwd, ignore_errors=True)
        self.k += 1
        self.cwd = os.path.join(self.root, 'c%d' % self.k)
        os.makedirs(os.path.join(self.cwd, 'sub'))
        for name, data in files.items():
            with open(os.path.join(self.cwd, name), 'wb') as f:
                f.write(data)
        return self.cwd

    def close(self):
        shutil.rmtree(self.root, ignore_errors=True)


def case_paths(cwd):
    return {'in': ['in.sql', 'in2.sql', os.path.join(cwd, 'in.sql'), 'sub/in3.sql'],
            'missing': ['missing.sql', 'sub', '.', os.path.join(cwd, 'nope.sql'), 'nodir/x.sql'],
            'out_ok': ['out.sql', 'o', os.path.join(cwd, 'out2.sql'), 'sub/o.sql'],
            'out_bad': ['sub', 'nodir/o.sql', '.', '', os.path.join(cwd, 'sub')]}


def fs_spec(cwd, files):
    items = []
    for name, data in files.items():
        for p in (name, os.path.join(cwd, name)):
            items.append('r' + IC.cps(p) + '=' + IC.cpsb(data))
    for p in ('sub', '.', '..', os.path.join(cwd, 'sub'), cwd):
        items.append('u' + IC.cps(p))
    for p in (os.path.join(cwd, 'out2.sql'), 'sub/o.sql', os.path.join(cwd, 'in.sql'), 'sub/in3.sql'):
        items.append('w' + IC.cps(p))
    return ';'.join(items)


def norm_reply(cwd, reply):
    """Rewrite the path of `file=<path>=<bytes>` in a model reply relative to cwd (as impl_cli reports it)."""
    head, sep, f = reply.rpartition(' file=')
    if not sep or f == 'none' or '=' not in f:
        return reply
    p, b = f.split('=', 1)
    return head + sep + IC.cps(IC.norm_path(cwd, vlib.uncps(p))) + '=' + b


def outside_table(argv):
    """Does the encoding the real parser ends up with name a codec Python knows but the model keeps abstract?"""
    from sqlparse import cli
    with IC.patched_stdio(b''):
        try:
            ns = cli.create_parser().parse_args(list(argv))
        except SystemExit:
            return False
    e = ns.encoding
    if not isinstance(e, str) or e in GC.ENC_TABLE:
        return False
    try:
        codecs.lookup(e)
        return True
    except (LookupError, ValueError):
        return False


def corr_args(ctx, n, res):
    g = GC.ArgvGen(ctx.rng, case_paths('/tmp/x'))
    cases = [g.argv() if ctx.rng.random() < 0.6 else g.clean_argv(ctx.rng.choice([None, 'latin-1', 'utf8', 'x']))
             for _ in range(n)]
    fixed = [[], ['f'], ['-'], ['--'], ['--', '-r'], ['--', '--'], ['f', '--'], ['f', '--', 'g'], ['-r', '--', 'f'], ['-h'],
             ['--version', '--in'], ['--in', '--version'], ['-k', 'bad', '--version'], ['--version', '-k', 'bad'],
             ['-ra', 'f'], ['-rkupper', 'f'], ['-rk', 'upper', 'f'], ['-rh'], ['-hr'], ['-hx'], ['-r=1', 'f'], ['-r=', 'f'],
             ['--reindent=x', 'f'], ['--reinden', 'f'], ['--reindent_', 'f'], ['--key=upper', 'f'], ['--k', 'f'],
             ['-k=upper', 'f'], ['-kupper', 'f'], ['-ro=x', 'f'], ['-r-', 'f'], ['--encoding=--', 'f'], ['-o--', 'f'],
             ['--indent_width=--', 'f'], ['-k=--', 'f'], ['--comma_first', '', 'f'], ['--comma_first', 'False', 'f'],
             ['--indent_width', '-1', 'f'], ['--indent_width', '-1\n', 'f'], ['-1'], ['-1.5', '-r'], ['-x y'], ['-1x'],
             ['--indent_width', '9' * 4300, 'f'], ['--indent_width', '9' * 4301, 'f'], ['--=x', 'f'], ['-=', 'f'],
             ['--encoding', '-x', 'f'], ['-k', '-', 'f'], ['f', 'g'], ['-r'], ['--wrap_after', ' 7 ', 'f'],
             ['--wrap_after', '٣', 'f'], ['-l', 'php', '-l', 'python', 'f'], ['--strip', 'f'], ['--in=3', 'f'],
             ['--indent_w', '3', 'f'], ['--indent_c', 'f'], ['--e', 'latin-1', 'f'], ['--h'], ['--v'], ['--o', 'x', 'f']]
    cases = [(a, ['fixed']) for a in fixed] + cases
    dist = collections.Counter()
    n_dis = 0
    for cmd, fn in (('cliargs', IC.cliargs_dump), ('cliopts', IC.cliopts_dump)):
        replies = vlib.run_model([IC.request(cmd, IC.argv_items(a)) for a, _ in cases], nproc=MODEL_NPROC)
        for (a, tags), rep in zip(cases, replies):
            mine = fn(a)
            if cmd == 'cliargs':
                dist[mine.split(' ')[0] + (' ' + mine.split(' ')[1] if mine.startswith('EXIT') else '')] += 1
                for t in tags:
                    dist['tag:' + t] += 1
            if mine != rep:
                n_dis += 1
                if n_dis <= 20:
                    res['disagreements'].append({'stage': cmd, 'argv': a, 'impl': mine[:300], 'model': rep[:300]})
    return 2 * len(cases), dist


def corr_main(ctx, n, res):
    r = ctx.rng
    sb = Sandbox()
    dist = collections.Counter()
    tagd = collections.Counter()
    skipped = 0
    try:
        prepared = []
        for _ in range(n):
            text, ttags = GC.input_text(r, ctx.n(120, 300))
            data, how = GC.input_bytes(r, text)
            text2, _ = GC.input_text(r, 40)
            files = {'in.sql': data, 'in2.sql': text2.encode('utf-8', 'surrogatepass'), 'sub/in3.sql': data[::-1]}
            stdin_text, _ = GC.input_text(r, 60)
            stdin_bytes = r.choice([data, stdin_text.encode('utf-8', 'surrogatepass')])
            prepared.append((files, stdin_bytes, how, ttags))
        # the argv needs the absolute paths of the case directory: directories are numbered deterministically
        reqs, argvs = [], []
        for k, (files, stdin_bytes, how, ttags) in enumerate(prepared):
            cwd = os.path.join(sb.root, 'c%d' % (k + 1))
            g = GC.ArgvGen(r, case_paths(cwd))
            if r.random() < 0.6:
                # well-formed command lines; the encoding mostly matches the bytes (alias spellings included)
                x = r.random()
                if how == 'latin-1':
                    enc = r.choice(['latin-1', 'latin1', 'iso-8859-1']) if x < 0.85 else r.choice([None, 'utf-8'])
                elif how == 'utf-8':
                    enc = (None if x < 0.4 else r.choice(['utf-8', 'utf8', 'UTF-8'])) if x < 0.8 else \
                        r.choice(['latin-1', 'bogus-enc', 'ascii'])
                else:
                    enc = r.choice([None, 'latin-1', 'utf-8'])
                argv, atags = g.clean_argv(enc)
            else:
                argv, atags = g.argv()
                if how in ('utf-8', 'latin-1') and r.random() < 0.5 and not any(a.startswith('--e') for a in argv):
                    argv += ['--encoding', how]
            argvs.append((argv, atags))
            reqs.append(IC.request('climain', [IC.cpsb(stdin_bytes), fs_spec(cwd, files)] + IC.argv_items(argv)))
        replies = vlib.run_model(reqs, nproc=MODEL_NPROC)
        n_dis = 0
        for (files, stdin_bytes, how, ttags), (argv, atags), rep in zip(prepared, argvs, replies):
            cwd = sb.fresh(files)
            if outside_table(argv):
                skipped += 1
                continue
            mine = IC.climain_dump(argv, stdin_bytes, cwd)
            rep = norm_reply(cwd, rep)
            key = ' '.join(mine.split(' ')[:3])
            dist[key] += 1
            for t in ttags + atags + ['bytes:' + how]:
                tagd[t] += 1
            dist['channel:' + ('outfile' if ' file=none' not in mine else 'stdout/none')] += 1
            if mine != rep:
                n_dis += 1
                if n_dis <= 20:
                    res['disagreements'].append({'stage': 'climain', 'argv': argv, 'stdin': list(stdin_bytes),
                                                 'files': {k: list(v) for k, v in files.items()},
                                                 'impl': mine[:400], 'model': rep[:400]})
    finally:
        sb.close()
    return n - skipped, skipped, dist, tagd


# =================================================================================================
# the direct oracle on the real command line + real formatter (moved from props/C19.py)
def doc_option(a):
    for o in a.option_strings:
        if o in FLAG_TO_OPTION:
            return FLAG_TO_OPTION[o]
    return a.dest


def cli_actions():
    """(action, kind) for every option of cli.create_parser(); unknown kinds are reported."""
    import argparse
    from sqlparse import cli
    p = cli.create_parser()
    out = []
    unknown = []
    for a in p._actions:
        if isinstance(a, (argparse._HelpAction, argparse._VersionAction)):
            continue
        if a.dest in ('filename', 'outfile', 'encoding'):
            continue
        if isinstance(a, argparse._StoreTrueAction):
            out.append((a, 'flag'))
        elif isinstance(a, argparse._StoreAction) and a.choices:
            out.append((a, 'choice'))
        elif isinstance(a, argparse._StoreAction) and a.type is int:
            out.append((a, 'int'))
        elif isinstance(a, argparse._StoreAction) and a.type is bool:
            out.append((a, 'bool'))
        else:
            unknown.append(a.dest)
    return out, unknown


def flag_values(a, kind):
    """[(argv pieces, value the user means)] -- for every spelling of the flag"""
    out = []
    for opt in a.option_strings:
        if kind == 'flag':
            out += [([opt], True)]
        elif kind == 'choice':
            out += [([opt, c], c) for c in a.choices]
            out += [([opt + '=' + a.choices[0]], a.choices[0])]
        elif kind == 'int':
            out += [([opt, str(v)], v) for v in ((0, 1, 2, 4, 30) if opt == a.option_strings[-1] else (2,))]
            out += [([opt + '=3'], 3)]
        elif kind == 'bool':
            out += [([opt, v], BOOL_MEANT[v]) for v in ('True', 'False', '1', '')]
        else:
            raise ValueError(kind)
    return out


def run_cli(argv, stdin_bytes=None):
    """sqlparse.cli.main(argv) with patched stdin/stdout/stderr; returns (rc, stdout text, stderr text)."""
    from sqlparse import cli
    with IC.patched_stdio(stdin_bytes or b'') as box:
        try:
            with warnings.catch_warnings():
                warnings.simplefilter('ignore')
                rc = cli.main(argv)
        except SystemExit as e:
            rc = 'exit %r' % (e.code,)
        except RecursionError:
            raise
        except Exception as e:  # noqa
            rc = 'EXC ' + type(e).__name__
    return rc, box['out'], box['err']


def universal_newlines(s):
    return s.replace('\r\n', '\n').replace('\r', '\n')


def expected_cli(decoded, meant):
    import sqlparse
    from sqlparse.exceptions import SQLParseError
    try:
        with warnings.catch_warnings():
            warnings.simplefilter('ignore')
            return 'OK', sqlparse.format(decoded, **meant)
    except SQLParseError as e:
        return 'INVALID', str(e)


def oracle_cli(case, workdir=None):
    """Expected: what format(decoded text, **options the flags mean) returns, on the chosen channel, in the
    same encoding (stdout is compared as text: sys.stdout has its own encoding)."""
    text = ''.join(map(chr, case['text']))
    enc = case['enc']
    data = text.encode(enc)
    own = workdir is None
    d = workdir or tempfile.mkdtemp(prefix='c19cli')
    try:
        inp = os.path.join(d, 'in.sql')
        outp = os.path.join(d, 'out.sql')
        if os.path.exists(outp):
            os.remove(outp)
        argv = []
        stdin_bytes = None
        if case['inp'] == 'file':
            with open(inp, 'wb') as f:
                f.write(data)
            argv.append(inp)
        else:
            argv.append('-')
            stdin_bytes = data
        argv += list(case['flags'])
        if enc != 'utf-8' or case.get('explicit_enc'):
            argv += ['--encoding', enc]
        if case['out'] == 'outfile':
            argv += ['-o', outp]
        rc, out, err = run_cli(argv, stdin_bytes)
        if case['out'] == 'outfile':
            try:
                with open(outp, 'rb') as f:
                    got_bytes = f.read()
            except OSError:
                got_bytes = None
        else:
            got_bytes = None
    finally:
        if own:
            shutil.rmtree(d, ignore_errors=True)

    meant = dict(case['meant'])

    def want(decoded, opts):
        st, exp = expected_cli(decoded, opts)
        if st == 'INVALID':
            return ('INVALID',)
        if case['out'] == 'outfile':
            try:
                return ('OK', exp.encode(enc))
            except UnicodeEncodeError:
                return ('UNENCODABLE',)
        return ('OK', exp)

    def matches(w):
        if w[0] == 'INVALID':
            return rc == 1 and err.startswith('[ERROR] Invalid options') and out == ''
        if w[0] == 'UNENCODABLE':
            return False
        if case['out'] == 'outfile':
            return rc == 0 and got_bytes == w[1] and out == ''
        return rc == 0 and out == w[1]

    w0 = want(text, meant)
    if matches(w0):
        return None
    # explain the deviation by the known mechanisms
    acts = {o: (a, k) for a, k in cli_actions()[0] for o in a.option_strings}
    flagged = {}
    fl = list(case['flags'])
    i = 0
    while i < len(fl):
        a, k = acts.get(fl[i], (None, None))
        if k == 'bool' and i + 1 < len(fl):
            flagged[doc_option(a)] = bool(fl[i + 1])      # what type=bool makes of the string
            i += 2
        else:
            i += 1
    cls = None
    for nl, bf in ((True, False), (False, True), (True, True)):
        t = universal_newlines(text) if nl else text
        o = dict(meant, **flagged) if bf else meant
        if (nl and t == text) or (bf and o == meant):
            continue
        w = want(t, o)
        if matches(w) or (w[0] == 'UNENCODABLE' and rc == 'EXC UnicodeEncodeError'):
            cls = '+'.join(c for c, on in (('cli-universal-newlines', nl), ('cli-bool-flag', bf)) if on)
            if w[0] == 'UNENCODABLE':
                cls += '+cli-unencodable-output'
            break
    if cls is None and w0[0] == 'UNENCODABLE' and rc == 'EXC UnicodeEncodeError':
        cls = 'cli-unencodable-output'
    shown = got_bytes if case['out'] == 'outfile' else out
    return dict(case, observed=f'rc={rc!r} out={shown!r:.300} err={err[:120]!r}',
                expected=f'{w0[0]} {(w0[1] if len(w0) > 1 else "")!r:.300}', **{'class': cls or 'cli-differs'})


def oracle(case):
    if case.get('kind') != 'cli':
        raise ValueError(case.get('kind'))
    return oracle_cli(case)


def _clean(case):
    return {k: v for k, v in case.items() if k not in ('observed', 'expected', 'class', 'stage', '_part')}


def classify(f, known):
    """id of the known finding that explains failure f (every component class must be listed)."""
    cls = f.get('class')
    if not cls:
        return None
    ids = []
    for c in cls.split('+'):
        hit = [k['id'] for k in known if k.get('class') == c]
        if not hit:
            return None
        ids.append(hit[0])
    return ids[0]


def rederive_known(k):
    w = k.get('witness')
    if not isinstance(w, dict) or w.get('kind') != 'cli':
        return None
    f = oracle(w)
    if f and k.get('class') in (f.get('class') or '').split('+'):
        return f
    return None


def shrink(f):
    """Delta-debug the text of the failing case, then drop flags, keeping the failure class."""
    if not f or f.get('kind') != 'cli':
        return f
    cls = f.get('class')
    base = _clean(f)

    def fails(s):
        c = dict(base)
        c['text'] = [ord(ch) for ch in s]
        try:
            s.encode(c['enc'])
        except UnicodeError:
            return None
        try:
            g = oracle(c)
        except Exception:  # noqa
            return None
        return g if g and g.get('class') == cls else None
    s0 = ''.join(map(chr, f['text']))
    _, best = common.shrink_text(s0, fails)
    best = best or f
    if best.get('flags'):
        acts, _ = cli_actions()
        changed = True
        while changed:
            changed = False
            for a, kind in acts:
                if doc_option(a) in best['meant']:
                    c = _clean(best)
                    fl = list(c['flags'])
                    for o in a.option_strings:
                        if o in fl:
                            i = fl.index(o)
                            del fl[i:i + (1 if kind == 'flag' else 2)]
                    if fl == c['flags']:
                        continue
                    c['flags'] = fl
                    c['meant'] = {k: v for k, v in c['meant'].items() if k != doc_option(a)}
                    g = oracle(c)
                    if g and g.get('class') == cls:
                        best, changed = g, True
                        break
    return best


def replay(payload):
    f = payload.get('failure')
    if not f or f.get('kind') != 'cli':
        return {'fails': False, 'note': 'no concrete CLI case in replay file: ' + str(payload.get('no_longer_checks'))}
    g = oracle(_clean(f))
    return {'fails': bool(g), 'observed': g}


def gen_cli_cases(ctx, n_random):
    """Every single flag value x {file, stdin} x {stdout, outfile} x encodings, then random combinations."""
    r = ctx.rng
    acts, unknown = cli_actions()
    samples = {
        'utf-8': "select a, b as x, 'é€' from t where c = 1 and d in (select 2) -- é\norder by a;\nselect 'x  y';",
        'latin-1': "select a, b as x, 'é' from t where c=1 and d in (select 2) -- ü\norder by a;\nselect 2;",
        'gbk': "select a, b as x, '表名' from 表 where c=1 and d in (select 2) -- 列\norder by a;\nselect 2;",
        'cp1251': "select a, b as x, 'Песня' from t where c=1 and d in (select 2) -- про\norder by a;\nselect 2;",
    }
    cases = []
    for a, kind in acts:
        for argv, meant in flag_values(a, kind):
            for ctx_flags, ctx_meant in (([], {}), (['-r'], {'reindent': True})):    # alone, and together with -r
                if doc_option(a) == 'reindent' and ctx_flags:
                    continue
                for enc in CLI_ENCODINGS:
                    for inp in ('file', 'stdin'):
                        for outc in ('stdout', 'outfile'):
                            cases.append({'kind': 'cli', 'text': [ord(c) for c in samples[enc]], 'enc': enc,
                                          'flags': ctx_flags + argv, 'meant': dict(ctx_meant, **{doc_option(a): meant}),
                                          'inp': inp, 'out': outc})
    for enc in CLI_ENCODINGS:
        for inp in ('file', 'stdin'):
            for outc in ('stdout', 'outfile'):
                cases.append({'kind': 'cli', 'text': [ord(c) for c in samples[enc]], 'enc': enc, 'flags': [],
                              'meant': {}, 'inp': inp, 'out': outc, 'explicit_enc': True})
    n_single = len(cases)
    alph = {'utf-8': 'misc', 'latin-1': 'latin', 'gbk': 'cjk', 'cp1251': 'cyr'}
    for _ in range(n_random):
        enc = r.choice(CLI_ENCODINGS)
        for _try in range(20):
            s, _k = gens.mixed_text(r)
            s = s[:r.randrange(1, ctx.n(120, 400))]
            cs = list(s)
            for _i in range(r.randrange(0, 4)):
                cs.insert(r.randrange(len(cs) + 1), r.choice(GF.ALPHABETS[alph[enc]]))
            if r.random() < 0.08:
                cs.insert(r.randrange(len(cs) + 1), r.choice(['\r\n', '\r']))
            s = ''.join(cs)
            if GF.encodable(s, enc):
                break
        else:
            s = 'select 1'
        flags, meant = [], {}
        for a, kind in r.sample(acts, r.randrange(0, 6)):
            argv, m = r.choice(flag_values(a, kind))
            flags += argv
            meant[doc_option(a)] = m
        cases.append({'kind': 'cli', 'text': [ord(c) for c in s], 'enc': enc, 'flags': flags, 'meant': meant,
                      'inp': r.choice(['file', 'stdin']), 'out': r.choice(['stdout', 'outfile'])})
    return cases, n_single, unknown


def sweep(ctx, res):
    t0 = time.time()
    cases, n_single, unknown = gen_cli_cases(ctx, ctx.n(400, 6000))
    if unknown:
        res['disagreements'].append({'stage': 'cli-flags', 'detail': 'options of an unknown kind: %r' % unknown})
    # flags the documented mapping does not know: their meaning would be taken from `dest`
    undocumented = sorted({o for a, _ in cli_actions()[0] for o in a.option_strings} - set(FLAG_TO_OPTION))
    if undocumented:
        res.setdefault('notes', []).append('flags without a documented mapping (meaning taken from dest): %r' % undocumented)
    cdist = collections.Counter()
    seen = set()
    d = tempfile.mkdtemp(prefix='c19cli')
    try:
        for c in cases:
            f = oracle_cli(c, d)
            cdist['differs:' + f['class'] if f else 'agrees'] += 1
            if f and f['class'] not in seen:
                seen.add(f['class'])
                res['failures'].append(shrink(f))
    finally:
        shutil.rmtree(d, ignore_errors=True)
    return {'cli_cases': len(cases), 'cli_single_flag_cases': n_single, 'cli_outcomes': dict(cdist),
            'sweep_s': round(time.time() - t0, 1)}


def run(ctx):
    res = {'disagreements': [], 'failures': [], 'notes': []}
    na, adist = corr_args(ctx, ctx.n(4000, 30000), res)
    nm, skipped, mdist, tagd = corr_main(ctx, ctx.n(3000, 20000), res)
    sw = sweep(ctx, res)
    res.update({
        'evaluations': na + nm + sw['cli_cases'],
        'distinct_nontrivial': nm + sw['cli_cases'],
        'traces_validated_against_impl': na + nm,
        'rule': 'cliargs/cliopts: argv built from the flags of the real parser (every spelling, prefixes, `=` and glued '
                'forms, short clusters, valid/invalid values, repeats, unknown flags, `--`, 0/1/2 file names) -> namespace '
                'or SystemExit code, and validate_options of it; climain: the same argv generator over a scratch '
                'directory (existing/missing/unwritable paths, stdin) x texts with CR/latin/wide characters as '
                'utf-8/latin-1/random bytes -> status, _error kind, stdout text, -o bytes, with sqlparse.format replaced '
                'from outside by the marker function.  Direct oracle with the real formatter: every flag x spelling x '
                'value x {file,stdin} x {stdout,-o} x {utf-8,latin-1,gbk,cp1251} + random flag combinations',
        'samples': [],
        'distribution': {'cliargs': dict(adist), 'climain_outcomes': dict(mdist), 'climain_tags': dict(tagd),
                         'climain_skipped_encoding_outside_table': skipped, 'sweep': sw},
    })
    return res


def run_oracle_only(ctx):
    res = {'disagreements': [], 'failures': [], 'notes': []}
    sw = sweep(ctx, res)
    res.update({'evaluations': sw['cli_cases'], 'distinct_nontrivial': sw['cli_cases'],
                'rule': 'oracle only (model unavailable)', 'samples': [], 'distribution': {'sweep': sw}})
    return res


def search(ctx, hints):
    """The direct oracle over argv shapes taken from the disagreements first, then the generator under a budget."""
    tried = 0
    fails = []
    d = tempfile.mkdtemp(prefix='c19cli')
    try:
        t0 = time.time()
        budget = ctx.n(60, 600)
        while not fails and time.time() - t0 < budget:
            cases, _, _ = gen_cli_cases(ctx, 50)
            ctx.rng.shuffle(cases)
            for c in cases[:400]:
                tried += 1
                f = oracle_cli(c, d)
                if f:
                    fails.append(f)
                    break
    finally:
        shutil.rmtree(d, ignore_errors=True)
    return {'failures': fails[:1], 'tried': tried}
