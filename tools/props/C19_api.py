"""C19 - all input forms and front ends give the same result.

Model side: coq/theories/Sys/Frontends.v (decode_input = the decode ladder of Lexer.get_tokens, with a total
model of CPython's unicode-escape codec) + Props/C19.v.  Correspondence: `decode`, `uescape`, `apisplit`,
`apiparse` of the extracted model against the real library.  Direct oracles on the real library for the whole
property: every input form x parse/parsestream/split/format, and the sqlformat command line in-process.

A case is a dict:
  {'kind':'api',   'text':[code points], 'enc': name}          every form of the text, every entry point
  {'kind':'bytes', 'bytes':[ints]}                             bytes without encoding vs the documented reading
  {'kind':'cli',   'text':[code points], 'enc': name, 'flags':[argv...], 'meant':{dest: value}, 'inp':'file'|'stdin', 'out':'stdout'|'outfile'}
A failure is the case + 'observed', 'expected', 'class'.
"""
import collections
import io
import os
import shutil
import sys
import tempfile
import time
import warnings

import vlib
import impl
import impl_frontends as IF
import gens
import gens_frontends as GF
from props import common

THEOREMS = [
    'Props/C19.v: C19_str, C19_stream (decode_input (IStr s) = decode_input (IStream s) = Ok s)',
    'C19_utf8_noenc / C19_utf8_enc (utf8_encode s = Some bs -> bytes [+ utf-8] decode to s; from utf8_roundtrip)',
    'C19_bytes_enc (any codec + its own round-trip law -> bytes + encoding decode to s)',
    'C19_parse_forms / _parsestream_forms / _split_forms / _format_forms (ANY option-built text function) / '
    '_format_plain_forms: api_X i = api_X (IStr s) for every form i that denotes s; C19_api_of_text',
    'C19_parse_is_stream + C19_parse_is_stream_src, C19_single_decode (vm_compute over Gen/Frontends.v: AST facts '
    'about __init__.py, FilterStack.run, lexer.tokenize, Lexer.get_tokens regenerated on every run)',
    'C19_latin1_partial (no backslash), C19_latin1_partial_benign (every backslash followed by a non-escape byte), '
    'C19_latin1_exact (iff, unicode-escape fallback), C19_latin1_refuted_escape / C19_latin1_refuted (witnesses), '
    'C19_latin1_if_fixed, C19_latin1_current (case split on the fallback codec found in the source)',
    'Sys/FrontendsFacts.v: ue_go_len, benign_ok, benign_complete, uescape_latin1_iff, decode_noenc_errors',
]
TRUSTED = [
    'Sys/Frontends.v: hand-written model of CPython 3.12 unicode-escape decoding (validated against '
    'bytes.decode on random and exhaustive short byte strings) and of the decode ladder (template-matched by '
    'tools/regen/gen_frontends.py, fail-closed)',
    'codecs other than UTF-8/Latin-1 are abstract (COther): only their round-trip law is used; the implementation '
    'side exercises cp1251, gbk, utf-16, utf-32, ascii',
    'the command line (argparse, file/stdin/stdout plumbing) is not modelled: checked by the direct oracle only',
]
ASSUMPTIONS = [
    '\\N{name} escapes in the unicode-escape fallback are not modelled (Err Stuck; counted and skipped)',
    'a truthy `encoding` argument (encoding="" behaves like None in the code)',
    'DeprecationWarning for unknown escapes is ignored (python -W error would turn it into an exception)',
    'a text stream is modelled by the text its read() returns',
]

FORMAT_OPTS = [
    {}, {'reindent': True}, {'keyword_case': 'upper'}, {'identifier_case': 'upper'}, {'strip_comments': True},
    {'reindent_aligned': True}, {'use_space_around_operators': True}, {'strip_whitespace': True},
    {'output_format': 'python'}, {'reindent': True, 'comma_first': True, 'indent_width': 4},
    {'truncate_strings': 5},
]
CLI_ENCODINGS = ['utf-8', 'latin-1', 'gbk', 'cp1251']
BOOL_MEANT = {'True': True, 'true': True, '1': True, 'False': False, 'false': False, '0': False, '': False}


# =================================================================================================
# observing the library
def _quiet(fn, *a, **kw):
    with warnings.catch_warnings():
        warnings.simplefilter('ignore')
        try:
            return ('OK', fn(*a, **kw))
        except RecursionError:
            raise
        except Exception as e:  # noqa
            return ('EXC', type(e).__name__)


def _parse_dump(x, enc=None):
    import sqlparse
    return _quiet(lambda: impl.nodes_str(sqlparse.parse(x, enc)))


def _parsestream_dump(x, enc=None):
    import sqlparse
    return _quiet(lambda: impl.nodes_str(list(sqlparse.parsestream(x, enc))))


def _split(x, enc=None):
    import sqlparse
    return _quiet(lambda: sqlparse.split(x, enc))


def _format(x, enc, opts):
    import sqlparse
    return _quiet(lambda: sqlparse.format(x, encoding=enc, **opts))


def observers():
    obs = [('parse', _parse_dump), ('parsestream', _parsestream_dump), ('split', _split)]
    for o in FORMAT_OPTS:
        obs.append(('format' + repr(sorted(o.items())), lambda x, enc=None, o=o: _format(x, enc, o)))
    return obs


def forms_of(text, enc):
    """(name, value, encoding argument) for every way of passing `text` that the property lists."""
    out = [('stream', lambda: io.StringIO(text), None)]
    try:
        b = text.encode(enc)
        if b.decode(enc) == text:
            out.append(('bytes+' + enc, lambda b=b: b, enc))
    except UnicodeError:
        pass
    try:
        u = text.encode('utf-8')
        out.append(('utf8-bytes', lambda u=u: u, None))
    except UnicodeError:     # lone surrogates
        pass
    return out


def fallback_class(bs):
    """Why bytes-without-encoding differ from the Latin-1 reading."""
    try:
        bytes(bs).decode('utf-8')
        return None
    except UnicodeDecodeError:
        pass
    return 'unicode-escape-fallback' if b'\\' in bytes(bs) else None


def oracle_api(case, obs=None):
    text = ''.join(map(chr, case['text']))
    enc = case['enc']
    for oname, f in (obs or observers()):
        ref = f(text)
        for fname, mk, e in forms_of(text, enc):
            got = f(mk(), e) if e else f(mk())
            if got != ref:
                return dict(case, observed=f'{oname} on {fname}: {str(got)[:300]}', expected=str(ref)[:300],
                            **{'class': 'api-form-differs'})
    # parse vs parsestream
    if _parse_dump(text) != _parsestream_dump(text):
        return dict(case, observed='list(parsestream(s)) differs from parse(s)', expected='', **{'class': 'parse-vs-parsestream'})
    return None


def oracle_bytes(case, obs=None):
    """bytes without encoding: UTF-8 if they are UTF-8, else (as documented) Latin-1."""
    bs = bytes(case['bytes'])
    try:
        reading, how = bs.decode('utf-8'), 'utf-8'
    except UnicodeDecodeError:
        reading, how = bs.decode('latin-1'), 'latin-1'
    for oname, f in (obs or observers()):
        ref = f(reading)
        got = f(bs)
        if got != ref:
            cls = fallback_class(bs) if how == 'latin-1' else None
            return dict(case, observed=f'{oname} on bytes without encoding: {str(got)[:300]}',
                        expected=f'({how} reading) {str(ref)[:300]}', **{'class': cls or 'bytes-noenc-differs'})
    return None


# =================================================================================================
# the command line, in-process
# the documented meaning of the sqlformat flags (docs/source/ui.rst of the pinned revision): flag -> formatter option.
# The expectation must NOT be read off argparse's `dest`: a flag that lands in another dest silently formats without the option.
FLAG_TO_OPTION = {
    '-k': 'keyword_case', '--keywords': 'keyword_case', '-i': 'identifier_case', '--identifiers': 'identifier_case',
    '-l': 'output_format', '--language': 'output_format', '--strip-comments': 'strip_comments',
    '-r': 'reindent', '--reindent': 'reindent', '--indent_width': 'indent_width',
    '--indent_after_first': 'indent_after_first', '--indent_columns': 'indent_columns',
    '-a': 'reindent_aligned', '--reindent_aligned': 'reindent_aligned',
    '-s': 'use_space_around_operators', '--use_space_around_operators': 'use_space_around_operators',
    '--wrap_after': 'wrap_after', '--comma_first': 'comma_first', '--compact': 'compact',
}


def doc_option(a):
    for o in a.option_strings:
        if o in FLAG_TO_OPTION:
            return FLAG_TO_OPTION[o]
    return a.dest


def cli_actions():
    """(action, kind) for every option of cli.create_parser(); unknown kinds are reported."""
    import argparse
    from sqlparse import cli
    p = cli.create_parser()
    out = []
    unknown = []
    for a in p._actions:
        if isinstance(a, (argparse._HelpAction, argparse._VersionAction)):
            continue
        if a.dest in ('filename', 'outfile', 'encoding'):
            continue
        if isinstance(a, argparse._StoreTrueAction):
            out.append((a, 'flag'))
        elif isinstance(a, argparse._StoreAction) and a.choices:
            out.append((a, 'choice'))
        elif isinstance(a, argparse._StoreAction) and a.type is int:
            out.append((a, 'int'))
        elif isinstance(a, argparse._StoreAction) and a.type is bool:
            out.append((a, 'bool'))
        else:
            unknown.append(a.dest)
    return out, unknown


def flag_values(a, kind):
    """[(argv pieces, value the user means)] -- for every spelling of the flag"""
    out = []
    for opt in a.option_strings:
        if kind == 'flag':
            out += [([opt], True)]
        elif kind == 'choice':
            out += [([opt, c], c) for c in a.choices]
        elif kind == 'int':
            out += [([opt, str(v)], v) for v in ((0, 1, 2, 4, 30) if opt == a.option_strings[-1] else (2,))]
        elif kind == 'bool':
            out += [([opt, v], BOOL_MEANT[v]) for v in ('True', 'False', '1', '')]
        else:
            raise ValueError(kind)
    return out


def run_cli(argv, stdin_bytes=None, stdin_encoding='utf-8'):
    """sqlparse.cli.main(argv) with patched stdin/stdout/stderr; returns (rc, stdout text, stderr text)."""
    from sqlparse import cli
    old = sys.stdin, sys.stdout, sys.stderr
    out_raw = io.BytesIO()
    err = io.StringIO()
    sys.stdout = io.TextIOWrapper(out_raw, encoding='utf-8', errors='surrogatepass', newline='')
    sys.stderr = err
    if stdin_bytes is not None:
        sys.stdin = io.TextIOWrapper(io.BytesIO(stdin_bytes), encoding=stdin_encoding)
    try:
        try:
            with warnings.catch_warnings():
                warnings.simplefilter('ignore')
                rc = cli.main(argv)
        except SystemExit as e:
            rc = 'exit %r' % (e.code,)
        except RecursionError:
            raise
        except Exception as e:  # noqa
            rc = 'EXC ' + type(e).__name__
        try:
            sys.stdout.flush()
        except Exception:  # noqa
            pass
        return rc, out_raw.getvalue().decode('utf-8', 'surrogatepass'), err.getvalue()
    finally:
        sys.stdin, sys.stdout, sys.stderr = old


def universal_newlines(s):
    return s.replace('\r\n', '\n').replace('\r', '\n')


def expected_cli(decoded, meant):
    import sqlparse
    from sqlparse.exceptions import SQLParseError
    try:
        with warnings.catch_warnings():
            warnings.simplefilter('ignore')
            return 'OK', sqlparse.format(decoded, **meant)
    except SQLParseError as e:
        return 'INVALID', str(e)


def oracle_cli(case, workdir=None):
    """Expected: what format(decoded text, **options the flags mean) returns, on the chosen channel, in the
    same encoding (stdout is compared as text: sys.stdout has its own encoding)."""
    text = ''.join(map(chr, case['text']))
    enc = case['enc']
    data = text.encode(enc)
    own = workdir is None
    d = workdir or tempfile.mkdtemp(prefix='c19cli')
    try:
        inp = os.path.join(d, 'in.sql')
        outp = os.path.join(d, 'out.sql')
        if os.path.exists(outp):
            os.remove(outp)
        argv = []
        stdin_bytes = None
        if case['inp'] == 'file':
            with open(inp, 'wb') as f:
                f.write(data)
            argv.append(inp)
        else:
            argv.append('-')
            stdin_bytes = data
        argv += list(case['flags'])
        if enc != 'utf-8' or case.get('explicit_enc'):
            argv += ['--encoding', enc]
        if case['out'] == 'outfile':
            argv += ['-o', outp]
        rc, out, err = run_cli(argv, stdin_bytes)
        if case['out'] == 'outfile':
            try:
                with open(outp, 'rb') as f:
                    got_bytes = f.read()
            except OSError:
                got_bytes = None
        else:
            got_bytes = None
    finally:
        if own:
            shutil.rmtree(d, ignore_errors=True)

    meant = dict(case['meant'])

    def want(decoded, opts):
        st, exp = expected_cli(decoded, opts)
        if st == 'INVALID':
            return ('INVALID',)
        if case['out'] == 'outfile':
            try:
                return ('OK', exp.encode(enc))
            except UnicodeEncodeError:
                return ('UNENCODABLE',)
        return ('OK', exp)

    def matches(w):
        if w[0] == 'INVALID':
            return rc == 1 and err.startswith('[ERROR] Invalid options') and out == ''
        if w[0] == 'UNENCODABLE':
            return False
        if case['out'] == 'outfile':
            return rc == 0 and got_bytes == w[1] and out == ''
        return rc == 0 and out == w[1]

    w0 = want(text, meant)
    if matches(w0):
        return None
    # explain the deviation by the known mechanisms
    acts = {o: (a, k) for a, k in cli_actions()[0] for o in a.option_strings}
    flagged = {}
    fl = list(case['flags'])
    i = 0
    while i < len(fl):
        a, k = acts.get(fl[i], (None, None))
        if k == 'bool' and i + 1 < len(fl):
            flagged[doc_option(a)] = bool(fl[i + 1])      # what type=bool makes of the string
            i += 2
        else:
            i += 1
    cls = None
    for nl, bf in ((True, False), (False, True), (True, True)):
        t = universal_newlines(text) if nl else text
        o = dict(meant, **flagged) if bf else meant
        if (nl and t == text) or (bf and o == meant):
            continue
        w = want(t, o)
        if matches(w) or (w[0] == 'UNENCODABLE' and rc == 'EXC UnicodeEncodeError'):
            cls = '+'.join(c for c, on in (('cli-universal-newlines', nl), ('cli-bool-flag', bf)) if on)
            if w[0] == 'UNENCODABLE':
                cls += '+cli-unencodable-output'
            break
    if cls is None and w0[0] == 'UNENCODABLE' and rc == 'EXC UnicodeEncodeError':
        cls = 'cli-unencodable-output'
    shown = got_bytes if case['out'] == 'outfile' else out
    return dict(case, observed=f'rc={rc!r} out={shown!r:.300} err={err[:120]!r}',
                expected=f'{w0[0]} {(w0[1] if len(w0) > 1 else "")!r:.300}', **{'class': cls or 'cli-differs'})


# =================================================================================================
def oracle(case):
    k = case.get('kind')
    if k == 'api':
        return oracle_api(case)
    if k == 'bytes':
        return oracle_bytes(case)
    if k == 'cli':
        return oracle_cli(case)
    raise ValueError(k)


def _clean(case):
    return {k: v for k, v in case.items() if k not in ('observed', 'expected', 'class', 'stage')}


def classify(f, known):
    """id of the known finding that explains failure f (every component class must be listed)."""
    cls = f.get('class')
    if not cls:
        return None
    ids = []
    for c in cls.split('+'):
        hit = [k['id'] for k in known if k.get('class') == c]
        if not hit:
            return None
        ids.append(hit[0])
    return ids[0]


def rederive_known(k):
    w = k.get('witness')
    if not isinstance(w, dict) or 'kind' not in w:
        return None
    f = oracle(w)
    if f and k.get('class') in (f.get('class') or '').split('+'):
        return f
    return None


def shrink(f):
    if f and f.get('kind') == 'interleaved_streams':
        return f
    """Delta-debug the text / bytes of the failing case, keeping the failure class."""
    if not f or 'kind' not in f:
        return f
    cls = f.get('class')
    base = _clean(f)
    key = 'bytes' if f['kind'] == 'bytes' else 'text'

    def fails(s):
        c = dict(base)
        c[key] = [ord(ch) for ch in s]
        if f['kind'] != 'bytes':
            try:
                s.encode(c['enc'])
            except UnicodeError:
                return None
        try:
            g = oracle(c)
        except Exception:  # noqa
            return None
        return g if g and g.get('class') == cls else None
    s0 = ''.join(map(chr, f[key]))
    _, best = common.shrink_text(s0, fails)
    best = best or f
    # drop flags that are not needed
    if best.get('kind') == 'cli' and best.get('flags'):
        acts, _ = cli_actions()
        changed = True
        while changed:
            changed = False
            for a, kind in acts:
                if doc_option(a) in best['meant']:
                    c = _clean(best)
                    fl = list(c['flags'])
                    for o in a.option_strings:
                        if o in fl:
                            i = fl.index(o)
                            del fl[i:i + (1 if kind == 'flag' else 2)]
                    c['flags'] = fl
                    c['meant'] = {k: v for k, v in c['meant'].items() if k != doc_option(a)}
                    g = oracle(c)
                    if g and g.get('class') == cls:
                        best, changed = g, True
                        break
    return best


def replay(payload):
    f = payload.get('failure')
    if f and f.get('kind') == 'interleaved_streams':
        from props import C20 as _c20
        g = _c20.oracle(f)
        return {'fails': bool(g), 'observed': g}
    if not f or 'kind' not in f:
        return {'fails': False, 'note': 'no concrete case in replay file: ' + str(payload.get('no_longer_checks'))}
    g = oracle(_clean(f))
    return {'fails': bool(g), 'observed': g}


# =================================================================================================
# generation
def gen_api_cases(ctx, n):
    r = ctx.rng
    out = []
    dist = collections.Counter()
    # texts whose encoding in a one-byte codec happens to be well-formed UTF-8 with another meaning (mojibake): an
    # implementation that guesses UTF-8 before honouring the encoding argument gets these wrong
    for enc in ('latin-1', 'cp1251'):
        for raw in ('select \u00e9 from t', "select '\u00a3\u20ac' x", '-- \u00fc\nselect 1', 'select \u044f'):
            try:
                t = raw.encode('utf-8').decode(enc)
            except UnicodeError:
                continue
            if GF.encodable(t, enc):
                dist['mojibake:' + enc] += 1
                out.append({'kind': 'api', 'text': [ord(c) for c in t], 'enc': enc})
    t16 = 'select 1'
    out.append({'kind': 'api', 'text': [ord(c) for c in t16], 'enc': 'utf-16-le'})
    dist['utf-16-le ascii'] += 1
    while len(out) < n:
        s, kind = GF.text_for(r, ctx.n(80, 300))
        encs = [e for e in GF.IMPL_ENCODINGS if GF.encodable(s, e)]
        if not encs:
            encs = ['utf-8'] if GF.encodable(s, 'utf-8') else []
        if not encs:
            dist['unencodable(lone surrogate)'] += 1
            out.append({'kind': 'api', 'text': [ord(c) for c in s], 'enc': 'utf-8'})
            continue
        e = r.choice(encs)
        dist[e] += 1
        out.append({'kind': 'api', 'text': [ord(c) for c in s], 'enc': e})
    return out, dist


def gen_cli_cases(ctx, n_random):
    """Every single flag value x {file, stdin} x {stdout, outfile} x encodings, then random combinations."""
    r = ctx.rng
    acts, unknown = cli_actions()
    samples = {
        'utf-8': "select a, b as x, 'é€' from t where c = 1 and d in (select 2) -- é\norder by a;\nselect 'x  y';",
        'latin-1': "select a, b as x, 'é' from t where c=1 and d in (select 2) -- ü\norder by a;\nselect 2;",
        'gbk': "select a, b as x, '表名' from 表 where c=1 and d in (select 2) -- 列\norder by a;\nselect 2;",
        'cp1251': "select a, b as x, 'Песня' from t where c=1 and d in (select 2) -- про\norder by a;\nselect 2;",
    }
    cases = []
    for a, kind in acts:
        for argv, meant in flag_values(a, kind):
            for ctx_flags, ctx_meant in (([], {}), (['-r'], {'reindent': True})):    # alone, and together with -r
                if doc_option(a) == 'reindent' and ctx_flags:
                    continue
                for enc in CLI_ENCODINGS:
                    for inp in ('file', 'stdin'):
                        for outc in ('stdout', 'outfile'):
                            cases.append({'kind': 'cli', 'text': [ord(c) for c in samples[enc]], 'enc': enc,
                                          'flags': ctx_flags + argv, 'meant': dict(ctx_meant, **{doc_option(a): meant}),
                                          'inp': inp, 'out': outc})
    # no flag at all
    for enc in CLI_ENCODINGS:
        for inp in ('file', 'stdin'):
            for outc in ('stdout', 'outfile'):
                cases.append({'kind': 'cli', 'text': [ord(c) for c in samples[enc]], 'enc': enc, 'flags': [],
                              'meant': {}, 'inp': inp, 'out': outc, 'explicit_enc': True})
    n_single = len(cases)
    alph = {'utf-8': 'misc', 'latin-1': 'latin', 'gbk': 'cjk', 'cp1251': 'cyr'}
    for _ in range(n_random):
        enc = r.choice(CLI_ENCODINGS)
        for _try in range(20):
            s, _k = gens.mixed_text(r)
            s = s[:r.randrange(1, ctx.n(120, 400))]
            cs = list(s)
            for _i in range(r.randrange(0, 4)):
                cs.insert(r.randrange(len(cs) + 1), r.choice(GF.ALPHABETS[alph[enc]]))
            if r.random() < 0.08:
                cs.insert(r.randrange(len(cs) + 1), r.choice(['\r\n', '\r']))
            s = ''.join(cs)
            if GF.encodable(s, enc):
                break
        else:
            s = 'select 1'
        flags, meant = [], {}
        for a, kind in r.sample(acts, r.randrange(0, 6)):
            argv, m = r.choice(flag_values(a, kind))
            flags += argv
            meant[doc_option(a)] = m
        cases.append({'kind': 'cli', 'text': [ord(c) for c in s], 'enc': enc, 'flags': flags, 'meant': meant,
                      'inp': r.choice(['file', 'stdin']), 'out': r.choice(['stdout', 'outfile'])})
    return cases, n_single, unknown


def gen_decode_requests(ctx, n):
    """(request line, impl thunk, tag) for the model/impl correspondence of the decode point."""
    r = ctx.rng
    reqs = []
    dist = collections.Counter()
    for _ in range(n):
        k = r.random()
        if k < 0.45:
            s, kind = GF.text_for(r, ctx.n(100, 400))
            forms = [('str', s), ('stream', s)]
            if GF.encodable(s, 'utf-8'):
                b = s.encode('utf-8')
                forms += [('utf-8', b), ('none', b)]
            if GF.encodable(s, 'latin-1'):
                b = s.encode('latin-1')
                forms += [('latin-1', b), ('none', b)]
            form, payload = r.choice(forms)
            dist['text:' + form] += 1
        elif k < 0.95:
            payload = GF.byte_soup(r)
            form = r.choice(['none', 'none', 'none', 'utf-8', 'latin-1'])
            dist['soup:' + form] += 1
        else:
            form, payload = 'other', b''
            dist['other'] += 1
        reqs.append((form, payload))
    return reqs, dist


def _payload_str(form, payload):
    if form in ('str', 'stream'):
        return vlib.cps(payload)
    return IF.cpsb(payload)


def corr_decode(ctx, n, res):
    reqs, dist = gen_decode_requests(ctx, n)
    # fixed witnesses first
    fixed = [('none', b"select '\xe9\\n'"), ('none', b"'\xe9\\x'"), ('none', b"select '\xe9' -- C:\\new\\table"),
             ('none', b"'\xe9\\N{BULLET}'"), ('none', b"'\xe9\\N{BULLET}\\x'"), ('none', b"\xe9\\N{}"), ('utf-8', b'\xe9'),
             ('latin-1', b'\xe9\\n'), ('none', b''), ('str', ''), ('stream', '\r\n'), ('other', b'')]
    reqs = fixed + reqs
    replies = vlib.run_model([f'decode {f} {_payload_str(f, p)}' for f, p in reqs])
    stuck = 0
    fb = collections.Counter()
    for (form, payload), rep in zip(reqs, replies):
        mine = IF.decode_dump(form, payload)
        if rep == 'ERR Stuck':
            stuck += 1
            if not IF.has_name_escape(payload):
                res['disagreements'].append({'stage': 'decode', 'form': form, 'bytes': list(payload),
                                             'impl': mine[:300], 'model': rep, 'note': 'Stuck without \\N{name}'})
            continue
        if form == 'none':
            try:
                payload.decode('utf-8')
                fb['utf-8'] += 1
            except UnicodeDecodeError:
                fb['fallback:' + ('backslash' if b'\\' in payload else 'plain') + (':raises' if mine.startswith('ERR') else '')] += 1
        if mine != rep:
            res['disagreements'].append({'stage': 'decode', 'form': form,
                                         'bytes' if isinstance(payload, bytes) else 'input':
                                         list(payload) if isinstance(payload, bytes) else [ord(c) for c in payload],
                                         'impl': mine[:300], 'model': rep[:300]})
    # the unicode-escape codec itself against CPython
    ue = [GF.esc_bytes(ctx.rng) for _ in range(n)]
    ue += [b'\\' + bytes([i]) for i in range(256)]
    rep2 = vlib.run_model(['uescape ' + IF.cpsb(b) for b in ue])
    stuck2 = 0
    for b, rep in zip(ue, rep2):
        mine = IF.uescape_dump(b)
        if rep == 'ERR Stuck':
            stuck2 += 1
            if not IF.has_name_escape(b):
                res['disagreements'].append({'stage': 'uescape', 'bytes': list(b), 'impl': mine, 'model': rep})
            continue
        if mine != rep:
            res['disagreements'].append({'stage': 'uescape', 'bytes': list(b), 'impl': mine[:300], 'model': rep[:300]})
    return len(reqs), len(ue), stuck, stuck2, dist, fb


def corr_api(ctx, n, res):
    """apisplit / apiparse of the model against split()/parse() on bytes, streams and str."""
    r = ctx.rng
    reqs = []
    for _ in range(n):
        if r.random() < 0.5:
            s, _ = GF.text_for(r, ctx.n(100, 300))
            forms = [('str', s), ('stream', s)]
            if GF.encodable(s, 'utf-8'):
                forms += [('utf-8', s.encode('utf-8')), ('none', s.encode('utf-8'))]
            if GF.encodable(s, 'latin-1'):
                forms += [('latin-1', s.encode('latin-1')), ('none', s.encode('latin-1'))]
            reqs.append(r.choice(forms))
        else:
            reqs.append(('none', GF.byte_soup(r)))
    for cmd, fn in (('apisplit', IF.apisplit_dump), ('apiparse', IF.apiparse_dump)):
        replies = vlib.run_model([f'{cmd} {f} {_payload_str(f, p)}' for f, p in reqs])
        for (form, payload), rep in zip(reqs, replies):
            if rep == 'ERR Stuck':
                continue
            mine = fn(form, payload)
            if mine != rep:
                res['disagreements'].append({'stage': cmd, 'form': form,
                                             'bytes': list(payload) if isinstance(payload, bytes) else [ord(c) for c in payload],
                                             'impl': mine[:300], 'model': rep[:300]})
    return 2 * len(reqs)


# =================================================================================================
def sweep(ctx, res):
    """Direct oracles on the real library; returns counts."""
    obs = observers()
    t0 = time.time()
    api_cases, api_dist = gen_api_cases(ctx, ctx.n(1500, 20000))
    seen = set()
    for c in api_cases:
        f = oracle_api(c, obs)
        if f and f['class'] not in seen:
            seen.add(f['class'])
            res['failures'].append(f)
    n_bytes = ctx.n(3000, 20000)
    bdist = collections.Counter()
    for _ in range(n_bytes):
        bs = GF.byte_soup(ctx.rng)
        c = {'kind': 'bytes', 'bytes': list(bs)}
        f = oracle_bytes(c, obs[:4])
        bdist['differs:' + f['class'] if f else 'agrees'] += 1
        if f and f['class'] not in seen:
            seen.add(f['class'])
            res['failures'].append(shrink(f))
    cli_cases, n_single, unknown = gen_cli_cases(ctx, ctx.n(400, 6000))
    if unknown:
        res['disagreements'].append({'stage': 'cli-flags', 'detail': 'options of an unknown kind: %r' % unknown})
    cdist = collections.Counter()
    d = tempfile.mkdtemp(prefix='c19cli')
    try:
        for c in cli_cases:
            f = oracle_cli(c, d)
            cdist['differs:' + f['class'] if f else 'agrees'] += 1
            if f and f['class'] not in seen:
                seen.add(f['class'])
                res['failures'].append(shrink(f))
    finally:
        shutil.rmtree(d, ignore_errors=True)
    return {'api_cases': len(api_cases), 'api_evals': len(api_cases) * len(obs) * 4, 'api_encodings': dict(api_dist),
            'bytes_cases': n_bytes, 'bytes_outcomes': dict(bdist), 'cli_cases': len(cli_cases),
            'cli_single_flag_cases': n_single, 'cli_outcomes': dict(cdist), 'sweep_s': round(time.time() - t0, 1)}


def run(ctx):
    res = {'disagreements': [], 'failures': []}
    # the stream front end consumed lazily while other calls are made (oracle in props/C20.py)
    from props import C20 as _c20
    res['failures'] += _c20.interleave_failures()[:1]
    n = ctx.n(20000, 100000)
    nd, nu, stuck, stuck2, dist, fb = corr_decode(ctx, n, res)
    na = corr_api(ctx, ctx.n(1500, 15000), res)
    sw = sweep(ctx, res)
    res.update({
        'evaluations': nd + nu + na + sw['api_evals'] + sw['bytes_cases'] * 4 + sw['cli_cases'],
        'distinct_nontrivial': sum(v for k, v in fb.items() if k.startswith('fallback')) + sw['cli_cases'],
        'rule': 'decode stage: (form, payload) with form in str/stream/bytes+utf-8/bytes+latin-1/bytes without encoding/'
                'other object; payload = SQL from the grammar generators sprinkled with Latin/Cyrillic/CJK/astral '
                'characters, or byte soups (UTF-8, mutilated UTF-8, Latin-1 with injected backslash escapes, random '
                'bytes); the model reply `decode` is compared with the concatenated token values of lexer.tokenize; '
                'uescape stage: unicode_escape_decode against bytes.decode("unicode-escape"); apisplit/apiparse: '
                'whole entry points. distinct_nontrivial = decode cases that took the fallback path + CLI cases. '
                'Direct oracle sweep: every form x parse/parsestream/split/format(11 option sets); bytes without '
                'encoding vs documented reading; sqlformat in-process for every flag of create_parser() x '
                '{file,stdin} x {stdout,-o} x {utf-8,latin-1,gbk,cp1251} + random flag combinations',
        'samples': [],
        'traces_validated_against_impl': nd + nu + na,
        'distribution': {'decode_forms': dict(dist), 'noenc_paths': dict(fb), 'stuck_skipped(\\N{name})': stuck + stuck2,
                         'decode_cases': nd, 'uescape_cases': nu, 'api_corr_cases': na, 'sweep': sw},
    })
    return res


def run_oracle_only(ctx):
    res = {'disagreements': [], 'failures': []}
    sw = sweep(ctx, res)
    res.update({'evaluations': sw['api_evals'] + sw['cli_cases'], 'distinct_nontrivial': sw['cli_cases'],
                'rule': 'oracle only (model unavailable)', 'samples': [], 'distribution': {'sweep': sw}})
    return res


def search(ctx, hints):
    """Direct oracles over the disagreeing inputs first, then the generators under a budget."""
    tried = 0
    fails = []
    obs = observers()
    for d in hints.get('disagreements', []):
        if 'bytes' in d:
            tried += 1
            f = oracle_bytes({'kind': 'bytes', 'bytes': d['bytes']}, obs)
            if f:
                fails.append(f)
                break
        elif 'input' in d:
            tried += 1
            f = oracle_api({'kind': 'api', 'text': d['input'], 'enc': 'utf-8'}, obs)
            if f:
                fails.append(f)
                break
    t0 = time.time()
    budget = ctx.n(60, 600)
    _known19 = [k for k in vlib.load_known_findings() if k.get('property') == 'C19' and k.get('status') == 'open']
    while not fails and time.time() - t0 < budget:
        tried += 1
        bs = GF.byte_soup(ctx.rng)
        f = oracle_bytes({'kind': 'bytes', 'bytes': list(bs)}, obs[:4])
        if not f:
            cs, _ = gen_api_cases(ctx, 1)
            f = oracle_api(cs[0], obs)
        if f and classify(f, _known19) is None:
            fails.append(f)
    return {'failures': fails[:1], 'tried': tried}
