"""C09 - bracketed and block groups are exactly the properly matched pairs."""
import collections

import vlib
import impl
import gens
from props import common

THEOREMS = ['Props/C09.v: C09_driver (matching_loop c l 0 l [] 0 = Ok (stack_match c l): the index-juggling loop over a '
            'snapshot with tidx_offset/opens equals the textbook stack matcher, for every class and every sibling list), '
            'C09_recursive (group_matching c n = Ok (stack_match_rec c n): inside, never across, groups of other classes), '
            'C09_shape (every group the pass creates is opener :: fully matched middle ++ [closer]), C09_residual (what stays '
            'ungrouped is closers* openers*: maximality), C09_idempotent, C09_passes (passes 2-7 of the pipeline ARE these '
            'six matchers, in the order SquareBrackets, Parenthesis, Case, If, For, Begin)',
            'Group/MatchFacts.v: matching_loop_sim (the simulation invariant), group_tokens_exact',
            'Group/ShapeFacts.v: stack_match_rec_bok (a later matcher never breaks an earlier bracket group)']
TRUSTED = ['hand-written model of _group_matching / group_tokens (tied by the parse correspondence after each of passes 1-7)',
           'that the 18 later passes only wrap, extend or move whole bracket groups is checked on the implementation by the '
           'span oracle below, not yet proved (C09_pipeline is future work)']
ASSUMPTIONS = []

BRACKET_SOUP = ['(', ')', '[', ']', 'CASE', 'END', 'IF', 'END IF', 'FOR', 'FOREACH', 'END LOOP', 'BEGIN', 'case', 'end',
                'if', 'end if', 'for', 'end loop', 'begin', 'LOOP', 'WHEN', 'THEN', 'ELSE', 'a', 'b', '1', ',', ';', '.',
                'select', 'from', 'where', 'x', 'f', '--c\n', '/* c */', '+', '=', 'end  if', 'END\tLOOP', 'End', "'('", '"["',
                'WHILE', 'while', 'loop', 'END WHILE', 'END FOR', 'DO', 'ELSIF', 'END CASE', 'DECLARE', 'REPEAT', 'UNTIL',
                'end\nif', 'END\r\nLOOP', 'END\x0cIF', 'End\rLoop', 'END \t IF']


def bracket_soup(rng):
    n = rng.choice([2, 3, 5, 8, 12, 20, 35])
    out = []
    for _ in range(n):
        out.append(rng.choice(BRACKET_SOUP))
        out.append(rng.choice([' ', ' ', '', '\n', '  ']))
    return ''.join(out)


def gen_text(rng):
    r = rng.random()
    if r < 0.5:
        return bracket_soup(rng), 'bracket_soup'
    s, kind = gens.mixed_text(rng)
    return s, kind


# the reference matcher's OWN opener / closer tables (pinned here: reading them from sql.X.M_OPEN would make the
# reference follow a change of the library's tables)
REF_TABLES = {
    'SquareBrackets': (('Punctuation', ('[',)), ('Punctuation', (']',))),
    'Parenthesis': (('Punctuation', ('(',)), ('Punctuation', (')',))),
    'Case': (('Keyword', ('CASE',)), ('Keyword', ('END',))),
    'If': (('Keyword', ('IF',)), ('Keyword', ('END IF',))),
    'For': (('Keyword', ('FOR', 'FOREACH')), ('Keyword', ('END LOOP',))),
    'Begin': (('Keyword', ('BEGIN',)), ('Keyword', ('END',))),
}


def ref_match(tok, spec):
    """Token.match(ttype, values) of the pinned table: exact ttype; keywords compared by normalized (upper-cased) value."""
    from sqlparse import tokens as T
    tname, values = spec
    tt = getattr(T, tname)
    if tok.ttype is not tt:
        return False
    if tt in T.Keyword:
        # the reference's own spelling of the keyword (upper case, white space inside compound keywords as one blank):
        # reading tok.normalized would make the reference follow a change of the library's normalisation
        return ' '.join(tok.value.upper().split()) in values
    return tok.value in values


def reference_spans(stmt):
    """Spans (class name, first leaf, closing leaf) a textbook stack matcher finds, class by class, on the leaves."""
    from sqlparse import sql
    order = [sql.SquareBrackets, sql.Parenthesis, sql.Case, sql.If, sql.For, sql.Begin]
    leaves = list(stmt.flatten())
    items = [('leaf', i, t) for i, t in enumerate(leaves)]

    def first_leaf(it):
        return it[1] if it[0] == 'leaf' else first_leaf(it[2][0])

    def last_leaf(it):
        return it[1] if it[0] == 'leaf' else last_leaf(it[2][-1])

    def apply(cls, items):
        items = [it if it[0] == 'leaf' else ('grp', it[1], apply(cls, it[2])) for it in items]
        stack = []      # frames: lists of items, opener first
        out = []

        def push(x):
            (stack[-1] if stack else out).append(x)
        for it in items:
            if it[0] == 'leaf':
                tok = it[2]
                if tok.is_whitespace:
                    push(it)
                elif ref_match(tok, REF_TABLES[cls.__name__][0]):
                    stack.append([it])
                elif ref_match(tok, REF_TABLES[cls.__name__][1]):
                    if stack:
                        fr = stack.pop()
                        fr.append(it)
                        push(('grp', cls.__name__, fr))
                    else:
                        push(it)
                else:
                    push(it)
            else:
                push(it)
        # frames left open are flushed flat
        while stack:
            fr = stack.pop()
            for x in fr:
                push(x)
        return out

    for cls in order:
        items = apply(cls, items)
    spans = []

    def collect(items):
        for it in items:
            if it[0] == 'grp':
                spans.append((it[1], first_leaf(it), last_leaf(it)))
                collect(it[2])
    collect(items)
    return sorted(spans)


def actual_spans(stmt):
    """Spans of the bracket/block nodes of the tree: (class, first leaf, last leaf ignoring trailing whitespace and
    comments).  The node must start with its opening token and end with its closing token (as tokens, i.e. leaves:
    later passes may wrap the delimiters together with their neighbours, e.g. `if , END IF` becomes an IdentifierList)."""
    from sqlparse import tokens as T
    names = {'SquareBrackets', 'Parenthesis', 'Case', 'If', 'For', 'Begin'}
    leaves = list(stmt.flatten())
    pos = {id(t): i for i, t in enumerate(leaves)}
    spans = []
    bad = []

    def walk(n):
        if not n.is_group:
            return
        if type(n).__name__ in names:
            ls = list(n.flatten())
            while ls and (ls[-1].is_whitespace or ls[-1].ttype in T.Comment):
                ls.pop()
            if not n.tokens:
                bad.append('empty ' + type(n).__name__)
            elif not ls:
                bad.append(type(n).__name__ + ' consists of whitespace/comments only')
            else:
                spans.append((type(n).__name__, pos[id(ls[0])], pos[id(ls[-1])]))
                if not ref_match(ls[0], REF_TABLES[type(n).__name__][0]):
                    bad.append(type(n).__name__ + ' does not start with its opening token')
                if not ref_match(ls[-1], REF_TABLES[type(n).__name__][1]):
                    bad.append(type(n).__name__ + ' does not end (ignoring comments) with its closing token')
        for k in n.tokens:
            walk(k)
    walk(stmt)
    return sorted(spans), bad


def oracle(text):
    import sqlparse
    try:
        stmts = sqlparse.parse(text)
    except Exception:  # noqa
        return None
    for st in stmts:
        want = reference_spans(st)
        got, bad = actual_spans(st)
        if bad:
            return {'input': [ord(c) for c in text], 'observed': bad[0]}
        if want != got:
            missing = [s for s in want if s not in got][:3]
            extra = [s for s in got if s not in want][:3]
            return {'input': [ord(c) for c in text],
                    'observed': f'stack matcher pairs missing from the tree: {missing}; groups that are no matched pair: {extra}'}
    return None


def run(ctx):
    n = ctx.n(3000, 50000)
    texts = []
    dist = collections.Counter()
    for _ in range(n):
        s, kind = gen_text(ctx.rng)
        texts.append(s[:ctx.n(400, 2000)])
        dist[kind] += 1
    texts = common.corpus('parse') + texts
    res = {'disagreements': [], 'failures': []}
    res['failures'] += common.threshold_failures('C09', ctx.quick())
    shapes = set()
    ngroups = collections.Counter()
    for s in texts:
        f = oracle(s)
        if f:
            res['failures'].append(f)
    # correspondence after each of the passes 1..7 (comments + the six matchers)
    sample = texts[:ctx.n(1200, 12000)]
    for k in range(0, 8):
        d, dumps = common.corr_stage('parse', sample, lambda s, k=k: impl.parse_dump(s, k), f'group_upto({k})', extra=f'{k} ')
        res['disagreements'] += d
        if k == 7:
            for dmp in dumps:
                for cls in ('GParenthesis', 'GSquareBrackets', 'GCase', 'GIf', 'GFor', 'GBegin'):
                    c = dmp.count(cls)
                    if c:
                        ngroups[cls[1:]] += c
                if any(c in dmp for c in ('GParenthesis', 'GSquareBrackets', 'GCase', 'GIf', 'GFor', 'GBegin')):
                    shapes.add(common.tree_shape(dmp))
    res.update({
        'evaluations': len(texts) + 8 * len(sample),
        'distinct_nontrivial': len(shapes),
        'rule': 'bracket soup (arbitrary interleavings of ( ) [ ] CASE END IF "END IF" FOR "END LOOP" BEGIN with other '
                'tokens, balanced or not) and the mixed generators; oracle: the bracket/block nodes of parse() are exactly '
                'the pairs of a reference stack matcher run class by class on the leaves (inside, never across), each node '
                'starts with its opener and, ignoring attached comments, ends with its closer; correspondence of the model '
                'after each of passes 0..7; distinct_nontrivial = distinct tree shapes after pass 7 containing a bracket/block group',
        'samples': texts[len(common.corpus("parse")):][:4],
        'traces_validated_against_impl': 8 * len(sample),
        'distribution': {'generator': dict(dist), 'groups_seen': dict(ngroups), 'length_histogram': common.length_hist(texts)},
    })
    return res


def run_oracle_only(ctx):
    texts = [gen_text(ctx.rng)[0] for _ in range(ctx.n(3000, 50000))]
    fails = [f for f in (oracle(s) for s in texts) if f]
    return {'failures': fails, 'evaluations': len(texts), 'distinct_nontrivial': 0, 'rule': 'oracle only', 'samples': texts[:3]}


def search(ctx, hints):
    return common.generic_search(ctx, hints, oracle, gen=lambda r: gen_text(r)[0])


def shrink(f):
    return common.shrink_failure(f, oracle)


def replay(payload):
    _f = payload.get('failure') or {}
    if _f.get('threshold_input'):
        return common.threshold_replay('C09', _f)
    return common.replay_with(oracle, payload)
