"""C07 (option part) - every option dictionary is accepted or rejected with SQLParseError, before any
formatting happens.  Model: Gen/OptTab.v (regenerated translation of validate_options /
build_filter_stack / format), Filters/OptDefs.v; theorems: Filters/OptFacts.v."""
import collections
import re
import json
import time

import vlib
import impl_opt
import gens_opt

THEOREMS = [
    'Filters/OptFacts.v: C07_options_partial (tame o -> validate_options o = Ok _ or Err SQLParseError)',
    'C07_options_exn (for ALL dictionaries: Ok, SQLParseError, OverflowError or ValueError)',
    'C07_options_inf_rejected (indent_width=inf -> SQLParseError since the fix), C07_options_refuted_repr (keyword_case=10**4300 -> ValueError)',
    'validated_well_typed (validate_options o = Ok o\' -> Valid o\'), derived_options',
    'C07_options_first (rejected options: format_model = the same error whatever the text)',
]
TRUSTED = ['Filters/OptDefs.v: hand-written semantics of ==, in, int(), <, <=, bool(), repr() limits on the abstract '
           'option values (tied to CPython by the translator self-test on ~53000 dictionaries and by this '
           'correspondence); filter constructors are not modelled (checked not to raise on validated options)']
ASSUMPTIONS = ['option values range over None/bool/int/float/str/list/tuple/dict/set/object() (OptDefs.pval)']


class Boom:
    """sql argument on which lexing would fail: validation must reject the options first."""
    def read(self):
        raise RuntimeError('lexing started before the options were validated')

    def __iter__(self):
        raise RuntimeError('lexing started before the options were validated')


def _safe_repr(d):
    out = []
    for k, v in d.items():
        if isinstance(v, int) and not isinstance(v, bool) and v.bit_length() > 14000:
            out.append('%r: HUGEINT' % (k,))
        else:
            try:
                out.append('%r: %r' % (k, v))
            except Exception:  # noqa
                out.append('%r: <unprintable>' % (k,))
    return ('{' + ', '.join(out) + '}')[:20000]


def oracle_dict(d):
    """None, or a failure record: an exception other than SQLParseError escapes format(sql, **d), or an
    invalid dictionary is not rejected before the text is touched."""
    import sqlparse
    from sqlparse.exceptions import SQLParseError
    enc = impl_opt.enc_opts(d)
    rejected = False
    _r = _safe_repr(d)
    try:
        sqlparse.formatter.validate_options(dict(d))
    except SQLParseError:
        rejected = True
    except Exception as e:  # noqa
        return {'options': enc, 'options_repr': _r, 'observed': 'validate_options raises %s' % type(e).__name__}
    if rejected:
        try:
            sqlparse.format(Boom(), **dict(d))
        except SQLParseError:
            return None
        except Exception as e:  # noqa
            return {'options': enc, 'options_repr': _r, 'observed': 'invalid options but format(<unreadable>) raises %s' % type(e).__name__}
        return {'options': enc, 'options_repr': _r, 'observed': 'invalid options accepted by format'}
    if 'right_margin' in d and d['right_margin'] is not None:
        return None       # undocumented; RightMarginFilter raises NotImplementedError by design
    for sql in ("select a, b from t where x = 'abcdefghijkl' -- c\n", ''):
        try:
            sqlparse.format(sql, **dict(d))
        except SQLParseError:
            pass
        except Exception as e:  # noqa
            return {'options': enc, 'options_repr': _r, 'observed': 'format raises %s on %r' % (type(e).__name__, sql[:20])}
    return None


KNOWN = ('OverflowError', 'ValueError', 'TypeError')


def _optrepr(f):
    return f.get('options_repr', '')


CLASS_PRED = {
    # an indentation of more characters than a str can hold: `' ' * width` raises OverflowError while the text is laid out
    'opt-huge-indent-width': lambda f: 'OverflowError' in f.get('observed', '')
    and re.search(r"'indent_width': (HUGEINT|\d{19,})", _optrepr(f)) is not None,
    # int(float('inf')) raises OverflowError; the handlers catch (ValueError, TypeError) only
    'opt-float-inf-overflow': lambda f: 'OverflowError' in f.get('observed', '') and re.search(r'\binf\b', _optrepr(f)) is not None,
    # repr() of an int beyond the interpreter's digit limit raises ValueError while the SQLParseError message is built
    'opt-huge-int-repr': lambda f: 'ValueError' in f.get('observed', '') and 'HUGEINT' in _optrepr(f),
    # truncate_char is documented but never validated: a non-str value fails inside ''.join at formatting time
    'opt-truncate-char-not-validated': lambda f: 'TypeError' in f.get('observed', '')
    and re.search(r"'truncate_char': (?!['\"])", _optrepr(f)) is not None and 'truncate_strings' in _optrepr(f),
}


def classify(failure, known):
    for k in known:
        p = CLASS_PRED.get(k.get('class'))
        if p is not None and p(failure):
            return k['id']
    return None


def rederive_known(k):
    if k.get('class') not in CLASS_PRED:
        return None
    d = eval(k['witness']['options_py'], {'inf': float('inf'), 'nan': float('nan')})   # noqa: S307 (our own committed literal)
    f = oracle_dict(d)
    if f and classify(f, [k]) == k['id']:
        return f
    return None


def run(ctx):
    n = ctx.n(20000, 120000)
    ds, kinds = [], collections.Counter()
    for _ in range(n):
        d, k = gens_opt.random_options(ctx.rng)
        ds.append(d)
        kinds[k] += 1
    encs = [impl_opt.enc_opts(d) for d in ds]
    rep = vlib.run_model(['validate ' + e for e in encs])
    rep2 = vlib.run_model(['fstack ' + e for e in encs])
    dis, fails, outcomes, shapes = [], [], collections.Counter(), set()
    for d, e, m, m2 in zip(ds, encs, rep, rep2):
        i = impl_opt.validate_dump(d)
        mm = m
        if m.startswith('OK '):
            mm, _, v = m.rpartition(' | valid=')
            if v != 'true':
                dis.append({'stage': 'validb', 'options': e, 'model': m[:300]})
            shapes.add(mm.split(' | ')[1] if ' | ' in mm else '')
        outcomes[i.split(' ')[0] + (' ' + i.split(' ')[1] if i.startswith('ERR') else '')] += 1
        if i != mm:
            dis.append({'stage': 'validate', 'options': e, 'impl': i[:400], 'model': mm[:400]})
        i2 = impl_opt.fstack_dump(d)
        if i2 != m2 and m2 != 'ERR Stuck':
            dis.append({'stage': 'fstack', 'options': e, 'impl': i2[:400], 'model': m2[:400]})
    t0 = time.time()
    for d in ds[:ctx.n(4000, 30000)]:
        f = oracle_dict(d)
        if f:
            fails.append(f)
    # the order of events on the implementation: invalid option + unreadable sql
    first = oracle_dict({'indent_width': 'x'})
    if first:
        fails.append(first)
    return {'disagreements': dis, 'failures': fails, 'evaluations': 2 * n, 'distinct_nontrivial': len(shapes),
            'rule': 'random option dictionaries (valid / mostly valid / soup / single option; documented, undocumented '
                    'and unknown keys; values from None,bool,int,huge int,float,inf,nan,numeric and other strings, '
                    'containers); model reply = resulting dictionary in dict order + installed filters with their '
                    'constructor arguments, compared with validate_options/build_filter_stack of /repo; '
                    'distinct_nontrivial = distinct filter stacks',
            'samples': encs[:5], 'traces_validated_against_impl': 2 * n,
            'distribution': {'kinds': dict(kinds), 'outcomes': dict(outcomes), 'oracle_s': round(time.time() - t0, 1)}}


def run_oracle_only(ctx):
    fails = []
    for _ in range(ctx.n(4000, 30000)):
        d, _k = gens_opt.random_options(ctx.rng)
        f = oracle_dict(d)
        if f:
            fails.append(f)
    return {'failures': fails, 'evaluations': ctx.n(4000, 30000), 'distinct_nontrivial': 0,
            'rule': 'oracle only (model unavailable)', 'samples': []}


def oracle(enc):
    return oracle_dict(impl_opt.dec_opts(enc))


def search(ctx, hints):
    tried = 0
    for dsg in hints.get('disagreements', []):
        if 'options' in dsg:
            tried += 1
            f = oracle(dsg['options'])
            if f:
                return {'failures': [f], 'tried': tried}
    t0 = time.time()
    while time.time() - t0 < ctx.n(60, 600):
        d, _k = gens_opt.random_options(ctx.rng)
        tried += 1
        f = oracle_dict(d)
        if f:
            return {'failures': [f], 'tried': tried}
    return {'failures': [], 'tried': tried}


def shrink(f):
    """Drop options one at a time while the failure persists."""
    if not f or 'options' not in f:
        return f
    d = impl_opt.dec_opts(f['options'])
    best = f
    changed = True
    while changed and len(d) > 1:
        changed = False
        for k in list(d):
            d2 = {a: b for a, b in d.items() if a != k}
            g = oracle_dict(d2)
            if g:
                d, best, changed = d2, g, True
                break
    return best


def replay(payload):
    f = payload.get('failure')
    if not f or 'options' not in f:
        return {'fails': False, 'note': 'no concrete option dictionary in replay file: ' + str(payload.get('no_longer_checks'))}
    g = oracle(f['options'])
    return {'fails': bool(g), 'observed': g}
