"""C01 - lexer total and lossless."""
import collections

import vlib
import impl
import gens
from props import common

THEOREMS = ['Props/C01.v: C01_lossless (forall t, lex succeeds, values concatenate to t, all non-empty, '
            'LexSpec: first matching rule wins / one-character Error token)',
            'Regex/MinWidth.v: ends_adv (MW), rmatch_width',
            'Lexer/LexFacts.v: lex_go_spec, LexSpec_lossless, lex_total_lossless',
            'Inst/C01.v: cur_rules_wide, cur_rep_ok (vm_compute over the regenerated SQL_REGEX)']
TRUSTED = ['agreement of Regex/Re.v with CPython re is tested (rmatch + lex stages), not proved']
ASSUMPTIONS = ['inputs are Python str (bytes/stream decoding is C19)']


def oracle(text):
    """Direct statement of C01 on the implementation; returns None or a failure description."""
    from sqlparse import lexer, tokens as T
    try:
        toks = list(lexer.tokenize(text))
    except Exception as e:  # noqa
        return {'input': [ord(c) for c in text], 'observed': 'exception ' + type(e).__name__ + ': ' + str(e)[:200]}
    if ''.join(v for _, v in toks) != text:
        return {'input': [ord(c) for c in text], 'observed': 'token values do not concatenate to the input'}
    for tt, v in toks:
        if v == '':
            return {'input': [ord(c) for c in text], 'observed': 'empty token value'}
        if tt is T.Error and len(v) != 1:
            return {'input': [ord(c) for c in text], 'observed': 'Error token of length != 1'}
    # an Error token must be a character no rule matches at that position
    rules = impl.compiled_rules()
    pos = 0
    for tt, v in toks:
        matched = any(rx(text, pos) for rx, _ in rules)
        if (tt is T.Error) == bool(matched):
            return {'input': [ord(c) for c in text],
                    'observed': f'token at {pos}: Error={tt is T.Error} but some rule matches={bool(matched)}'}
        pos += len(v)
    return None


class _StrSub(str):
    """an instance of a subclass of str is a Python str (Django SafeString, numpy.str_, a str-valued Enum member)"""


def oracle_subclass(text):
    """the same text handed over as an instance of a str subclass lexes like the plain str"""
    from sqlparse import lexer
    try:
        want = list(lexer.tokenize(text))
    except Exception:  # noqa
        return None            # reported by oracle()
    try:
        got = list(lexer.tokenize(_StrSub(text)))
    except Exception as e:  # noqa
        return {'input': [ord(c) for c in text], 'form': 'str-subclass',
                'observed': 'str subclass instance: exception ' + type(e).__name__ + ': ' + str(e)[:200]}
    if got != want:
        return {'input': [ord(c) for c in text], 'form': 'str-subclass',
                'observed': 'str subclass instance: tokens differ from those of the plain str'}
    return None


def history_failures(n=400):
    """texts of equal length created, lexed and dropped one after the other: CPython hands the address of the dropped
    string to the next one, so anything remembered about `the text lexed last` by identity shows here"""
    from sqlparse import lexer
    out = []
    prev = None
    for k in range(n):
        s = 'select c%04d from t%04d where k = %04d' % (k, (7 * k) % 10000, (13 * k) % 10000)
        try:
            toks = list(lexer.tokenize(s))
            bad = None if ''.join(v for _, v in toks) == s else 'token values do not concatenate to the input'
        except Exception as e:  # noqa
            bad = 'exception ' + type(e).__name__
        if bad:
            out.append({'input': [ord(c) for c in s], 'history': 'the text lexed just before (dropped): %s' % prev,
                        'observed': bad + ' (after lexing and dropping another text of the same length)'})
            break
        prev = repr(s)
        del s, toks
    return out


def gen_texts(ctx, n):
    out = []
    dist = collections.Counter()
    for _ in range(n):
        s, kind = gens.mixed_text(ctx.rng)
        if len(s) > ctx.n(400, 3000):
            s = s[:ctx.n(400, 3000)]
        out.append(s)
        dist[kind] += 1
    return out, dist


def run(ctx):
    n = ctx.n(3000, 60000)
    texts, dist = gen_texts(ctx, n)
    corpus = vlib_corpus('lex')
    texts = corpus + texts
    res = {'disagreements': [], 'failures': [], 'samples': []}
    # stage lex
    replies = vlib.run_model(['lex ' + vlib.cps(s) for s in texts])
    res['failures'] += history_failures()
    shapes = set()
    nsub = 0
    for s, r in zip(texts, replies):
        mine = impl.lex_dump(s)
        if mine != r:
            res['disagreements'].append({'stage': 'lex', 'input': [ord(c) for c in s],
                                         'impl': mine[:300], 'model': r[:300]})
        f = oracle(s)
        if f:
            f['stage'] = 'oracle'
            res['failures'].append(f)
        if nsub < 300:
            nsub += 1
            f = oracle_subclass(s)
            if f:
                f['stage'] = 'oracle'
                res['failures'].append(f)
        if mine.startswith('OK '):
            types = tuple(t.split(':')[0] for t in mine[3:].split('|')) if len(mine) > 3 else ()
            if len(set(types)) >= 2:
                shapes.add(types)
    # long tokens / long runs (oracle only)
    nlong = 0
    for kind, text, span in gens.long_cases(ctx.quick() if hasattr(ctx, 'quick') else True):
        nlong += 1
        f = common.long_lex_failure(kind, text, span)
        if f:
            f['stage'] = 'oracle-long'
            res['failures'].append(f)
    # stage rmatch: every rule at sampled positions
    nr = len(impl.compiled_rules())
    reqs = []
    meta = []
    rr = ctx.rng
    for s in texts[:ctx.n(400, 4000)]:
        if not s:
            continue
        for _ in range(3):
            pos = rr.randrange(0, len(s))
            for i in range(nr):
                reqs.append(f'rmatch {i} {pos} {vlib.cps(s)}')
                meta.append((i, pos, s))
    replies2 = vlib.run_model(reqs)
    nmatch = 0
    for (i, pos, s), r in zip(meta, replies2):
        mine = impl.rmatch_dump(i, pos, s)
        if mine != 'OK None':
            nmatch += 1
        if mine != r:
            res['disagreements'].append({'stage': 'rmatch', 'rule': i, 'pos': pos,
                                         'input': [ord(c) for c in s], 'impl': mine, 'model': r})
    kdone = common.kernel_route(ctx, 'lex', texts, res)
    lens = collections.Counter(min(len(s) // 50 * 50, 1000) for s in texts)
    res.update({
        'evaluations': len(texts) + len(reqs),
        'distinct_nontrivial': len(shapes),
        'rule': 'texts from G_sql (rendered grammar scripts), G_junk (token soup), G_uni (boundary code points) '
                'and spliced mixes; lex stage compares the full (type, value) list of model and implementation; '
                'rmatch stage compares match length of every rule at random positions; distinct_nontrivial = '
                'distinct token-type sequences with >= 2 different types',
        'samples': [texts[len(corpus) + i][:120] for i in range(min(5, len(texts) - len(corpus)))],
        'traces_validated_against_impl': len(texts) + len(reqs),
        'distribution': {'generator': dict(dist), 'corpus': len(corpus),
                         'length_histogram': {str(k): v for k, v in sorted(lens.items())},
                         'rmatch_requests': len(reqs), 'rmatch_matches': nmatch,
                         'kernel_evaluated_lex (vm_compute inside coqc, compared with the implementation)': kdone},
    })
    return res


def run_oracle_only(ctx):
    texts, dist = gen_texts(ctx, ctx.n(3000, 60000))
    fails = [f for f in (oracle(s) for s in texts) if f]
    return {'failures': fails, 'evaluations': len(texts), 'distinct_nontrivial': 0,
            'rule': 'oracle only (model unavailable)', 'samples': texts[:3]}


def vlib_corpus(stage):
    import json
    import os
    p = os.path.join(vlib.VERIF, 'corpus', stage + '.json')
    try:
        with open(p) as f:
            return [''.join(map(chr, x)) for x in json.load(f)]
    except OSError:
        return []


def search(ctx, hints):
    """Look for a concrete input on which the implementation violates C01."""
    fails = []
    tried = 0
    # 1. disagreeing inputs
    for d in hints.get('disagreements', []):
        if 'input' in d:
            s = ''.join(map(chr, d['input']))
            tried += 1
            f = oracle(s)
            if f:
                fails.append(f)
    # 2. every single character / pair around the boundary code points, then generators
    if not fails:
        for a in gens.BOUNDARY_CPS:
            for s in (chr(a), chr(a) + ' ', ' ' + chr(a), chr(a) * 2, 'a' + chr(a) + 'b'):
                tried += 1
                f = oracle(s)
                if f:
                    fails.append(f)
                    break
            if fails:
                break
    if not fails:
        import time
        t0 = time.time()
        budget = ctx.n(60, 600)
        while time.time() - t0 < budget and not fails:
            s, _ = gens.mixed_text(ctx.rng)
            tried += 1
            f = oracle(s)
            if f:
                fails.append(f)
    if not fails:
        fails += history_failures()
    if not fails:
        for s in ('select 1', 'a', ''):
            tried += 1
            f = oracle_subclass(s)
            if f:
                fails.append(f)
                break
    if fails:
        fails = [shrink(fails[0])]
    return {'failures': fails, 'tried': tried}


def shrink(f):
    if f and (f.get('long_input') or f.get('history')):
        return f
    s = ''.join(map(chr, f['input']))
    best = f
    orc = oracle_subclass if f.get('form') == 'str-subclass' else oracle
    changed = True
    while changed and len(s) > 1:
        changed = False
        for k in (len(s) // 2, 8, 4, 2, 1):
            if k < 1:
                continue
            i = 0
            while i < len(s):
                t = s[:i] + s[i + k:]
                g = orc(t) if t else None
                if g:
                    s, best, changed = t, g, True
                else:
                    i += k
    return best


def replay(payload):
    f = payload.get('failure')
    if f and f.get('history'):
        g = history_failures()
        return {'fails': bool(g), 'observed': g[:1]}
    if not f or 'input' not in f:
        return {'fails': False, 'note': 'no concrete input in replay file: ' + str(payload.get('no_longer_checks'))}
    if f.get('long_input'):
        lc = common.long_case_text(f)
        if lc:
            g = common.long_lex_failure(*lc)
            return {'fails': bool(g), 'observed': g}
    orc = oracle_subclass if f.get('form') == 'str-subclass' else oracle
    g = orc(''.join(map(chr, f['input'])))
    return {'fails': bool(g), 'observed': g}
