"""C06 - layout formatting never changes the significant tokens of the SQL.
L1: regenerated mutation-site inventory of the four layout filters, every site whitespace-only (Inst/C06.v) + the abstract
    run theorem C06_leaves_preserved (Filters/SitesFacts.v); run-time instrumentation self-test of the inventory.
L2/L3: exact models of strip_whitespace / spaces / serializer / reindent (correspondence stages of the C10 parts)."""
from props import composite, C06_sites

composite.make(globals(), [('sites', C06_sites)])
THEOREMS = THEOREMS + [  # noqa: F821
    'Filters/StripWsFacts.v stripws_nonws_leaves, Filters/SpacesFacts.v spaces_nonws_leaves, Filters/ReindentFacts.v '
    'reindent_sigleaves: the exact models of the layout filters preserve the non-whitespace leaves (any tree, any options)',
    'Filters/SerializerSpecFacts.v serialize_spec, serialize_keeps_quoted: what the serializer changes, exactly']
