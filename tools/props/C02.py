"""C02 - parse() is text-preserving."""
import vlib
import impl
from props import common

THEOREMS = ['Props/C02.v: C02_roundtrip (forall t, parse t = Ok stmts -> t = join(str(stmt)) ++ text of a tail of '
            'whitespace-typed tokens)', 'C02_node_text (str(node) = concatenation of its leaf values)',
            'C02_splitter_partition (for ANY level function/terminator/EOS set: every token in exactly one statement, '
            'in order; only a final all-whitespace statement is dropped)',
            'C02_group_text (group() preserves the text)',
            'Group/GroupFacts.v: group_good -- every one of the 25 passes and both generic drivers preserve the leaf '
            'sequence, by induction over their loops and over the tree',
            'Tree/Inv.v: group_tokens_leaves, group_tokens_cached']
TRUSTED = ['the hand-written models of StatementSplitter.process, TokenList.group_tokens, _group_matching, _group and '
           'the 25 passes are tied to the code by the stage-wise parse correspondence (tree after every pass), not by translation']
ASSUMPTIONS = ['premise parse = Ok: totality is C07']


def oracle(text):
    import sqlparse
    try:
        stmts = sqlparse.parse(text)
    except Exception as e:  # noqa
        return None     # totality is C07's business
    joined = ''.join(str(s) for s in stmts)
    inp = [ord(c) for c in text]
    if not text.startswith(joined):
        return {'input': inp, 'observed': 'join(str(stmt)) is not a prefix of the input: %r' % joined[:80]}
    tail = text[len(joined):]
    if tail.strip() != '':
        return {'input': inp, 'observed': 'missing tail is not whitespace: %r' % tail[:80]}
    stack = list(stmts)
    while stack:
        n = stack.pop()
        if n.is_group:
            if str(n) != ''.join(t.value for t in n.flatten()):
                return {'input': inp, 'observed': 'str(node) != join of leaf values'}
            if str(n) != ''.join(str(t) for t in n.tokens):
                return {'input': inp, 'observed': 'str(node) != join of children str'}
            stack.extend(n.tokens)
    return None


def long_roundtrip_failure(kind, text):
    import sqlparse
    try:
        stmts = sqlparse.parse(text)
    except Exception:  # noqa
        return None
    if ''.join(str(st) for st in stmts) != text:
        return {'input': [ord(c) for c in text[:200]], 'long_input': {'kind': kind, 'length': len(text)},
                'observed': 'long input (%s, %d characters): the statements of parse() do not concatenate to the input' % (kind, len(text))}
    return None


HISTORY_TEXTS = ['select a, b from t where x = 1', 'insert into t (a) values (1); select 2', 'select f(a, (b + 1)) from t']


def history_failures():
    """parse() of a text gives a tree that reproduces the text also when the SAME text was parsed before and the tree
    handed out then was edited in place (trees are mutable; a result shared between calls shows here)"""
    import sqlparse
    from sqlparse.filters import StripWhitespaceFilter
    out = []
    for t in HISTORY_TEXTS:
        try:
            first = sqlparse.parse(t)
            for st in first:
                StripWhitespaceFilter().process(st)
                for leaf in st.flatten():
                    if leaf.ttype is sqlparse.tokens.Name:
                        leaf.value = leaf.value + '_edited'
            again = sqlparse.parse(t)
            got = ''.join(str(st) for st in again)
        except Exception as e:  # noqa
            got = 'exception ' + type(e).__name__
        if got != t:
            out.append({'input': [ord(c) for c in t], 'history': 'parse(text); edit the returned tree in place; parse(text)',
                        'observed': 'the second parse() of the same text gives %r' % got[:200]})
    return out


def run(ctx):
    texts, dist = common.gen_texts(ctx, ctx.n(2500, 40000))
    texts = common.corpus('parse') + texts
    res = {'disagreements': [], 'failures': []}
    import gens as _gens
    res['failures'] += common.threshold_failures('C02', ctx.quick())
    res['failures'] += history_failures()[:1]
    for kind, text, span in _gens.long_cases(ctx.quick()):
        if kind in ('long-ws',):
            continue                      # tens of thousands of whitespace tokens: the lexer-level checks cover it
        f = long_roundtrip_failure(kind, text)
        if f:
            res['failures'].append(f)
    dis, dumps = common.corr_stage('parse', texts, impl.parse_dump, 'parse', extra='all ')
    res['disagreements'] += dis
    kdone = common.kernel_route(ctx, 'parse', texts, res)
    # stage-wise: tree after each pass on a sample
    npass = len(impl.pass_list())
    sample = texts[:ctx.n(250, 3000)]
    for k in range(npass + 1):
        d, _ = common.corr_stage('parse', sample, lambda s, k=k: impl.parse_dump(s, k), f'group_upto({k})', extra=f'{k} ')
        res['disagreements'] += d
    shapes = set()
    for s, d in zip(texts, dumps):
        f = oracle(s)
        if f:
            res['failures'].append(f)
        if 'G' in d[3:].replace('GStatement', ''):
            shapes.add(common.tree_shape(d))
    res.update({
        'evaluations': len(texts) + len(sample) * (npass + 1),
        'distinct_nontrivial': len(shapes),
        'rule': 'texts as in C01 plus procedural scripts; parse stage compares the complete tree (classes, leaf '
                'types and values, cached group values) of model and implementation, on a sample after each of the '
                f'{npass} passes; distinct_nontrivial = distinct tree shapes containing at least one group below the statement',
        'samples': [t[:120] for t in texts[:5]],
        'traces_validated_against_impl': len(texts) + len(sample) * (npass + 1),
        'distribution': {'generator': dict(dist), 'length_histogram': common.length_hist(texts), 'passes': npass,
                         'kernel_evaluated_parse (vm_compute inside coqc, compared with the implementation)': kdone},
    })
    return res


def run_oracle_only(ctx):
    texts, dist = common.gen_texts(ctx, ctx.n(2500, 40000))
    fails = [f for f in (oracle(s) for s in texts) if f]
    return {'failures': fails, 'evaluations': len(texts), 'distinct_nontrivial': 0,
            'rule': 'oracle only (model unavailable)', 'samples': texts[:3]}


def search(ctx, hints):
    h = history_failures()
    if h:
        return {'failures': h[:1], 'tried': len(HISTORY_TEXTS)}
    return common.generic_search(ctx, hints, oracle)


def shrink(f):
    if f and (f.get('long_input') or f.get('history')):
        return f
    return common.shrink_failure(f, oracle)


def replay(payload):
    _f = payload.get('failure') or {}
    if _f.get('threshold_input'):
        return common.threshold_replay('C02', _f)
    f = payload.get('failure')
    if f and f.get('history'):
        g = [x for x in history_failures() if x['input'] == f.get('input')]
        return {'fails': bool(g), 'observed': g[:1]}
    if f and f.get('long_input'):
        lc = common.long_case_text(f)
        if lc:
            g = long_roundtrip_failure(lc[0], lc[1])
            return {'fails': bool(g), 'observed': g}
    return common.replay_with(oracle, payload)
