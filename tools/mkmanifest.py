"""Writes MANIFEST.json from the table below (kept in one place so it is always valid)."""
import json
import os

VERIF = os.path.dirname(os.path.dirname(os.path.abspath(__file__)))

CHECKS = {
    'C01': dict(
        text='Machine-checked proof (Coq 8.16.1) that the lexer model is total and lossless for EVERY text '
             '(C01_lossless: lexing succeeds, token values concatenate to the input, no empty token, output '
             'satisfies the first-matching-rule specification with one-character Error fallback), by induction '
             'on the text with the skip counter generalised and the min-width soundness lemma (MW) of the '
             'list-of-results regex semantics. The theorem is re-checked on every run against the rule table, '
             'character classes, case tables and keyword dictionaries regenerated from /repo; the hand-written '
             'regex semantics and scan loop are tied to the code by differential runs (lex and per-rule rmatch '
             'stages) of the extracted model against CPython/sqlparse, and by AST pins of Lexer.clear/add_keywords/is_keyword, the scan '
             'loop of get_tokens and the class-level attributes (tools/regen/gen_lexpins.py, fail-closed: Gen/LexPins.v).',
        note='Trusted: Coq kernel; translators (re._parser ASTs, exhaustive atom evaluation); extraction '
             '(ExtrOcamlBasic only) + driver; the regex structure semantics Regex/Re.v is tested against CPython '
             're, not proved equal to it. Print Assumptions: closed under the global context.',
        design='7/C01', technique='Coq proof (induction + MW lemma) over regenerated rule table; model/impl differential lexing'),
    'C02': dict(
        text='Coq proof that parse() of the model is text-preserving for EVERY text: C02_roundtrip (input = join of str(stmt) '
             '++ a tail of whitespace-typed tokens), C02_splitter_partition (for any level function), C02_group_text and '
             'group_good: each of the 25 grouping passes and both generic drivers preserve the leaf sequence, by induction over '
             'their loops and over the tree. The hand-written splitter/grouping model is tied to the code by comparing complete '
             'trees of model and implementation after every pass; _change_splitlevel, terminator test and EOS types are '
             'translated from the source on every run.',
        note='Trusted: Coq kernel, translators, extraction, the stage-wise correspondence harness; the grouping loops are '
             'modelled by hand (tested against the code, not translated). Premise parse=Ok (totality is C07).',
        design='7/C02', technique='Coq proof (operation invariant over all passes) + stage-wise model/impl tree correspondence'),
    'C03': dict(
        text='Coq proof, for EVERY text, that the leaves of parse() are the lexer tokens of the split statements (same values; '
             'types equal or re-typed to Operator), that every group caches its current text (C03_leaves_and_cached, '
             'C03_every_pass after each pass prefix) and that every group of every parsed statement is non-empty (C03_nonempty), plus '
             'C03_at_offset. Parent references and object identity: an OBJECT-HEAP model (ids, parent fields, child-id lists) of '
             'TokenList.__init__/group_tokens/insert_before/insert_after with, for ANY well-formed heap, group, class, indices and '
             'both branches (new group / extend): C03_parent_group_tokens_wf (every child\'s parent field names the group that contains '
             'it, every object occurs once, the tree is acyclic, cached values stay correct, leaf sequence unchanged), '
             'C03_parent_group_tokens_refines (the heap operation commutes with the pure group_tokens of the tree model at any path), '
             'C03_parent_wf_iff_tree, insert_*_wf, refutations for the variants without the re-parenting loop / without grp.parent = '
             'self; navigation helpers specified and proved on well-formed heaps (token_index, token_next/prev with the literal '
             '_token_matching index arithmetic, token_first, is_child_of, has_ancestor, within, get_token_at_offset). Tied to the code '
             'by tree correspondence after every pass, by random operation sequences on real objects (dump of every object with the '
             'path its parent field names) and by replaying every group_tokens call of the real pipeline in the heap model; per-node '
             'oracle on the implementation.',
        note='Trusted: hand-written heap model (tested against real TokenList objects, not translated); that the 25 passes mutate '
             'the tree only through group_tokens (checked: no .tokens mutation / parent assignment in grouping.py; recorded calls replay).',
        design='7/C03', technique='Coq proof (leaf/cached/non-empty invariants; heap invariant + refinement) + correspondence + per-node oracle'),
}

CHECKS.update({
    'C04': dict(
        text='Coq proofs for EVERY text: C04_agree (split() = the stripped text of exactly the statements of parse()), C04_partition '
             '(pieces non-empty, found in order at non-overlapping positions, everything before/between/after them is whitespace: '
             'uses a sound must-contain-a-non-space analysis of every regenerated lexer rule and the equality of the regex \\s class '
             'with str.isspace), C04_resplit_tokens (token-level idempotence) and C04_resplit_shape (re-splitting only cuts further, '
             'loses nothing). Text-level idempotence is REFUTED on the unchanged tree (C04_idem_refuted, C04_idem_refuted_leftctx: known '
             'findings F11, F17) and proved under the exact re-lexing-stability guard (C04_idem_partial), whose hypothesis is evaluated '
             'on the implementation for every piece. Model tied to the code by the split correspondence (both strip_semicolon values).',
        note='Partial for the idempotence clause (two listed findings). Trusted: kernel, translators, extraction, harness; hand model of '
             'split()/StripTrailingSemicolonFilter tested against the code.',
        design='7/C04', technique='Coq proof (partition + rule analysis) + refutation witnesses + split correspondence'),
    'C05': dict(
        text='Coq proofs over the REGENERATED _change_splitlevel/terminator/EOS tables: C05_k_statements (k plain statements joined by '
             '`;` and whitespace/one-line comments are returned as exactly those k statements, any k, any token contents: induction over '
             'the token stream with the splitter state generalised), C05_paren_no_split_partial (a `;` nested in parentheses never ends '
             'a statement when no END precedes it; the full claim is refuted: C05_paren_refuted, finding F1), C05_opaque_values '
             '(replacing the values of literal/quoted-name/comment tokens leaves number and extent of the statements unchanged) and the '
             'region theorems of Lexer/Regions.v (each opaque region is exactly one such token). A trailing comment-only statement is '
             'finding F18. Splitter loop tied to the code by the splitstream correspondence; direct oracle on grammar scripts with '
             'known statement structure and on region-body replacements.',
        note='Partial where refuted (F1, F18). The rendering grammar -> token classes step rests on the region theorems and the lex '
             'correspondence. Trusted base as C02.',
        design='7/C05', technique='Coq proof (induction over token stream, generated decision table) + region lemmas + correspondence'),
    'C08': dict(
        text='Exact Gallina models of KeywordCaseFilter, IdentifierCaseFilter, TruncateStringFilter (incl. full str.lower/capitalize with '
             'the final-sigma rule, tables regenerated from the interpreter) and of StripCommentsFilter (incl. its use of stale cached '
             'values and the regex search), each validated by differential runs; theorems for ALL token lists/trees: exact '
             'characterisations (kwcase_spec, idcase_spec, truncate_spec), types/order/untouched tokens preserved, idempotence '
             '(refuted for capitalize on U+0149 and for text-level truncation), C08_case_relex (ASCII re-casing never fuses/splits tokens: '
             'relational invariance of the regex semantics + closure of every regenerated atom), strip_comments total, residue/'
             'no-comment-left/hints-preserved/separation/idempotence theorems under decidable hypotheses whose negations are exactly the '
             'listed findings (adjacent comments, hint after comment, comment as first child).',
        note='Partial: several clauses are false of the unchanged tree (10 listed findings with mechanism-specific class predicates; the '
             'predicates for strip_comments are the hypotheses of the partial theorems evaluated by the extracted model).',
        design='7/C08', technique='Coq proof over exact filter models + refutations + stage correspondence + direct oracle'),
    'C09': dict(
        text='Coq proofs for EVERY sibling list/tree: C09_driver (the index-juggling _group_matching loop over a snapshot with '
             'tidx_offset/opens equals the textbook stack matcher), C09_recursive (inside, never across), C09_shape/C09_residual '
             '(new groups are opener..closer, maximality), C09_passes (passes 2-7 are the six matchers in order) and the PIPELINE theorems '
             'C09_pipeline / C09_first_last_leaf (Props/C09p.v): the 18 later passes never create, destroy, split or merge a '
             'bracket/block node (spans preserved exactly) and in the final tree every such node starts with its opening token and, '
             'ignoring trailing whitespace/comments, ends with its closing token. Model tied to the code by tree correspondence after '
             'each of passes 0-7 (and all 25 in C02); a reference stack matcher run on the implementation trees as direct oracle.',
        note='Trusted: hand model of _group_matching/group_tokens and of the later passes (tested against the code after every pass).',
        design='7/C09', technique='Coq proof (simulation invariant; span preservation through all passes) + correspondence'),
    'C11': dict(
        text='Coq proofs. SPELLING OF KEYWORD TOKENS (ASCII letter case AND the white space inside compound keywords such as ORDER BY, '
             'UNION ALL, END IF, CREATE OR REPLACE), unbounded, NO guard, every layer after the lexer: C11_split_pointwise_kwspell '
             '(statement boundaries, token by token), C11_group_kwspell (ALL 25 grouping passes map related trees to related trees -- same '
             'structure, classes and types, all leaves equal except keyword leaves, which agree after upper-casing and collapsing white '
             'space), C11_parse_kwspell (cur_parse from related token streams, with equal get_type), and its letter-case instance from the '
             'TEXT: C11_lex_case + C11_parse_case_text_full (ANY ASCII re-casing that touches keyword tokens only). Proved generically on '
             'the callback IR regenerated from the source (C11g_callbacks_case_safe: every boolean callback of the _group passes reads a '
             'keyword leaf only through Token.normalized or value.upper() == <word without white space>, by vm_compute over Gen/PassTab.v). '
             'These statements carried the guards `value == AS`, `GO`, END IF / ORDER BY spelled with one blank until five `fix:` commits in '
             '/repo removed the defects the guards described. WHITESPACE BETWEEN TOKENS: C11_lex_ws_run (a non-empty whitespace run at a token '
             'boundary lexes to one token per unit and the rest is lexed as after a single blank), C11_multiword_fin (the multi-word keyword '
             'rules x inner runs x case: one token; finite family, bound in the statement) and its UNBOUNDED form C11_first_match_run / '
             'C11_first_match_respell (at a position whose next character is an ASCII letter, the rule of the table that matches and the '
             'place where its match ends do not depend on the length or spelling of the white-space runs of the text, for every run and every '
             'context; instance of the generic simulation C11_run_sim for the syntactic class `good`, checked on the regenerated rule table by '
             'C11_run_table; the TZCast rule is left to a hypothesis that holds outright unless the letter is A or W); WHOLE TEXTS: C11_lex_run_all (texts over white space and '
             'the characters at which every rule is in the class / cannot start / must consume a quote -- every ASCII character except the quotes, backtick, '
             '# $ - / [ -- that are equal after collapsing each white-space run to one marker are lexed into the same significant tokens, white-space tokens '
             'at the same places; generic form C11_lex_all_generic for any rule table meeting table_ok) and C11_text_split_run (composed with the splitter: '
             'the same statements), C11_text_get_type_run (the type of the first statement); WHITE-SPACE TOKENS RE-SPELLED ONE FOR ONE (Props/C11w.v): '
             'C11w_parse_wsval -- token streams related token by token (keyword tokens up to case and inner white space, white-space tokens up to ANY '
             'white-space value, everything else equal) are split alike and parsed by all 25 passes into related trees with equal get_type; the callbacks '
             'regenerated from grouping.py cannot tell two white-space values apart (C11w_callbacks_ws_safe); C11_split (statement sequence invariant under '
             'the skeleton relation; the spelling guard is derived: C11_split_guard_free; one guard left), C11_group_matching (bracket '
             'matching commutes with taking shapes, every class). Two refutations remain (comment after a terminator; trailing comment '
             'followed by a line break). Whitespace invariance of the generic _group driver and the ad-hoc passes is covered by the '
             'metamorphic oracle (two renderings of one script) and the parse correspondence.',
        note='Partial: keyword spelling proved for every layer; inter-token whitespace proved for lexer, splitter and bracket matcher, the '
             'remaining grouping passes by exploration; compound keywords with irregular inner whitespace reach the theorem through the finite '
             'lexer family. Two open findings, seven fixed in /repo.',
        design='7/C11', technique='Coq proof per layer (relational invariance, skeleton simulation) + refutations + metamorphic oracle'),
    'C16': dict(
        text='Coq proofs, generic in the rules and instantiated on the REGENERATED SQL_REGEX on every run: C16_criterion (every unbounded '
             'repeat has a body that is a prefix-free or suffix-free code of fixed-length character-class words; disjointness decided on the '
             'enumerated code-point sets), C16_no_double_match (no repeat matches the same substring in two ways, every text), '
             'C16_paths_poly / C16_work_poly / C16_lexer (backtracking paths and work of the list-of-results semantics polynomial in the '
             'text length). The criterion rejects the historically vulnerable shapes (refutation examples). Concrete half: pump strings '
             'derived from every repeat of the current rules must tokenize within a calibrated budget.',
        note='The bound is about the model (ordered-list backtracking semantics, tied to CPython re by rmatch correspondence); that sre '
             'does no more search than that is assumed. Timing half is a test by nature.',
        design='7/C16', technique='Coq proof (unambiguity of prefix/suffix codes; polynomial path/work bounds) + pump timing'),
    'C17': dict(
        text='Coq proof over the REGENERATED split-level table: C17_create_unit (CREATE[ OR REPLACE] <header> BEGIN <block> END ; is one '
             'statement for every block of the bracket language: nested BEGIN..END, IF/WHILE/FOR..END IF/END WHILE/END FOR, CASE..END expressions NESTED to any depth '
             '(since the fix of finding F39: the splitter counts the open CASE expressions instead of keeping a flag), '
             'LOOP..END LOOP, inner DECLARE, parentheses, semicolons, any depth: induction over the grammar derivation with the splitter '
             'state generalised), C17_script/C17_partial (surrounding units returned separately and unchanged). The full grammar is REFUTED '
             'in five ways (FOR..LOOP..END LOOP, CASE..END CASE, DECLARE before BEGIN, block keyword before `(`/`.`, a qualified name ending '
             'in .case): vm_compute witnesses, listed findings F2, F3, F12, F19, F38.',
        note='Partial (five listed findings). Trusted base as C05.',
        design='7/C17', technique='Coq proof (induction over block grammar, generated table lemmas) + refutations + correspondence'),
    'C19': dict(
        text='Coq proofs: the decode ladder of Lexer.get_tokens as a total model (strict UTF-8 codec with round-trip AND injectivity proofs, '
             'Latin-1, a byte-exact unicode-escape decoder); C19_str/_stream/_utf8_noenc/_utf8_enc/_bytes_enc and the *_forms corollaries '
             '(parse, parsestream, split, format give the same result for str, stream, UTF-8 bytes, bytes+matching codec), '
             'C19_parse_is_stream and C19_single_decode over facts extracted from the source AST on every run; C19_latin1 (bytes that are not '
             'UTF-8 decode as Latin-1, all byte strings; the fallback codec name is regenerated from the source; for the former '
             'unicode-escape fallback the statement is refuted with the exact boundary; that defect was repaired in /repo by a fix: commit). '
             'COMMAND LINE inside the model (Props/C19cli.v): the argparse table of create_parser() and the input/output handling of '
             'main() are REGENERATED from the source (Gen/CliTab.v, fail-closed); an executable model of the argparse subset '
             '(exact/abbreviated/`=`/glued/clustered flags, type=int, type=bool, choices, errors) and of main; C19cli_options_spec (every '
             'documented flag in every spelling maps to exactly the documented option and value; last one wins), C19cli_defaults_off, '
             'C19cli_semantics_family (1536 command lines: the CLI filter stack equals that of format(**meant)), '
             'C19cli_writes_format_stdout/_outfile (file or stdin, stdout or -o: the bytes written are encode(format(decode(input), options)) '
             'for ANY format function, under the explicit guards), C19cli_default_encoding_utf8; the three guards are shown necessary by '
             'refutations that are exactly the three listed CLI findings (universal newlines, type=bool flags, unencodable -o output). '
             'Tied to the code by the decode correspondence, by in-process runs of the real sqlparse.cli against the extracted model '
             '(format replaced from outside by a marker function) and by the front-end oracle over every flag x channel x encoding.',
        note='Partial: codecs other than UTF-8/Latin-1 enter as a round-trip hypothesis; abbreviated/clustered flag spellings are in the model '
             'and correspondence-tested but outside cli_options_spec. Three open CLI findings, one API finding fixed.',
        design='7/C19', technique='Coq proof (codec round-trip, decode ladder, regenerated CLI table + argparse/main model) + correspondence + oracle'),
    'C20': dict(
        text='Coq proofs for ANY number of threads and ANY interleaving of the statements of Lexer.get_default_instance (instruction list '
             'translated from the source on every run): C20_sched_init_safe, _same_instance, _single_init, _never_replaced, no-deadlock under '
             'fair schedules (invariant by induction on the schedule; refuted for the unlocked / early-release variants); history machine '
             'over the regenerated inventory of persistent state: C20_calls_pure, C20_history, C20_reinit. Real threads are driven '
             'statement by statement (sys.settrace) through enumerated schedules and compared with the extracted model; random call '
             'histories are compared with fresh interpreters; free-running thread stress. Both shapes of the program (publish-then-initialise, '
             'and initialise-then-publish) are covered by the same generic theorems; the interrupted-initialisation history theorem is '
             'conditional on the generated flag publishes_before_init: refuted when true (the former finding, repaired in /repo by a fix: '
             'commit), unconditional when false (Inst/C20Fixed.v: C20_xhistory, C20_every_interruption_harmless on the current tree).',
        note='Trusted: statement-level atomicity under the GIL; the inventory classification rules. One finding, fixed in /repo.',
        design='7/C20', technique='Coq proof (schedule invariant, history state machine) + forced-schedule correspondence on real threads'),
})

CHECKS.update({
    'C06': dict(
        text='Layer 1 (all four layout filters, every option combination): a fail-closed translator regenerates the inventory of EVERY '
             'tree-mutation site of ReindentFilter, AlignedIndentFilter, StripWhitespaceFilter, SpacesAroundOperatorsFilter with its '
             'dominating guard; Coq checks that every site is whitespace-only (C06_sites_ws_only, vm_compute over the regenerated '
             'inventory) and proves, for runs of ANY length of such edits anywhere in the tree, that the sequence of non-whitespace '
             'leaves is preserved (C06_leaves_preserved, induction on the closure). Layers 2/3: exact Gallina models of '
             'strip_whitespace, use_space_around_operators, reindent and the serializer (validated by string-equality correspondence '
             'with sqlparse.format) with stripws_nonws_leaves, spaces_nonws_leaves, reindent_sigleaves and the exact serializer '
             'characterisation. The link between L1 and the real control flow is a meta-argument backed by run-time instrumentation of '
             'every mutation (trusted). Re-lexing (fused/split) and statement count are decided by the direct oracle; 11 listed findings '
             '(GO fusion, serializer edits inside dollar-quoted literals/comments/backtick names, `#` operator turning into a comment, ...).',
        note='Partial: token fusion at the text level is covered by exact models + oracle, not by a general theorem; L1 soundness w.r.t. the '
             'code rests on the translator and the instrumentation self-test.',
        design='7/C06', technique='Coq proof (site inventory obligation + run theorem; exact filter models) + instrumentation + oracle'),
    'C07': dict(
        text='Coq proofs: C07_parse_total / C07_group_total (lexing, splitting and all 25 grouping passes never fail, for every text: each '
             'Err branch unreachable via index invariants, loop progress and a bracket-shape invariant; the invariant is shown necessary), '
             'validate_options/build_filter_stack translated from the source on every run with C07_options_partial, C07_options_exn '
             '(only SQLParseError -- or the two listed escapes OverflowError/ValueError -- for ALL option dictionaries), '
             'validated_well_typed, C07_options_first (rejection before any lexing); strip_comments total; reindent total on a '
             'decidable class of trees; accessor totality (accessors_total: no modelled accessor raises on well-formed trees; get_window '
             'after the fix: commit); output_format filters total. '
             'Direct oracle: parse/split/format x random valid option sets x every accessor on every node. Open findings: '
             'one option-validation escape (repr of a huge int); six fixed in /repo (among them the `(as)` IndexError of strip_whitespace and the ValueError of reindent_aligned on a CASE whose END was moved into a sub-group).',
        note='Partial: filters other than the modelled ones by oracle only; recursion depth is C15.',
        design='7/C07', technique='Coq proof (totality of pipeline and of generated option validation) + correspondence + oracle'),
    'C10': dict(
        text='Exact Gallina models of StripWhitespaceFilter, SpacesAroundOperatorsFilter, SerializerUnicode and ReindentFilter (all '
             'sub-options), each validated by correspondence on the final string of sqlparse.format; theorems for ALL trees: '
             'stripws_total + normal form (sw_nf, flat_nf under edge_ok), spaces_nf, C10_spaces_idem_tree (use_space_around_operators on its own '
             'result changes nothing, every tree -- since the fix: commit that made it count a Newline as white space), serialize_spec, reindent own-line lemma '
             '(C10_reindent_own_line_partial) and totality on rx_safe trees. The full normal-form and fixed-point claims are REFUTED on the '
             'unchanged tree (closed vm_compute witnesses replayed on the library): five listed strip/spaces findings and three reindent '
             'findings, each with a mechanism-specific class predicate.',
        note='Partial: the property is false of the unchanged tree in the listed ways; outside them it is decided by exact models + oracle.',
        design='7/C10', technique='Coq proof over exact filter models + refutations + string-level correspondence + oracle'),
    'C12': dict(
        text='Exact accessor models (tied by the acc correspondence: every accessor on every node) and, for ALL name/qualifier/alias texts '
             'and ALL whitespace runs, C12_reference: on the Identifier shapes produced by grouping (3 quotings x optional qualifier x '
             '{none, AS alias, implicit alias}) the five accessors return exactly the written parts with quotes removed; closed examples '
             'show cur_parse yields these shapes, and the finite pipeline family C12_pipeline_fin (bound in the statement: 11 contexts x 3 '
             'qualifiers x 4 quotings x 5 alias forms = 660 texts through lexer, splitter and all 25 passes, vm_compute) ties the shapes '
             'to what the passes build; the family is lifted over the values of the white-space tokens (C12_family_respelled: every re-spelling that keeps '
             'the tokens but changes white-space values gives an Identifier with the same accessor answers; accessor invariance lemmas). That every other syntactic context yields the canonical shape is decided by the direct oracle '
             'over 40+ contexts x quotings x alias forms x whitespace (two listed findings).',
        note='Partial: pipeline-level shape by exploration (oracle) + closed examples; accessor level unbounded.',
        design='7/C12', technique='Coq proof (accessor theorems on shapes) + acc correspondence + context oracle'),
    'C18': dict(
        text='UNBOUNDED pipeline-level theorem (Props/C18b.v, Inst/C18Barrier.v): C18_barrier -- for ANY token list pre ++ (ty, kw) :: rest '
             'with pre whitespace/comments, ty DML or DDL and the decidable guard barrier_guard (the next significant token is not `::`, '
             '`:=` or an AT TIME ZONE token; at most one `:=` token), grouping with all 25 passes succeeds and get_type() = Token.normalized of kw (upper-cased, inner white space collapsed): every '
             'pass preserves the invariant "the keyword leaf is a direct child of the Statement preceded only by skippable children" '
             '(generic lemma for the _group driver, per-pass instances, the matching passes via the stack-matcher specification, the scan '
             'passes); C18_barrier_lexed lifts it through cur_parse on lexer output; C18_barrier_text_partial to texts (prefix of '
             'whitespace and complete comments, any ASCII casing of every DML/DDL dictionary word, a one-unit separator, any continuation). '
             'Each conjunct of the guard is shown necessary by a closed refutation; two of them are NEW findings found by the proof '
             '(keyword before AT TIME ZONE; two `:=` with a stale index). Exact model of Statement.get_type (acc correspondence) with '
             'get_type_keyword / _cte / _unknown_* / _total; C18_create_or_replace_token (CREATE OR REPLACE with single blanks for EVERY pair of '
             'blank runs between the words -- refuted until the fix: commit on Token.normalized); finite families C18_pipeline_fin and '
             'C18_create_or_replace_fin; direct oracle over all DML/DDL words x casings x prefixes x continuations (two listed findings, one fixed).',
        note='Partial: the full claim ("whatever follows") is false of the unchanged tree in the listed ways; the text-level corollary '
             'covers separators of one whitespace unit (longer runs through C18_barrier_lexed with the lexer output as hypothesis).',
        design='7/C18', technique='Coq proof (pipeline invariant through all 25 passes; get_type theorems; finite families) + acc correspondence + oracle'),
})

CHECKS.update({
    'C13': dict(
        text='Coq proofs, unbounded: each pass that builds a clause node EQUALS a clean left-to-right functional specification '
             '(C13_where_pass = where_spec under the bracket-shape invariant, C13_functions_pass, C13_typed_literal_pass, '
             'C13_comparison_pass, C13_identifier_list_pass via a generic theorem about the _group driver), with written-clause '
             'corollaries for ANY length (where_extent, identifier_list_one_group: n items become ONE IdentifierList with exactly the '
             'written items; comparison_chain; typed literals); exact accessor models with get_identifiers_spec, get_parameters_spec/'
             '_partial (+ refutation: a sole non-identifier argument is dropped), get_cases_wellformed, comparison_operands; closed '
             'finite pipeline families (C13Fin: 198 WHERE texts = conditions x followers x nesting, lists, calls, typed literals, comparisons; '
             'C13_fnwords_fin: every alphabetic word of the regenerated keyword dictionaries is a function name before `(`, except the six pinned). '
             'The families are LIFTED by the relational invariance of C11 (C13_family_respelled, C13_where_respelled, ...): for every family text and EVERY text '
             'whose token stream is related to it token by token (keyword tokens re-cased / inner white space re-spelled, white-space tokens with any white-space value) '
             'the clause nodes of the two trees correspond one to one with the same structure -- each family text stands for unboundedly many spellings. '
             'Direct oracle on generated instances with known expected structure; 17 listed deviation classes (mechanism signatures), one fixed.',
        note='Partial: pipeline composition beyond the finite families and their re-spellings by oracle + correspondence; 17 known findings.',
        design='7/C13', technique='Coq proof (pass = specification; accessor theorems; finite families) + correspondence + oracle'),
})

CHECKS.update({
    'C14': dict(
        text='Coq proofs over the REGENERATED rule table and keyword dictionaries. Regions (unbounded, any body, any position in the scan '
             'loop, any continuation): C14_single_quoted, C14_double_quoted, C14_backtick, C14_block_comment, C14_line_comment, '
             'C14_dollar_quoted: each region is exactly ONE token of its type whatever the body contains (under decidable side conditions '
             'whose necessity is shown by five refutations: backslash before the closing quote, adjacent literals, lone CR, `$` glued on '
             'the left, case-insensitive closing tag). Dictionary words: C14_words_ctx_ok (finite: all 799 words x 35 delimited contexts, '
             'vm_compute in 9 shards over the regenerated tables) lifted to EVERY ASCII letter casing by the relational case-invariance '
             'of the lexer (C14_words, C14_words_alone): one token of the type given by the first dictionary that lists the word or by an '
             'earlier dedicated rule; C14_unreachable_entries pins the four entries that can never be one token. Non-words: '
             'C14_nonwords_are_names (UNBOUNDED: every plain identifier of any length and casing that is in no dictionary and matches no '
             'dedicated rule lexes as one Name in every delimited context; by a sound prefix-abstract matcher a_ends + a covered-prefix '
             'search discharged by vm_compute). Refutations outside the delimited contexts (word before `(`, after/before `.`, '
             'multi-word rules). FROM THE TEXT (not from the opener): C14_consumes_sound (a rule r with consumes c r = false never takes c into a '
             'match, every text), C14_quote_token_types (in the token list of EVERY text a token containing a single quote is an Error character, a '
             'comment, a quoted name, a dollar-quoted or quoted literal or the TZCast keyword), C14_swallowers_pinned + C14_pin_tzcast (which rules '
             'can run over a quote and where they start), and two refutations = listed findings (literal after AT TIME ZONE; comment opener '
             'directly after an operator character). Tied to the code by the lex correspondence and a direct oracle that recomputes the '
             'expected type independently in Python from the compiled SQL_REGEX and the registered dictionaries.',
        note='Two listed findings about left contexts. Non-ASCII casings and identifiers outside plain_ident are covered by the oracle only. '
             'Trusted base as C01.',
        design='7/C14', technique='Coq proof (region lemmas; finite word family lifted by case invariance; prefix-abstract matcher) + lex correspondence + oracle'),
})

CHECKS.update({
    'C15': dict(
        text='Partial by nature: the logic half is proved, the interpreter half is observed. LOGIC (Coq, over the call graph REGENERATED '
             'from every file of /repo/sqlparse on every run): a budget model of the pipeline (frames available = recursion limit) with '
             'C15_guard (for every text, option set and limit that leaves room to enter the entry point, parse/split/format never return '
             'RecursionError: the outcome is the unbudgeted result, SQLParseError, or an error the unbudgeted model has too), '
             'C15_ok_is_unbudgeted, C15_success_keeps_guarantees (C02 round trip and C03 invariants hold for every successful result '
             'under any limit), C15_monotone, C15_enough_frames, C15_split_outside, C15_str_budget/_flatten_budget, and the obligation '
             'C15_callgraph_ok (vm_compute over the regenerated graph: every site from which a depth-recursive function is reachable is '
             'inside the try/except RecursionError of FilterStack.run or only sees depth-1 statements / caller options; guard shape; no '
             'lazily stored generators; only parse/parsestream return deep trees; no persistent state published before it is complete). '
             'INTERPRETER half (not expressible in the model: CPython frame accounting, C stack, MemoryError): a subprocess matrix, one '
             'fresh interpreter per cell: construct x depth x recursion limit x entry point x option set, head-room probes (h frames left, '
             'first or later call of the process), limit scan; each cell checks the outcome class, the round trip/parent pointers of a '
             'successful result and that a later ordinary call in the same process still works.',
        note='Partial: per-pass frame cost is an abstraction (max depth + c), not derived from the code; interpreter behaviour by exploration. '
             'Limits stated with witnesses: no frames left to enter the entry point; str() applied by the caller to a returned deep tree.',
        design='7/C15', technique='Coq proof (guard/budget model + obligation over the regenerated call graph) + subprocess matrix observation'),
})

NOT_YET = {}


def main():
    checks = []
    for pid in sorted(CHECKS):
        c = CHECKS[pid]
        checks.append({
            'property_id': pid,
            'quick_cmd': f'python3 tools/check.py {pid} --tier quick',
            'thorough_cmd': f'python3 tools/check.py {pid} --tier thorough',
            'evidence_file': f'/verif/evidence/{pid}.json',
            'replay_cmd_template': f'python3 tools/check.py {pid} --replay {{path}}',
            'engine': 'coq-model',
            'level_claimed': {'category': 'proof', 'text': c['text'], 'design_ref': 'DESIGN.md section ' + c['design']},
            'level_note': c['note'],
            'technique': c['technique'],
        })
    props = [json.loads(l)['id'] for l in open(os.path.join(VERIF, 'properties.jsonl'))]
    na = [{'property_id': p, 'reason': NOT_YET.get(p, 'machinery for this property is not built yet (see DESIGN.md section 10 build order); no claim is made')}
          for p in props if p not in CHECKS]
    m = {
        'version': 1,
        'setup_cmd': 'python3 tools/setup.py',
        'hooks': {
            'guard': 'SQLPARSE_VERIF',
            'enable': 'no source hooks: the checks observe /repo from outside (PYTHONPATH=/repo); SQLPARSE_VERIF is reserved and unused',
            'baseline_off_cmd': 'cd /repo && /venv/bin/python -m pytest -q -p no:cacheprovider',
            'source_commits': [],
            'add_only': True,
        },
        'engines': [{
            'name': 'coq-model',
            'path': '/verif/coq',
            'serves_properties': sorted(CHECKS),
            'kind_free_text': 'Gallina model of sqlparse + theorems (Coq 8.16.1); tables regenerated from /repo by '
                              'fail-closed translators on every run; extracted to OCaml for stage-wise differential '
                              'correspondence against the implementation; oracle search for a failing input when an '
                              'obligation or the correspondence breaks',
        }],
        'checks': checks,
        'not_applicable': na,
        'notes': 'All checks share one build under /verif/coq (flock). python3 tools/check.py re-executes itself under '
                 '/venv/bin/python with PYTHONPATH=/repo PYTHONHASHSEED=0.',
    }
    with open(os.path.join(VERIF, 'MANIFEST.json'), 'w') as f:
        json.dump(m, f, indent=1)
    print('MANIFEST.json written:', len(checks), 'checks,', len(na), 'not claimed')


if __name__ == '__main__':
    main()
