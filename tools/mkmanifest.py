"""Writes MANIFEST.json from the table below (kept in one place so it is always valid)."""
import json
import os

VERIF = os.path.dirname(os.path.dirname(os.path.abspath(__file__)))

CHECKS = {
    'C01': dict(
        text='Machine-checked proof (Coq 8.16.1) that the lexer model is total and lossless for EVERY text '
             '(C01_lossless: lexing succeeds, token values concatenate to the input, no empty token, output '
             'satisfies the first-matching-rule specification with one-character Error fallback), by induction '
             'on the text with the skip counter generalised and the min-width soundness lemma (MW) of the '
             'list-of-results regex semantics. The theorem is re-checked on every run against the rule table, '
             'character classes, case tables and keyword dictionaries regenerated from /repo; the hand-written '
             'regex semantics and scan loop are tied to the code by differential runs (lex and per-rule rmatch '
             'stages) of the extracted model against CPython/sqlparse.',
        note='Trusted: Coq kernel; translators (re._parser ASTs, exhaustive atom evaluation); extraction '
             '(ExtrOcamlBasic only) + driver; the regex structure semantics Regex/Re.v is tested against CPython '
             're, not proved equal to it. Print Assumptions: closed under the global context.',
        design='7/C01', technique='Coq proof (induction + MW lemma) over regenerated rule table; model/impl differential lexing'),
    'C02': dict(
        text='Coq proof that parse() of the model is text-preserving for EVERY text: C02_roundtrip (input = join of str(stmt) '
             '++ a tail of whitespace-typed tokens), C02_splitter_partition (for any level function), C02_group_text and '
             'group_good: each of the 25 grouping passes and both generic drivers preserve the leaf sequence, by induction over '
             'their loops and over the tree. The hand-written splitter/grouping model is tied to the code by comparing complete '
             'trees of model and implementation after every pass; _change_splitlevel, terminator test and EOS types are '
             'translated from the source on every run.',
        note='Trusted: Coq kernel, translators, extraction, the stage-wise correspondence harness; the grouping loops are '
             'modelled by hand (tested against the code, not translated). Premise parse=Ok (totality is C07).',
        design='7/C02', technique='Coq proof (operation invariant over all passes) + stage-wise model/impl tree correspondence'),
    'C03': dict(
        text='Coq proof, for EVERY text, that the leaves of parse() are the lexer tokens of the split statements (same values; '
             'types equal or re-typed to Operator) and that every group caches its current text (C03_leaves_and_cached, '
             'C03_every_pass after each pass prefix), plus the offset-lookup theorem C03_at_offset. Parent pointers, '
             'non-emptiness and the sibling/ancestry helpers are checked on every node of every generated tree by a direct '
             'oracle on the implementation (partial: no theorem yet for those parts).',
        note='Partial: the pure tree model has no object identity, so parent references/non-emptiness/navigation are decided by '
             'exploration (oracle over all nodes), not by theorem. Trusted base as C02.',
        design='7/C03', technique='Coq proof (leaf/cached invariants over all passes) + tree correspondence + per-node oracle'),
}

NOT_YET = {}


def main():
    checks = []
    for pid in sorted(CHECKS):
        c = CHECKS[pid]
        checks.append({
            'property_id': pid,
            'quick_cmd': f'python3 tools/check.py {pid} --tier quick',
            'thorough_cmd': f'python3 tools/check.py {pid} --tier thorough',
            'evidence_file': f'/verif/evidence/{pid}.json',
            'replay_cmd_template': f'python3 tools/check.py {pid} --replay {{path}}',
            'engine': 'coq-model',
            'level_claimed': {'category': 'proof', 'text': c['text'], 'design_ref': 'DESIGN.md section ' + c['design']},
            'level_note': c['note'],
            'technique': c['technique'],
        })
    props = [json.loads(l)['id'] for l in open(os.path.join(VERIF, 'properties.jsonl'))]
    na = [{'property_id': p, 'reason': NOT_YET.get(p, 'machinery for this property is not built yet (see DESIGN.md section 10 build order); no claim is made')}
          for p in props if p not in CHECKS]
    m = {
        'version': 1,
        'setup_cmd': 'python3 tools/setup.py',
        'hooks': {
            'guard': 'SQLPARSE_VERIF',
            'enable': 'no source hooks: the checks observe /repo from outside (PYTHONPATH=/repo); SQLPARSE_VERIF is reserved and unused',
            'baseline_off_cmd': 'cd /repo && /venv/bin/python -m pytest -q -p no:cacheprovider',
            'source_commits': [],
            'add_only': True,
        },
        'engines': [{
            'name': 'coq-model',
            'path': '/verif/coq',
            'serves_properties': sorted(CHECKS),
            'kind_free_text': 'Gallina model of sqlparse + theorems (Coq 8.16.1); tables regenerated from /repo by '
                              'fail-closed translators on every run; extracted to OCaml for stage-wise differential '
                              'correspondence against the implementation; oracle search for a failing input when an '
                              'obligation or the correspondence breaks',
        }],
        'checks': checks,
        'not_applicable': na,
        'notes': 'All checks share one build under /verif/coq (flock). python3 tools/check.py re-executes itself under '
                 '/venv/bin/python with PYTHONPATH=/repo PYTHONHASHSEED=0.',
    }
    with open(os.path.join(VERIF, 'MANIFEST.json'), 'w') as f:
        json.dump(m, f, indent=1)
    print('MANIFEST.json written:', len(checks), 'checks,', len(na), 'not claimed')


if __name__ == '__main__':
    main()
