"""Implementation-side observers for C19 (same dump format as ocaml/drv_frontends.ml)."""
import io
import re
import warnings

import sqlparse
from sqlparse import lexer

import impl

_NAME_ESC = re.compile(rb'\\N\{[^}]+\}')


def cpsb(bs):
    """bytes (or list of ints) -> the driver's payload"""
    return ','.join(str(b) for b in bs) if len(bs) else '-'


def text_dump(s):
    return ','.join(str(ord(c)) for c in s)


def uescape_dump(bs):
    """bytes.decode('unicode-escape') of CPython"""
    with warnings.catch_warnings():
        warnings.simplefilter('ignore')
        try:
            return 'OK ' + text_dump(bytes(bs).decode('unicode-escape'))
        except Exception as e:  # noqa
            return 'ERR ' + type(e).__name__


def make_input(form, payload):
    """form: none|utf-8|latin-1 (payload bytes) | str|stream (payload str) | other"""
    if form == 'none':
        return bytes(payload), None
    if form in ('utf-8', 'latin-1'):
        return bytes(payload), form
    if form == 'str':
        return payload, None
    if form == 'stream':
        return io.StringIO(payload), None
    if form == 'other':
        return bytearray(b'select 1'), None
    raise ValueError(form)


def decode_dump(form, payload):
    """What Lexer.get_tokens lexes: observed as the concatenation of the token values (the lexer is
    lossless, C01), through the real entry point lexer.tokenize."""
    sql, enc = make_input(form, payload)
    with warnings.catch_warnings():
        warnings.simplefilter('ignore')
        try:
            toks = list(lexer.tokenize(sql, enc))
        except Exception as e:  # noqa
            return 'ERR ' + type(e).__name__
    return 'OK ' + text_dump(''.join(v for _, v in toks))


def apisplit_dump(form, payload):
    sql, enc = make_input(form, payload)
    with warnings.catch_warnings():
        warnings.simplefilter('ignore')
        try:
            parts = sqlparse.split(sql, enc)
        except Exception as e:  # noqa
            return 'ERR ' + type(e).__name__
    return 'OK ' + '|'.join(text_dump(p) for p in parts)


def apiparse_dump(form, payload):
    sql, enc = make_input(form, payload)
    with warnings.catch_warnings():
        warnings.simplefilter('ignore')
        try:
            stmts = sqlparse.parse(sql, enc)
        except Exception as e:  # noqa
            return 'ERR ' + type(e).__name__
    return 'OK ' + impl.nodes_str(stmts)


def has_name_escape(bs):
    return bool(_NAME_ESC.search(bytes(bs)))
