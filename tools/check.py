#!/usr/bin/env python3
"""Single entry point of every check:  check.py <Cxx> [--tier quick|thorough] [--replay file]

1 regenerate Gen/*.v from /repo   2 rebuild the Coq development (theorems re-checked against the
regenerated tables)   3 re-extract and run the correspondence between the extracted model and the
implementation   4 when a proof obligation or the correspondence breaks: search the implementation
for a concrete failing input (oracle)   5 evidence + exit status."""
import argparse
import importlib
import json
import os
import random
import sys
import time
import traceback

HERE = os.path.dirname(os.path.abspath(__file__))
VERIF = os.path.dirname(HERE)
PY = '/venv/bin/python'
REPO = os.environ.get('VERIF_REPO', '/repo')

if os.path.realpath(sys.executable) != os.path.realpath(PY) or os.environ.get('PYTHONPATH') != REPO \
        or os.environ.get('PYTHONHASHSEED') != '0':
    env = dict(os.environ)
    env['PYTHONPATH'] = REPO
    env['PYTHONHASHSEED'] = '0'
    os.execve(PY, [PY, os.path.abspath(__file__)] + sys.argv[1:], env)

sys.path.insert(0, HERE)
import vlib  # noqa: E402


class Ctx:
    def __init__(self, prop, tier, seed, build):
        self.prop = prop
        self.tier = tier
        self.seed = seed
        self.build = build
        self.rng = random.Random(f'{prop}:{seed}')
        self.t0 = time.time()
        self.notes = []

    def quick(self):
        return self.tier == 'quick'

    def n(self, quick, thorough):
        return quick if self.tier == 'quick' else thorough


def main():
    ap = argparse.ArgumentParser()
    ap.add_argument('prop')
    ap.add_argument('--tier', default=os.environ.get('VERIF_TIER', 'quick'), choices=['quick', 'thorough'])
    ap.add_argument('--replay')
    args = ap.parse_args()
    prop = args.prop
    seed = int(os.environ.get('VERIF_SEED', '0'))
    t0 = time.time()
    os.chdir(VERIF)
    import sqlparse
    assert os.path.realpath(sqlparse.__file__).startswith(os.path.realpath(REPO) + os.sep), sqlparse.__file__

    mod = importlib.import_module('props.' + prop)

    if args.replay:
        with open(args.replay) as f:
            payload = json.load(f)
        res = mod.replay(payload)
        print(json.dumps(res, ensure_ascii=True)[:4000])
        if res.get('fails'):
            print(f'VIOLATION property={prop} replay={args.replay}')
            sys.exit(1)
        sys.exit(0)

    build = vlib.ensure_built()
    ctx = Ctx(prop, args.tier, seed, build)

    # ---- proof status
    prop_file = f'theories/Props/{prop}.v'
    total, done, cone = vlib.obligations(prop_file)
    broken = []
    for f in build.failed_vo:
        if f + '.v' in cone:
            broken.append(f + '.v')
    for name, st in build.regen.items():
        if not st.get('ok'):
            for out in st.get('files', []):
                if f'theories/Gen/{out}' in cone and f'theories/Gen/{out}' not in broken:
                    broken.append(f'theories/Gen/{out}')
    forbidden = vlib.forbidden_scan()
    if forbidden:
        broken.append('forbidden constructs: ' + '; '.join(forbidden[:5]))
    if not os.path.exists(os.path.join(vlib.COQ, prop_file + 'o')) and prop_file not in broken:
        broken.append(prop_file)
    proof_ok = not broken and len(done) == len(total) and total

    # ---- correspondence + supplementary oracle sweep on the implementation
    result = {'evaluations': 0, 'distinct_nontrivial': 0, 'rule': '', 'samples': [],
              'disagreements': [], 'failures': [], 'traces_validated_against_impl': 0}
    try:
        if build.model_ok:
            result.update(mod.run(ctx))
        else:
            result['disagreements'].append({'stage': 'build', 'detail': 'extracted model did not build'})
            result.update(mod.run_oracle_only(ctx))
    except Exception:
        result['disagreements'].append({'stage': 'harness', 'detail': traceback.format_exc()[-3000:]})

    failures = list(result.get('failures', []))          # concrete property failures on the impl
    disagreements = list(result.get('disagreements', []))

    # ---- search stage
    searched = None
    # (failures that are instances of listed findings do not count: with them in the way the search would never run for a
    # property that has listed findings)
    _kf0 = [k for k in vlib.load_known_findings() if k.get('property') == prop and k.get('status') == 'open']
    _new0 = [fl for fl in failures if not (hasattr(mod, 'classify') and mod.classify(fl, _kf0) is not None)]
    if (not proof_ok or disagreements) and not _new0:
        # behind the disagreeing inputs: the by-construction shapes of tools/gen/shapes.py (inputs outside the generators'
        # grammars; every one passes every search oracle on the unchanged tree, tools/misc/validate_shapes.py)
        try:
            sys.path.insert(0, os.path.join(HERE, 'gen'))
            import shapes as _shapes
            shape_hints = [{'stage': 'shape', 'input': [ord(c) for c in t]} for t in _shapes.shapes_for(prop)]
        except Exception:
            shape_hints = []
        hints = {'broken': broken, 'disagreements': disagreements[:50] + shape_hints, 'regen': build.regen}
        try:
            searched = mod.search(ctx, hints)
        except Exception:
            searched = {'failures': [], 'note': traceback.format_exc()[-2000:]}
        failures.extend(searched.get('failures', []))

    # ---- classify against known findings
    kf = [k for k in vlib.load_known_findings() if k.get('property') == prop and k.get('status') == 'open']
    known_hit = {}
    new_failures = []
    for fl in failures:
        cls = mod.classify(fl, kf) if hasattr(mod, 'classify') else None
        if cls is not None:
            known_hit.setdefault(cls, fl)
        else:
            new_failures.append(fl)
    # listed findings are re-derived on every run
    if hasattr(mod, 'rederive_known'):
        for k in kf:
            try:
                still = mod.rederive_known(k)
            except Exception:
                still = None
            if still:
                known_hit.setdefault(k['id'], still)
    for k in kf:
        if k['id'] in known_hit:
            print(f"KNOWN-FINDING: property={prop} {k['what_fails']} [{k['id']}]")

    violations = 0
    exit_code = 0
    if new_failures:
        violations = len(new_failures)
        fl = new_failures[0]
        if hasattr(mod, 'shrink'):
            try:
                fl = mod.shrink(fl)
            except Exception:
                pass
        path = vlib.write_replay(prop, {'property': prop, 'failure': fl, 'broken_obligations': broken,
                                        'disagreements': disagreements[:5]})
        print(f'VIOLATION property={prop} replay={path}')
        exit_code = 1
    elif not proof_ok or disagreements:
        violations = 1
        path = vlib.write_replay(prop, {
            'property': prop, 'failure': None,
            'no_longer_checks': broken or [d.get('stage') for d in disagreements[:5]],
            'broken_obligations': broken, 'disagreements': disagreements[:10],
            'regen': {k: v for k, v in build.regen.items() if not v.get('ok')},
            'build_log_tail': build.log[-3000:] if broken else ''})
        print(f'VIOLATION property={prop} replay={path} no-failing-input-found')
        exit_code = 1

    # ---- evidence
    ass = build.assumptions.get(f'theories/Props/{prop}', '').strip()
    cov = {
        'obligations': len(total),
        'discharged': len(done) if not broken else min(len(done), max(0, len(total) - 1)),
        'checker_cmd': build.make_cmd + f'  (then: make -q {prop_file}o)',
        'trusted_base': vlib.TRUSTED_BASE_COMMON + getattr(mod, 'TRUSTED', []) +
        ['Print Assumptions (' + prop + '): ' + (ass or 'see build log')],
        'evaluations': int(result.get('evaluations', 0)),
        'distinct_nontrivial': int(result.get('distinct_nontrivial', 0)),
        'rule': result.get('rule', ''),
        'samples': result.get('samples', [])[:8],
        'traces_validated_against_impl': int(result.get('traces_validated_against_impl', 0)),
        'theorems': getattr(mod, 'THEOREMS', []),
        'broken_obligations': broken,
        'correspondence_disagreements': len(disagreements),
        'known_findings_reproduced': sorted(known_hit),
        'distribution': result.get('distribution', {}),
        'proof_files': cone,
        'notes': ctx.notes + result.get('notes', []),
    }
    if searched is not None:
        cov['search'] = {k: v for k, v in searched.items() if k != 'failures'}
    vlib.write_evidence(prop, args.tier, seed, cov, time.time() - t0, violations,
                        assumptions=getattr(mod, 'ASSUMPTIONS', []))
    sys.exit(exit_code)


if __name__ == '__main__':
    main()
