"""Implementation-side observers for the token-stream filters (sqlparse/filters/tokens.py) in the
dump format of ocaml/drv_tokfilters.ml."""
import sqlparse
from sqlparse import lexer, tokens as T, formatter, filters
from sqlparse.engine import FilterStack
from sqlparse.engine.statement_splitter import StatementSplitter


def _cps(s):
    return ','.join(str(ord(c)) for c in s)


def ttype_str(tt):
    return '.'.join(tt)


def toks_dump(toks):
    return '|'.join(ttype_str(tt) + ':' + _cps(v) for tt, v in toks)


def strconv_dump(conv, text):
    return 'OK ' + _cps(getattr(str, conv)(text))


def parse_trunc(param):
    """'<width>:<cps or ->' -> (width, char)"""
    w, c = param.split(':', 1)
    return int(w), ('' if c in ('', '-') else ''.join(chr(int(x)) for x in c.split(',')))


def trunc_param(width, char):
    return '%d:%s' % (width, _cps(char) if char else '-')


def make_filter(kind, param):
    if kind == 'kw':
        return filters.KeywordCaseFilter(param)
    if kind == 'id':
        return filters.IdentifierCaseFilter(param)
    if kind == 'tr':
        w, c = parse_trunc(param)
        return filters.TruncateStringFilter(width=w, char=c)
    raise ValueError(kind)


def tokfilter_stream(kind, param, stream):
    return list(make_filter(kind, param).process(iter(stream)))


def tokfilter_dump(kind, param, text):
    """lexer.tokenize(text) through ONE filter object constructed directly."""
    try:
        return 'OK ' + toks_dump(tokfilter_stream(kind, param, lexer.tokenize(text)))
    except Exception as e:  # noqa
        return 'ERR ' + type(e).__name__


def options_of(kw, idc, tr):
    """format() keyword arguments for the driver's '-'-or-value triple."""
    opts = {}
    if kw != '-':
        opts['keyword_case'] = kw
    if idc != '-':
        opts['identifier_case'] = idc
    if tr != '-':
        w, c = parse_trunc(tr)
        opts['truncate_strings'] = w
        opts['truncate_char'] = c
    return opts


def preprocess_filters(opts):
    """The preprocess list format(**opts) builds (validate_options + build_filter_stack)."""
    stack = formatter.build_filter_stack(FilterStack(), formatter.validate_options(dict(opts)))
    assert not stack.stmtprocess and not stack.postprocess and not stack._grouping
    return stack.preprocess


def tokfmt_stream(opts, stream):
    for f in preprocess_filters(opts):
        stream = f.process(stream)
    return list(stream)


def tokfmt_dump(kw, idc, tr, text):
    """lexer.tokenize(text) through the preprocess stack that format(text, **options) installs."""
    try:
        return 'OK ' + toks_dump(tokfmt_stream(options_of(kw, idc, tr), lexer.tokenize(text)))
    except Exception as e:  # noqa
        return 'ERR ' + type(e).__name__


def parse_raw(ts):
    if ts in ('', '-'):
        return []
    out = []
    for t in ts.split('|'):
        ty, v = t.split(':', 1)
        tt = T.Token
        for comp in (ty.split('.') if ty else []):
            tt = getattr(tt, comp)
        out.append((tt, '' if v == '' else ''.join(chr(int(x)) for x in v.split(','))))
    return out


def raw_str(toks):
    return toks_dump(toks) if toks else '-'


def tokfilterraw_dump(kw, idc, tr, ts):
    """The filter objects (constructed directly: any width is accepted) on an explicit token list."""
    try:
        stream = iter(parse_raw(ts))
        if kw != '-':
            stream = filters.KeywordCaseFilter(kw).process(stream)
        if idc != '-':
            stream = filters.IdentifierCaseFilter(idc).process(stream)
        if tr != '-':
            w, c = parse_trunc(tr)
            stream = filters.TruncateStringFilter(width=w, char=c).process(stream)
        return 'OK ' + toks_dump(list(stream))
    except Exception as e:  # noqa
        return 'ERR ' + type(e).__name__


def parse_model_toks(reply):
    """'OK tok|tok' reply of the model -> [(ttype, value)] or None for ERR."""
    if not reply.startswith('OK'):
        return None
    return parse_raw(reply[3:])


def finish_format(toks):
    """What format() does AFTER the preprocess filters, using the real splitter and serializer:
    ''.join(SerializerUnicode.process(stmt) for stmt in StatementSplitter().process(stream))."""
    ser = filters.SerializerUnicode()
    return ''.join(ser.process(stmt) for stmt in StatementSplitter().process(iter(toks)))
