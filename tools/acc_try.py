#!/usr/bin/env python3
"""ad-hoc: compare model and implementation accessor dumps on the texts given as arguments"""
import os, sys
HERE = os.path.dirname(os.path.abspath(__file__))
PY = '/venv/bin/python'
if os.path.realpath(sys.executable) != os.path.realpath(PY) or os.environ.get('PYTHONPATH') != '/repo':
    env = dict(os.environ); env['PYTHONPATH'] = '/repo'; env['PYTHONHASHSEED'] = '0'
    os.execve(PY, [PY, os.path.abspath(__file__)] + sys.argv[1:], env)
sys.path.insert(0, HERE)
import vlib, impl_acc
for s in sys.argv[1:]:
    m = vlib.run_model(['acc ' + vlib.cps(s)])[0]
    i = impl_acc.acc_dump(s)
    print(repr(s), 'AGREE' if m == i else 'DIFFER')
    if m != i or os.environ.get('SHOW'):
        mf, jf = m.split(';'), i.split(';')
        for a, b in zip(mf, jf):
            if a != b or os.environ.get('SHOW'):
                print('  model', a, '\n  impl ', b)
        if len(mf) != len(jf):
            print('  lengths', len(mf), len(jf))
