"""Re-compiles every coq/theories/Props/*.v (dependencies must be built) and records the `Print Assumptions` output
of each property theorem in coq/ASSUMPTIONS.txt; exits 1 if any of them is not 'Closed under the global context'."""
import glob
import os
import re
import subprocess
import sys

COQ = os.path.join(os.path.dirname(os.path.dirname(os.path.abspath(__file__))), 'coq')


def main():
    out = []
    bad = 0
    for f in sorted(glob.glob(os.path.join(COQ, 'theories/Props/*.v'))):
        rel = os.path.relpath(f, COQ)
        src = open(f).read()
        # every Theorem/Lemma/Example/Corollary/Definition stated in the property file
        names = re.findall(r'^(?:Theorem|Lemma|Example|Corollary|Definition)\s+([A-Za-z0-9_\']+)', src, re.M)
        mod = 'SqlModel.Props.' + os.path.basename(f)[:-2]
        tmp = os.path.join(COQ, 'PA_tmp.v')
        with open(tmp, 'w') as g:
            g.write(f'Require Import {mod}.\n' + ''.join(f'Print Assumptions {mod}.{n}.\n' for n in names))
        r = subprocess.run(['coqc', '-R', 'theories', 'SqlModel', '-w', '-notation-overridden', 'PA_tmp.v'], cwd=COQ,
                           capture_output=True, text=True, timeout=1200)
        for ext in ('.v', '.vo', '.vok', '.vos', '.glob'):
            try:
                os.remove(os.path.join(COQ, 'PA_tmp' + ext))
            except OSError:
                pass
        try:
            os.remove(os.path.join(COQ, '.PA_tmp.aux'))
        except OSError:
            pass
        text = r.stdout + r.stderr
        blocks = [b.strip() for b in re.split(r'(?=Closed under the global context|Axioms:)', text) if b.strip()]
        blocks = [b for b in blocks if b.startswith('Closed') or b.startswith('Axioms:')]
        out.append(f'== {rel}: {len(names)} Print Assumptions commands, {len(blocks)} answers, coqc exit {r.returncode}')
        for i, n in enumerate(names):
            ans = blocks[i] if i < len(blocks) else '(no answer)'
            first = ans.splitlines()[0]
            if not ans.startswith('Closed under the global context'):
                bad += 1
                out.append(f'   {n}: {ans}')
            else:
                out.append(f'   {n}: {first}')
    with open(os.path.join(COQ, 'ASSUMPTIONS.txt'), 'w') as f:
        f.write('\n'.join(out) + '\n')
    print('\n'.join(l for l in out if l.startswith('==')))
    print('not closed:', bad)
    return 1 if bad else 0


if __name__ == '__main__':
    sys.exit(main())
