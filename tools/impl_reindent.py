"""Implementation-side observers for the reindent slice (same dump format as ocaml/drv_reindent.ml)."""
import sqlparse
from sqlparse import engine, filters, formatter

import impl

OPT_KEYS = ['indent_width', 'indent_tabs', 'wrap_after', 'comma_first', 'indent_after_first',
            'indent_columns', 'compact']


def opts_str(o):
    """options dict -> 'width,tabs,wrap,comma_first,after_first,columns,compact'."""
    return ','.join(str(int(o.get(k, 2 if k == 'indent_width' else 0))) for k in OPT_KEYS)


def opts_of_str(s):
    v = [int(x) for x in s.split(',')]
    return {'indent_width': v[0], 'indent_tabs': bool(v[1]), 'wrap_after': v[2], 'comma_first': bool(v[3]),
            'indent_after_first': bool(v[4]), 'indent_columns': bool(v[5]), 'compact': bool(v[6])}


def exn_name(e):
    # a StopIteration escaping into FilterStack.run (a generator) surfaces as RuntimeError
    if isinstance(e, RuntimeError) and 'StopIteration' in str(e):
        return 'StopIteration'
    return type(e).__name__


def cps(s):
    return ','.join(str(ord(c)) for c in s)


def reindent_dump(o, text):
    try:
        out = sqlparse.format(text, reindent=True, **o)
    except Exception as e:  # noqa
        return 'ERR ' + exn_name(e)
    return 'OK ' + cps(out)


def _stack(o=None, reindent=True):
    stack = engine.FilterStack()
    opts = dict(o or {})
    if reindent:
        opts['reindent'] = True
    else:
        opts['strip_whitespace'] = True
    opts = formatter.validate_options(opts)
    return formatter.build_filter_stack(stack, opts)


def reindent_tree_dump(o, text):
    try:
        stmts = list(_stack(o).run(text))
    except Exception as e:  # noqa
        return 'ERR ' + exn_name(e)
    return 'OK ' + impl.nodes_str(stmts)


def stripws_tree_dump(text):
    try:
        stmts = list(_stack(None, reindent=False).run(text))
    except Exception as e:  # noqa
        return 'ERR ' + exn_name(e)
    return 'OK ' + impl.nodes_str(stmts)
