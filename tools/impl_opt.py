"""Implementation-side observer for the option slice: what /repo's validate_options /
build_filter_stack do with an option dictionary, in the dump format of ocaml/drv_opt.ml."""
import contextlib
import inspect
import math

from sqlparse import engine, filters, formatter

IGNORED_PARAMS = {'n'}


# ---- encoding of option values (see ocaml/drv_opt.ml) ----------------------------------------------
def hexz(z):
    return format(z, 'x')


def cps(s):
    return ','.join(str(ord(c)) for c in s) if s else '-'


def enc_val(v):
    if v is None:
        return 'N'
    if v is True:
        return 'T'
    if v is False:
        return 'F'
    if type(v) is int:
        return 'I' + hexz(v)
    if type(v) is float:
        if math.isnan(v):
            return 'Q'
        if math.isinf(v):
            return 'M' if v < 0 else 'P'
        if v.is_integer():
            return 'D' + hexz(int(v))
        return 'R' + hexz(math.floor(v))
    if type(v) is str:
        return 'S' + cps(v)
    if type(v) in (list, tuple, dict, set, frozenset, object):
        return 'O1' if v else 'O0'
    raise ValueError('value outside the modelled option values: %r' % (v,))


def enc_opts(d):
    if not d:
        return '@'
    return ';'.join(cps(k) + '=' + enc_val(v) for k, v in d.items())


def dec_val(s):
    c, r = s[0], s[1:]
    if c == 'N':
        return None
    if c == 'T':
        return True
    if c == 'F':
        return False
    if c == 'I':
        return int(r, 16)
    if c == 'D':
        return float(int(r, 16))
    if c == 'R':
        return int(r, 16) + 0.5
    if c == 'P':
        return float('inf')
    if c == 'M':
        return float('-inf')
    if c == 'Q':
        return float('nan')
    if c == 'S':
        return '' if r in ('', '-') else ''.join(chr(int(x)) for x in r.split(','))
    if c == 'O':
        return object() if r == '1' else []
    raise ValueError(s)


def dec_opts(s):
    if s == '@':
        return {}
    d = {}
    for item in s.split(';'):
        k, v = item.split('=', 1)
        d['' if k == '-' else ''.join(chr(int(x)) for x in k.split(','))] = dec_val(v)
    return d


class CtorError(Exception):
    pass


# ---- observing constructor arguments of the real filter objects -----------------------------------
def _params(cls):
    if all('__init__' not in vars(c) for c in cls.__mro__ if c is not object):
        return []
    return [n for i, n in enumerate(inspect.signature(cls.__init__).parameters) if i > 0 and n not in IGNORED_PARAMS]


@contextlib.contextmanager
def recording(swallow=False):
    """Every class of sqlparse.filters is replaced by a subclass that remembers how it was
    constructed (the real constructor still runs; with swallow=True an exception raised BY the
    constructor is recorded instead of propagated -- used only to compare build_filter_stack on
    dictionaries that were not validated, where the constructors are outside the model)."""
    saved = {}
    for name in filters.__all__:
        cls = getattr(filters, name)
        if not inspect.isclass(cls):
            continue

        def make(cls=cls, name=name):
            names = _params(cls)

            class Rec(cls):
                def __init__(self, *a, **kw):
                    if names or a or kw:
                        b = inspect.signature(cls.__init__).bind(self, *a, **kw)
                        b.apply_defaults()
                        self._verif_args = [(n, b.arguments[n]) for n in names]
                        try:
                            super().__init__(*a, **kw)
                        except Exception as e:  # noqa
                            if not swallow:
                                raise CtorError(type(e).__name__) from e
                    else:
                        self._verif_args = []
            Rec.__name__ = name
            return Rec
        saved[name] = cls
        setattr(filters, name, make())
    try:
        yield
    finally:
        for name, cls in saved.items():
            setattr(filters, name, cls)


def filt_str(f):
    return type(f).__name__ + '(' + '&'.join(n + '=' + enc_val(v) for n, v in f._verif_args) + ')'


def stack_str(st):
    def lst(fs):
        return '[' + ','.join(filt_str(f) for f in fs) + ']'
    return 'pre=%s;grouping=%s;stmt=%s;post=%s' % (lst(st.preprocess), 'true' if st._grouping else 'false',
                                                  lst(st.stmtprocess), lst(st.postprocess))


def validate_dump(d, with_valid=None):
    """Mirror of the option part of sqlparse.format: validate_options, build_filter_stack, serializer."""
    d = dict(d)
    try:
        o = formatter.validate_options(d)
    except Exception as e:  # noqa
        return 'ERR ' + type(e).__name__
    out = 'OK ' + enc_opts(o) + ' | '
    with recording():
        try:
            st = formatter.build_filter_stack(engine.FilterStack(), o)
            st.postprocess.append(filters.SerializerUnicode())
            out += stack_str(st)
        except CtorError as e:
            out += 'ERR constructor:' + str(e)
        except Exception as e:  # noqa
            out += 'ERR ' + type(e).__name__
    return out


def fstack_dump(d):
    with recording(swallow=True):
        try:
            st = formatter.build_filter_stack(engine.FilterStack(), dict(d))
        except Exception as e:  # noqa
            return 'ERR ' + type(e).__name__
        return 'OK ' + stack_str(st)
