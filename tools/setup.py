#!/usr/bin/env python3
"""MANIFEST.setup_cmd: regenerate Gen/*.v from /repo, build the Coq development and the extracted model."""
import os
import subprocess
import sys

HERE = os.path.dirname(os.path.abspath(__file__))
PY = '/venv/bin/python'
if os.path.realpath(sys.executable) != os.path.realpath(PY) or os.environ.get('PYTHONPATH') != '/repo':
    env = dict(os.environ)
    env['PYTHONPATH'] = os.environ.get('VERIF_REPO', '/repo')
    env['PYTHONHASHSEED'] = '0'
    os.execve(PY, [PY, os.path.abspath(__file__)] + sys.argv[1:], env)
sys.path.insert(0, HERE)
import vlib  # noqa: E402

b = vlib.ensure_built()
print('build ok' if b.ok else 'build NOT ok', 'failed:', b.failed_vo, 'model:', b.model_ok, 'wall %.1fs' % b.wall)
for k, v in b.regen.items():
    print(' regen', k, 'ok' if v.get('ok') else 'FAILED ' + str(v.get('error'))[:200])
if not b.ok:
    print(b.log[-3000:])
sys.exit(0 if b.ok else 1)
