"""Implementation-side observers for the strip_whitespace / use_space_around_operators / serializer
slice: the same canonical dumps as ocaml/drv_filters_ws.ml, computed by /repo's sqlparse."""
import sqlparse
from sqlparse import lexer
from sqlparse.engine import grouping
from sqlparse.engine.statement_splitter import StatementSplitter
from sqlparse.filters import others
from sqlparse.utils import split_unquoted_newlines

import impl


def cps(s):
    return ','.join(str(ord(c)) for c in s) if s else '-'


def _stmts(text, group=True):
    for st in StatementSplitter().process(lexer.tokenize(text)):
        if group:
            st = grouping.group(st)
        yield st


def _tree_after(text, fns, group=True):
    try:
        out = []
        for st in _stmts(text, group):
            for f in fns:
                f(st)
            out.append(st)
    except Exception as e:  # noqa
        return 'ERR ' + impl.exn_name(e)
    return 'OK ' + impl.nodes_str(out)


def stripws_dump(text):
    return _tree_after(text, [lambda st: others.StripWhitespaceFilter().process(st)])


def spaces_dump(text):
    return _tree_after(text, [lambda st: others.SpacesAroundOperatorsFilter().process(st)])


def spacesws_dump(text):
    return _tree_after(text, [lambda st: others.SpacesAroundOperatorsFilter().process(st),
                              lambda st: others.StripWhitespaceFilter().process(st)])


def stripsemi_dump(text):
    return _tree_after(text, [lambda st: others.StripTrailingSemicolonFilter().process(st)], group=False)


def serialize_dump(text):
    try:
        out = [others.SerializerUnicode.process(st) for st in _stmts(text)]
    except Exception as e:  # noqa
        return 'ERR ' + impl.exn_name(e)
    return 'OK ' + '|'.join(cps(s) for s in out)


def serialize_raw_dump(text):
    try:
        return 'OK ' + cps(others.SerializerUnicode.process(text))
    except Exception as e:  # noqa
        return 'ERR ' + impl.exn_name(e)


def sun_dump(text):
    try:
        return 'OK ' + '|'.join(cps(s) for s in split_unquoted_newlines(text))
    except Exception as e:  # noqa
        return 'ERR ' + impl.exn_name(e)


def format_dump(text, **opts):
    try:
        return 'OK ' + cps(sqlparse.format(text, **opts))
    except Exception as e:  # noqa
        return 'ERR ' + impl.exn_name(e)


def format_sw_dump(text):
    return format_dump(text, strip_whitespace=True)


def format_sp_dump(text):
    return format_dump(text, use_space_around_operators=True)


def format_spsw_dump(text):
    return format_dump(text, use_space_around_operators=True, strip_whitespace=True)


def format_plain_dump(text):
    return format_dump(text)
