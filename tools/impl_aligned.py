"""Implementation-side observers for the aligned-indent slice (same dump format as ocaml/drv_aligned.ml)."""
import sqlparse
from sqlparse import engine, formatter

import impl
from impl_reindent import exn_name, cps


def aligned_dump(text):
    """'OK <code points of format(text, reindent_aligned=True)>' | 'ERR <exception class>'"""
    try:
        out = sqlparse.format(text, reindent_aligned=True)
    except Exception as e:  # noqa
        return 'ERR ' + exn_name(e)
    return 'OK ' + cps(out)


def _stack():
    stack = engine.FilterStack()
    opts = formatter.validate_options({'reindent_aligned': True})
    return formatter.build_filter_stack(stack, opts)


def aligned_tree_dump(text):
    """the statements after [StripWhitespaceFilter, AlignedIndentFilter] (no serializer)"""
    try:
        stmts = list(_stack().run(text))
    except Exception as e:  # noqa
        return 'ERR ' + exn_name(e)
    return 'OK ' + impl.nodes_str(stmts)
