"""Implementation-side observer of the read-only accessors: the same canonical dump as the model
driver's `acc <text>` command, from the real tree sqlparse.parse() returns.

frag = <path>:<accessor>=<value>
value: None | True | False | S<code points> | !<exception class> | <abs path> | [v/v/...] | (v~v)
"""
import sqlparse
from sqlparse import sql


def cps(s):
    return ','.join(str(ord(c)) for c in s) if s else '-'


class Canon:
    """Canonical forms; tokens are named by their absolute path in the statement."""

    def __init__(self, paths):
        self.paths = paths

    def tok(self, t):
        return self.paths[id(t)]

    def opttok(self, t):
        return 'None' if t is None else self.paths[id(t)]

    def optstr(self, v):
        if v is None:
            return 'None'
        assert isinstance(v, str), type(v)
        return 'S' + cps(v)

    def boolean(self, v):
        assert v is True or v is False, repr(v)
        return 'True' if v else 'False'

    def toks(self, v):
        return '[' + '/'.join(self.tok(t) for t in list(v)) + ']'

    def tokss(self, v):
        return '[' + '/'.join(self.toks(x) for x in list(v)) + ']'

    def cases(self, v):
        out = []
        for c, val in v:
            out.append('(' + ('None' if c is None else self.toks(c)) + '~' + self.toks(val) + ')')
        return '[' + '/'.join(out) + ']'

    def multiline(self, v):
        if v == [] and isinstance(v, list):
            return 'None'
        return self.boolean(v)


# (printed name, attribute looked up on the class, call, canonicaliser) in the model's order
ACCESSORS = [
    ('get_type', 'get_type', lambda n: n.get_type(), 'optstr'),
    ('get_alias', 'get_alias', lambda n: n.get_alias(), 'optstr'),
    ('get_real_name', 'get_real_name', lambda n: n.get_real_name(), 'optstr'),
    ('get_name', 'get_name', lambda n: n.get_name(), 'optstr'),
    ('get_parent_name', 'get_parent_name', lambda n: n.get_parent_name(), 'optstr'),
    ('has_alias', 'has_alias', lambda n: n.has_alias(), 'boolean'),
    ('_get_first_name', '_get_first_name', lambda n: n._get_first_name(), 'optstr'),
    ('is_wildcard', 'is_wildcard', lambda n: n.is_wildcard(), 'boolean'),
    ('get_typecast', 'get_typecast', lambda n: n.get_typecast(), 'optstr'),
    ('get_ordering', 'get_ordering', lambda n: n.get_ordering(), 'optstr'),
    ('get_array_indices', 'get_array_indices', lambda n: list(n.get_array_indices()), 'tokss'),
    ('get_identifiers', 'get_identifiers', lambda n: list(n.get_identifiers()), 'toks'),
    ('get_parameters', 'get_parameters', lambda n: list(n.get_parameters()), 'toks'),
    ('get_window', 'get_window', lambda n: n.get_window(), 'opttok'),
    ('get_cases', 'get_cases', lambda n: n.get_cases(), 'cases'),
    ('get_cases_skip', 'get_cases', lambda n: n.get_cases(skip_ws=True), 'cases'),
    ('left', 'left', lambda n: n.left, 'tok'),
    ('right', 'right', lambda n: n.right, 'tok'),
    ('is_multiline', 'is_multiline', lambda n: n.is_multiline(), 'multiline'),
]


def walk(node, path, out):
    out.append((path, node))
    if node.is_group:
        for i, k in enumerate(node.tokens):
            walk(k, path + '.' + str(i), out)


def acc_frags(stmts):
    """[(path, accessor, value, node, exception or None)] for the statements of one parse()."""
    res = []
    for si, st in enumerate(stmts):
        nodes = []
        walk(st, str(si), nodes)
        canon = Canon({id(n): p for p, n in nodes})
        for p, n in nodes:
            for name, attr, call, cf in ACCESSORS:
                if not hasattr(type(n), attr):
                    continue
                try:
                    v = getattr(canon, cf)(call(n))
                    exc = None
                except Exception as e:  # noqa
                    v = '!' + type(e).__name__
                    exc = e
                res.append((p, name, v, n, exc))
    return res


def acc_dump(text):
    try:
        stmts = sqlparse.parse(text)
    except Exception as e:  # noqa
        return 'ERR ' + type(e).__name__
    return 'OK ' + ';'.join(f'{p}:{a}={v}' for p, a, v, _, _ in acc_frags(stmts))


def escaping(text):
    """Accessor calls that raise on the tree parse(text) returns: [(path, class, accessor, exception, node text)]."""
    try:
        stmts = sqlparse.parse(text)
    except Exception:  # noqa
        return []
    return [(p, type(n).__name__, a, type(e).__name__, str(n)) for p, a, v, n, e in acc_frags(stmts) if e is not None]
