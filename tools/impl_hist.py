"""C20 -- history independence on the real library.

* histories: lists of operations in the vocabulary of coq/theories/Sys/History.v
    ['parse', text] ['split', text, strip] ['format', opts, text] ['format_invalid', opts]
    ['stream', text, k, keep]      parsestream(text), k items taken, generator dropped (keep=False) or kept alive
    ['raise_in_gen', which]        an input that raises inside the generator (deep nesting / bytes / bad type)
    ['clear'] ['set_regex', id] ['add_kw', id] ['default_init'] ['get_instance']
  `run_ops` executes them on the real library and returns the canonical dump of each result
  (tree dump of tools/impl.py for parse, list for split, string for format, exception class otherwise).
* `--probe-worker`: JSON list of jobs (history, probe) on stdin; the worker executes the PROBES ONLY, each in a
  fresh state?  No: a fresh interpreter per batch of probes is enough because probes are calls (C20_calls_pure);
  to stay independent of that theorem the worker answers every probe twice (first and again at the end) and the
  parent additionally runs a sample of probes in their own interpreter.
* inventory self-test: patched temp copies of the package that introduce persistent state; the translator +
  the Coq rule must reject each of them.
"""
import json
import os
import shutil
import subprocess
import sys
import tempfile

HERE = os.path.dirname(os.path.abspath(__file__))
VERIF = os.path.dirname(HERE)
PY = '/venv/bin/python'

# rule lists / dictionaries a history may install (ids as in History.v: rule list 0 and dictionaries
# 0..8 are the defaults)
USER_REGEX = {
    1: [[r'\w+', 'Name'], [r'\s+', 'Text.Whitespace']],
    2: [[r'[a-z]+', 'Keyword'], [r'[0-9]+', 'Literal.Number.Integer'], [r'.', 'Punctuation']],
}
USER_KW = {
    100: {'FOO': 'Keyword', 'SELECT': 'Name'},
    101: {'BAR': 'Keyword.DML', 'FROM': 'Name.Builtin'},
}
RAISERS = {
    'deep': '(' * 300 + ')' * 300,                       # deep but within the recursion limit
    'deepfmt': 'select ' + '(' * 300 + '1' + ')' * 300,  # reindent: RecursionError -> SQLParseError inside the generator
    'badtype': None,
    'latin': b'select \xff\xfe from t',
    # calls that raise in the middle of a statement filter, inside nested context managers (indent/offset counters)
    'deepaligned': 'select * from ' + '(select a from ' * 340 + 't' + ')' * 340,
    'alignedcase': 'select * from (select case , end)',
    'deepreindent': 'select * from ' + '(select a from ' * 340 + 't' + ')' * 340,
}


def _tt(path):
    from sqlparse import tokens
    t = tokens.Token
    for a in path.split('.'):
        t = getattr(t, a)
    return t


def dump_exc(e):
    return 'ERR ' + type(e).__name__


def call_parse(text):
    import sqlparse
    import impl
    try:
        return 'OK ' + impl.nodes_str(sqlparse.parse(text))
    except Exception as e:   # noqa
        return dump_exc(e)


def call_split(text, strip):
    import sqlparse
    try:
        return 'OK ' + json.dumps(sqlparse.split(text, strip_semicolon=bool(strip)))
    except Exception as e:   # noqa
        return dump_exc(e)


def call_format(opts, text):
    import sqlparse
    try:
        return 'OK ' + json.dumps(sqlparse.format(text, **opts))
    except Exception as e:   # noqa
        return dump_exc(e)


def run_op(op, keep):
    """execute one operation; returns its canonical result dump"""
    import sqlparse
    from sqlparse import lexer, keywords
    kind = op[0]
    if kind == 'parse':
        return call_parse(op[1])
    if kind == 'split':
        return call_split(op[1], op[2])
    if kind == 'format':
        return call_format(op[1], op[2])
    if kind == 'format_invalid':
        return call_format(op[1], 'select 1')
    if kind == 'bsplit':                       # bytes without an encoding: UTF-8 (documented default)
        try:
            return 'OK ' + json.dumps(sqlparse.split(op[1].encode('utf-8')))
        except Exception as e:   # noqa
            return dump_exc(e)
    if kind == 'enc_call':                     # an earlier call that names an encoding
        try:
            return 'OK ' + json.dumps(sqlparse.split(op[2].encode(op[1], errors='replace'), encoding=op[1]))
        except Exception as e:   # noqa
            return dump_exc(e)
    if kind == 'stream':
        import impl
        out = []
        try:
            g = sqlparse.parsestream(op[1])
            for _ in range(op[2]):
                out.append(impl.nodes_str([next(g)]))
            if op[3]:
                keep.append(g)          # kept alive, suspended
            else:
                del g
                import gc
                gc.collect()
        except StopIteration:
            out.append('<end>')
        except Exception as e:   # noqa
            return dump_exc(e)
        return 'OK ' + '||'.join(out)
    if kind == 'raise_in_gen':
        w = op[1]
        if w == 'deepfmt':
            return call_format({'reindent': True}, RAISERS[w])
        if w in ('deepaligned', 'alignedcase'):
            return call_format({'reindent_aligned': True}, RAISERS[w])
        if w == 'deepreindent':
            return call_format({'reindent': True, 'comma_first': True}, RAISERS[w])
        if w == 'latin':
            try:
                return 'OK ' + json.dumps([str(s) for s in sqlparse.parse(RAISERS[w], encoding='ascii')])
            except Exception as e:   # noqa
                return dump_exc(e)
        return call_parse(RAISERS[w])
    lx = lexer.Lexer.get_default_instance()
    if kind == 'clear':
        lx.clear()
    elif kind == 'set_regex':
        rid = op[1]
        lx.set_SQL_REGEX(keywords.SQL_REGEX if rid == 0 else [(rx, _tt(tt)) for rx, tt in USER_REGEX[rid]])
    elif kind == 'add_kw':
        kid = op[1]
        if kid < 100:
            side = json.load(open(os.path.join(VERIF, 'coq', 'theories', 'Gen', 'gen_singleton.side.json')))
            lx.add_keywords(eval(side['kwnames'][kid], {'keywords': keywords}))    # noqa: S307
        else:
            lx.add_keywords({k: _tt(v) for k, v in USER_KW[kid].items()})
    elif kind == 'default_init':
        lx.default_initialization()
    elif kind == 'get_instance':
        pass
    else:
        raise ValueError(kind)
    return 'OK None'


def run_ops(ops):
    keep = []
    return [run_op(op, keep) for op in ops], keep


def is_reconf(op):
    return op[0] in ('clear', 'set_regex', 'add_kw', 'default_init')


def ends_default(h):
    b = True
    for op in h:
        if is_reconf(op):
            b = op[0] == 'default_init'
    return b


def lexer_fingerprint():
    """the configuration of the default lexer, or None when no instance exists"""
    from sqlparse import lexer, keywords
    inst = lexer.Lexer.__dict__.get('_default_instance')
    if inst is None:
        return None
    rx = getattr(inst, '_SQL_REGEX', None)
    kws = getattr(inst, '_keywords', None)
    return [None if rx is None else [(m.__self__.pattern, m.__self__.flags, repr(t)) for m, t in rx],
            None if kws is None else [id(d) if any(d is getattr(keywords, n) for n in dir(keywords) if n.startswith('KEYWORDS'))
                                      else sorted((k, repr(v)) for k, v in d.items()) for d in kws]]


def lexer_state_dump():
    """configuration of the default lexer in the syntax of the driver command `hist`:
    none | bare | <rule list id or ->:<k.k.k>"""
    from sqlparse import lexer, keywords
    inst = lexer.Lexer.__dict__.get('_default_instance')
    if inst is None:
        return 'none'
    if not hasattr(inst, '_SQL_REGEX') or not hasattr(inst, '_keywords'):
        return 'bare'
    pats = [m.__self__.pattern for m, _ in inst._SQL_REGEX]
    if not pats:
        rx = '-'
    elif pats == [r for r, _ in keywords.SQL_REGEX]:
        rx = '0'
    else:
        rx = next((str(i) for i, l in USER_REGEX.items() if pats == [r for r, _ in l]), '?')
    side = json.load(open(os.path.join(VERIF, 'coq', 'theories', 'Gen', 'gen_singleton.side.json')))
    dflt = [eval(n, {'keywords': keywords}) for n in side['kwnames']]    # noqa: S307
    ks = []
    for d in inst._keywords:
        hit = [i for i, e in enumerate(dflt) if e is d]
        if hit:
            ks.append(str(hit[0]))
        else:
            ks.append(next((str(i) for i, u in USER_KW.items() if {k: repr(v) for k, v in d.items()} ==
                            {k: repr(_tt(v)) for k, v in u.items()}), '?'))
    return rx + ':' + '.'.join(ks)


def model_symbol(op):
    """the operation in the syntax of the driver command `hist`"""
    k = op[0]
    if k in ('parse', 'split', 'format', 'raise_in_gen', 'bsplit', 'enc_call'):
        return 'P'
    if k == 'format_invalid':
        return 'N'
    if k == 'stream':
        return 'P' if op[2] >= 1 else 'N'
    return {'clear': 'C', 'default_init': 'D', 'get_instance': 'G'}.get(k) or \
        ('R%d' % op[1] if k == 'set_regex' else 'K%d' % op[1])


# ------------------------------------------------------------------------------------------------
def probe_worker():
    """stdin: {'probes': [op,...]} -> results of each probe in THIS fresh interpreter, asked twice
    (in order, then again in reverse order) so that a probe-order effect would show."""
    sys.path.insert(0, HERE)
    data = json.load(sys.stdin)
    probes = data['probes']
    first, _ = run_ops(probes)
    again, _ = run_ops(probes[::-1])
    json.dump({'first': first, 'again': again[::-1]}, sys.stdout)


def history_worker():
    """stdin: {'jobs': [{'history': [...], 'probe': op}]}: runs, in ONE interpreter, job after job: the history,
    then the probe.  Between jobs the lexer is put back with default_initialization() (which is itself part
    of what is being tested: the next job's history then starts from a non-fresh state)."""
    sys.path.insert(0, HERE)
    data = json.load(sys.stdin)
    out = []
    alive = []
    for job in data['jobs']:
        hres, keep = run_ops(job['history'])
        if data.get('keep_generators'):
            alive.extend(keep)
        state = lexer_state_dump()
        pres, _ = run_ops([job['probe']])
        out.append({'probe': pres[0], 'history_results': [r[:40] for r in hres], 'state_after_history': state,
                    'state_after_probe': lexer_state_dump()})
        if not ends_default(job['history']):
            raise SystemExit('history does not end in the default configuration')
    json.dump({'results': out, 'generators_alive': len(alive)}, sys.stdout)


def stress_worker():
    """fresh process: N threads start on a barrier and make the process's FIRST calls concurrently; every
    result must equal the sequential result computed afterwards."""
    sys.path.insert(0, HERE)
    import threading
    data = json.load(sys.stdin)
    sys.setswitchinterval(data.get('switch', 1e-6))
    corpus = data['corpus']            # list of ops (parse/split/format)
    n = data['threads']
    rounds = data['rounds']
    import sqlparse  # noqa: F401  (import only; no call before the barrier)
    from sqlparse import lexer
    assert lexer.Lexer.__dict__.get('_default_instance') is None
    bar = threading.Barrier(n)
    results = [None] * n
    errors = []

    def body(t):
        try:
            bar.wait()
            res = []
            for r in range(rounds):
                for k in range(len(corpus)):
                    op = corpus[(k + t * 7 + r) % len(corpus)]
                    res.append(((k + t * 7 + r) % len(corpus), run_op(op, [])))
            results[t] = res
        except BaseException as e:   # noqa
            errors.append(repr(e))
    ths = [threading.Thread(target=body, args=(t,)) for t in range(n)]
    for th in ths:
        th.start()
    for th in ths:
        th.join()
    seq = [run_op(op, []) for op in corpus]
    bad = []
    total = 0
    for t, res in enumerate(results):
        for k, r in (res or []):
            total += 1
            if r != seq[k]:
                bad.append({'thread': t, 'op': corpus[k], 'concurrent': r[:200], 'sequential': seq[k][:200]})
    json.dump({'compared': total, 'bad': bad[:5], 'nbad': len(bad), 'errors': errors,
               'instances': 1 if lexer.Lexer.__dict__.get('_default_instance') is not None else 0}, sys.stdout)


def _obj_dump(inst):
    from sqlparse import keywords
    if inst is None:
        return 'none'
    side = json.load(open(os.path.join(VERIF, 'coq', 'theories', 'Gen', 'gen_singleton.side.json')))
    dflt = [eval(n, {'keywords': keywords}) for n in side['kwnames']]    # noqa: S307
    c = hasattr(inst, '_keywords')
    rx = getattr(inst, '_SQL_REGEX', None)
    r = rx is not None and len(rx) == len(keywords.SQL_REGEX)
    ks = []
    for d in getattr(inst, '_keywords', []):
        hit = [i for i, e in enumerate(dflt) if e is d]
        ks.append(str(hit[0]) if hit else '?')
    return f'{int(c)}{int(r)}:' + '.'.join(ks)


def interrupt_worker():
    """fresh interpreter: the FIRST call `first` is interrupted by an exception injected (from a trace function)
    after exactly k statements of the initialisation sequence; then the probe is run normally.
    Statement sites come from the singleton translator's side file."""
    sys.path.insert(0, HERE)
    import collections
    data = json.load(sys.stdin)
    k = data['k']
    side = json.load(open(os.path.join(VERIF, 'coq', 'theories', 'Gen', 'gen_singleton.side.json')))
    # the statements executed under the lock on first use (HistoryX.is_init_instr)
    init_idx = [i for i, p in enumerate(side['prog'])
                if p.split()[0] in ('INewAssign', 'ILoadSelf', 'INewLocal', 'IPublishSelf', 'IClear', 'ISetRegex', 'IAddKw')]
    # k >= number of initialisation statements: nothing is injected (an exception raised at the line event of the
    # with-exit would bypass __exit__ -- an artefact of trace-function injection -- and leave the lock held)
    target = init_idx[k] if k < len(init_idx) else None
    from sqlparse import lexer
    L = lexer.Lexer
    codes = {}
    for name in ('get_default_instance', 'default_initialization'):
        f = L.__dict__[name]
        codes[getattr(f, '__func__', f).__code__] = name
    site_idx = collections.defaultdict(list)
    for i, st in enumerate(side['sites']):
        site_idx[(st['fn'], st['line'])].append(i)
    seen = collections.Counter()
    fired = []

    def local(frame, event, arg):
        if event == 'line':
            key = (codes[frame.f_code], frame.f_lineno)
            cands = site_idx.get(key)
            if cands:
                j = cands[min(seen[key], len(cands) - 1)]
                seen[key] += 1
                if j == target and not fired:
                    fired.append(j)
                    raise RecursionError('injected by the C20 harness')
        return local

    def glob(frame, event, arg):
        return local if frame.f_code in codes else None
    sys.settrace(glob)
    try:
        first = run_op(data['first'], [])
    finally:
        sys.settrace(None)
    state = _obj_dump(L.__dict__.get('_default_instance'))
    locked = L._lock.locked() if hasattr(L, '_lock') else None
    probe = run_op(data['probe'], [])
    json.dump({'fired': bool(fired), 'first': first[:80], 'state': state, 'lock_held': locked, 'probe': probe,
               'state_after_probe': _obj_dump(L.__dict__.get('_default_instance'))}, sys.stdout)


def depth_worker():
    """fresh interpreter: the FIRST call is made `margin` frames below the recursion limit (no injection, no
    tracing: the natural reproducer of KF-C20-1); then the probe at normal depth."""
    sys.path.insert(0, HERE)
    data = json.load(sys.stdin)
    import inspect
    from sqlparse import lexer
    out = {}

    def deep(n):
        if n <= 0:
            out['first'] = run_op(data['first'], [])
            return
        deep(n - 1)
    here = len(inspect.stack())
    try:
        deep(sys.getrecursionlimit() - here - data['margin'])
    except RecursionError:
        out['first'] = 'RecursionError outside the library'
    L = lexer.Lexer
    state = _obj_dump(L.__dict__.get('_default_instance'))
    probe = run_op(data['probe'], [])
    json.dump({'first': out.get('first', '?')[:80], 'state': state, 'probe': probe,
               'lock_held': L._lock.locked() if hasattr(L, '_lock') else None}, sys.stdout)


def spawn_many(mode, payloads, repo=None, timeout=300, nproc=8):
    """several fresh interpreters in parallel"""
    repo = repo or os.environ.get('VERIF_REPO', '/repo')
    env = dict(os.environ)
    env['PYTHONPATH'] = repo
    env['PYTHONHASHSEED'] = '0'
    out = [None] * len(payloads)
    for i in range(0, len(payloads), nproc):
        procs = []
        for j, pl in enumerate(payloads[i:i + nproc]):
            p = subprocess.Popen([PY, os.path.abspath(__file__), mode], env=env, stdin=subprocess.PIPE,
                                 stdout=subprocess.PIPE, stderr=subprocess.PIPE, text=True)
            p.stdin.write(json.dumps(pl))
            p.stdin.close()
            procs.append((i + j, p))
        for idx, p in procs:
            try:
                so = p.stdout.read()
                p.wait(timeout=timeout)
                out[idx] = json.loads(so)
            except Exception as e:   # noqa
                p.kill()
                out[idx] = {'worker_error': repr(e) + p.stderr.read()[-300:]}
    return out


def spawn(mode, payload, repo=None, timeout=900):
    repo = repo or os.environ.get('VERIF_REPO', '/repo')
    env = dict(os.environ)
    env['PYTHONPATH'] = repo
    env['PYTHONHASHSEED'] = '0'
    p = subprocess.run([PY, os.path.abspath(__file__), mode], input=json.dumps(payload), env=env,
                       stdout=subprocess.PIPE, stderr=subprocess.PIPE, text=True, timeout=timeout)
    if p.returncode != 0:
        raise RuntimeError(f'{mode} failed: {p.stderr[-1500:]}')
    return json.loads(p.stdout)


# ------------------------------------------------------------------------------------------------
# inventory self-test on patched copies
STATE_VARIANTS = {
    'module_cache': ('utils.py', [('def remove_quotes(val):\n', '_CACHE = {}\n\n\ndef remove_quotes(val):\n    _CACHE[val] = 1\n')]),
    'lazy_tokentype': ('engine/grouping.py', [('def group_order(tlist):\n', 'def group_order(tlist):\n    T.Keyword.LazyNew\n')]),
    'mutable_default': ('utils.py', [('def remove_quotes(val):\n', 'def remove_quotes(val, seen=[]):\n')]),
    'lexer_memo_field': ('lexer.py', [('        self._keywords = []\n', '        self._keywords = []\n        self._memo = {}\n'),
                                      ('        if isinstance(text, TextIOBase):\n', '        self._memo[text] = 1\n        if isinstance(text, TextIOBase):\n')]),
    'lru_cache': ('utils.py', [('def remove_quotes(val):\n', 'import functools\n\n\n@functools.lru_cache\ndef remove_quotes(val):\n')]),
    'global_counter': ('utils.py', [('def remove_quotes(val):\n', 'COUNTER = 0\n\n\ndef remove_quotes(val):\n    global COUNTER\n    COUNTER += 1\n')]),
    'keywords_written_by_call': ('lexer.py', [('        val = value.upper()\n', '        val = value.upper()\n        self._keywords.append({})\n')]),
    'class_table_mutated': ('sql.py', [('class TypedLiteral(TokenList):\n', 'class TypedLiteral(TokenList):\n    def grow(self):\n        self.M_OPEN.append((T.Keyword, "X"))\n\n')]),
    'class_attr_after_import': ('engine/filter_stack.py', [('        self._grouping = True\n', '        self._grouping = True\n        FilterStack.last = self\n')]),
    'keyword_table_written': ('keywords.py', [('PROCESS_AS_KEYWORD = object()\n', 'PROCESS_AS_KEYWORD = object()\n\n\ndef learn(w):\n    KEYWORDS[w] = tokens.Keyword\n')]),
    'control_unchanged': ('utils.py', []),
}


def translate_state(repo):
    code = ('import sys, json; sys.path.insert(0, %r); import gen_state, common\n'
            'try:\n'
            '    files, side = gen_state.generate()\n'
            '    print(json.dumps({"ok": True, "v": files["StateInv.v"]}))\n'
            'except common.Unsupported as e:\n'
            '    print(json.dumps({"ok": False, "error": str(e.what)}))\n') % os.path.join(HERE, 'regen')
    env = dict(os.environ)
    env.update({'PYTHONPATH': repo, 'VERIF_REPO': repo, 'PYTHONHASHSEED': '0'})
    p = subprocess.run([PY, '-c', code], env=env, stdout=subprocess.PIPE, stderr=subprocess.PIPE, text=True, timeout=600)
    if p.returncode != 0:
        return {'ok': False, 'error': 'translator crashed: ' + p.stderr[-800:]}
    return json.loads(p.stdout.strip().splitlines()[-1])


def coq_verdict(state_v):
    """compile a generated StateInv.v in a temp dir and evaluate the Coq rule on it"""
    d = tempfile.mkdtemp(prefix='c20_inv_')
    try:
        with open(os.path.join(d, 'StateInv.v'), 'w') as f:
            f.write(state_v)
        theories = os.path.join(VERIF, 'coq', 'theories')
        p = subprocess.run(['timeout', '300', 'coqc', '-R', theories, 'SqlModel', '-Q', d, 'Tmp',
                            os.path.join(d, 'StateInv.v')], stdout=subprocess.PIPE, stderr=subprocess.STDOUT, text=True)
        if p.returncode != 0:
            return {'compiled': False, 'log': p.stdout[-500:]}
        script = ('From Coq Require Import String List. From SqlModel.Sys Require Import History. Require Import Tmp.StateInv.\n'
                  'Eval vm_compute in (inventory_ok bindings tokentype_uses tokentypes_created_by_workload '
                  'attributes_created_by_workload defaults_changed_by_workload).\n'
                  'Eval vm_compute in (map b_name (filter (fun b => negb (state_ok b)) bindings)).\n'
                  'Eval vm_compute in (map (fun u => fst (fst u)) (filter (fun u => negb (snd u)) tokentype_uses)).\n')
        q = subprocess.run(['timeout', '300', 'coqtop', '-R', theories, 'SqlModel', '-Q', d, 'Tmp'], input=script,
                           stdout=subprocess.PIPE, stderr=subprocess.STDOUT, text=True)
        out = q.stdout
        import re
        vals = re.findall(r'= (.*?)\n\s+: ', out, flags=re.S)
        return {'compiled': True, 'inventory_ok': vals[0].strip() if vals else '?',
                'failing_bindings': ' '.join(vals[1].split()) if len(vals) > 1 else '?',
                'missing_tokentypes': ' '.join(vals[2].split()) if len(vals) > 2 else '?'}
    finally:
        shutil.rmtree(d, ignore_errors=True)


def state_variant_selftest(kinds=None):
    repo = os.environ.get('VERIF_REPO', '/repo')
    report = {}
    for kind, (rel, patches) in STATE_VARIANTS.items():
        if kinds and kind not in kinds:
            continue
        tmp = tempfile.mkdtemp(prefix='c20_state_')
        try:
            shutil.copytree(os.path.join(repo, 'sqlparse'), os.path.join(tmp, 'sqlparse'),
                            ignore=shutil.ignore_patterns('__pycache__'))
            p = os.path.join(tmp, 'sqlparse', rel)
            with open(p) as f:
                src = f.read()
            for old, new in patches:
                if src.count(old) != 1:
                    raise RuntimeError(f'{kind}: patch anchor not unique in {rel}: {old!r}')
                src = src.replace(old, new)
            with open(p, 'w') as f:
                f.write(src)
            tr = translate_state(tmp)
            if not tr['ok']:
                report[kind] = {'translator': 'failed closed', 'error': tr['error'][:300]}
            else:
                report[kind] = coq_verdict(tr['v'])
        finally:
            shutil.rmtree(tmp, ignore_errors=True)
    return report


if __name__ == '__main__':
    mode = sys.argv[1] if len(sys.argv) > 1 else ''
    if mode == '--probe-worker':
        probe_worker()
    elif mode == '--history-worker':
        history_worker()
    elif mode == '--stress-worker':
        stress_worker()
    elif mode == '--interrupt-worker':
        interrupt_worker()
    elif mode == '--depth-worker':
        depth_worker()
    elif mode == '--state-variants':
        print(json.dumps(state_variant_selftest(sys.argv[2:] or None), indent=1))
