"""Implementation-side observers for StripCommentsFilter (same dump format as the driver commands
`stripcomments` and `scsearch`)."""
import re

from sqlparse import engine, filters

import impl


def stripcomments_stmts(text):
    """The statements as format(text, strip_comments=True) sees them just before the serializer."""
    stack = engine.FilterStack()
    stack.enable_grouping()
    stack.stmtprocess.append(filters.StripCommentsFilter())
    return list(stack.run(text))


def stripcomments_dump(text):
    try:
        stmts = stripcomments_stmts(text)
    except Exception as e:  # noqa
        return 'ERR ' + impl.exn_name(e)
    return 'OK ' + impl.nodes_str(stmts)


def scsearch_dump(value):
    m = re.search(r'([\r\n]+) *$', value)
    if m is None:
        return 'OK None'
    g = m.groups()[0]
    return 'OK ' + (','.join(str(ord(c)) for c in g) if g else '-')
