"""Implementation side of the object-heap correspondence (model: coq/theories/Tree/HeapDefs.v, driver: ocaml/drv_heap.ml).

heapops_dump(k, si, text, ops): parse `text` with the real library (first k grouping passes, or all), take statement si,
run the operations on the REAL objects and dump every object in pre-order with the path of the object its `parent`
field names (found by identity).  Same line format as the driver command `heapops`.

record_pipeline(text): run the real grouping pipeline with TokenList.group_tokens wrapped, and return, per statement, the
sequence of group_tokens calls (self path, class, start, end, include_end, extend) and ttype re-assignments as an ops string:
replaying it in the model from the ungrouped statement must give the real final tree, parent pointers included.

check_tree(st): parent pointers / uniqueness / cached values / non-emptiness of one statement tree (used after every pass).
"""
import sqlparse  # noqa
from sqlparse import lexer, sql, tokens as T
from sqlparse.engine.statement_splitter import StatementSplitter

import impl


def _cps(v):
    return ','.join(str(ord(c)) for c in v)


def pstr(p):
    return '.'.join(['r'] + [str(k) for k in p])


def index_paths(root):
    """id(obj) -> path of its first occurrence in pre-order; an object on the current descent is not entered again."""
    tbl = {}

    def go(n, p, stack):
        if any(n is s for s in stack):
            return
        if id(n) not in tbl:
            tbl[id(n)] = pstr(p)
        if n.is_group:
            for k, c in enumerate(n.tokens):
                go(c, p + [k], stack + [n])
    go(root, [], [])
    return tbl


def path_of(root, obj):
    return index_paths(root).get(id(obj), 'DANGLING')


def dump(root):
    tbl = index_paths(root)
    out = []

    def go(n, p, stack):
        if any(n is s for s in stack):
            out.append(pstr(p) + '=CYCLE')
            return
        if n.is_group:
            s = 'G' + type(n).__name__ + ':' + _cps(n.value)
        else:
            s = 'L' + impl.ttype_str(n.ttype) + ':' + _cps(n.value)
        q = n.parent
        if q is None:
            ps = 'None'
        elif id(q) not in tbl:
            ps = 'DANGLING'
        else:
            contains = q.is_group and any(c is n for c in q.tokens)
            ps = tbl[id(q)] if contains else 'DANGLING:' + tbl[id(q)]
        out.append(pstr(p) + '=' + s + '^' + ps)
        if n.is_group:
            for k, c in enumerate(n.tokens):
                go(c, p + [k], stack + [n])
    go(root, [], [])
    return ';'.join(out)


def resolve(root, path):
    parts = path.split('.')
    if parts[0] != 'r':
        return None
    n = root
    for k in parts[1:]:
        if not n.is_group:
            return None
        k = int(k)
        if k < 0 or k >= len(n.tokens):
            return None
        n = n.tokens[k]
    return n


def _b(s):
    return s == '1'


def _err(e):
    return '!' + type(e).__name__


def _matcher(sw, scm):
    from sqlparse.utils import imt

    def matcher(tk):
        return not ((sw and tk.is_whitespace) or (scm and imt(tk, t=T.Comment, i=sql.Comment)))
    return matcher


def extend_taken(self, cls, start, ext):
    try:
        st = self.tokens[start]
    except Exception:  # noqa
        return False
    return bool(ext and isinstance(st, cls))


def run_op(root, op):
    """(result string, stop)"""
    f = op.split(':')
    kind = f[0]

    def tokres(r):
        if r is None or r == (None, None):
            return 'None'
        return '%d,%s' % (r[0], path_of(root, r[1]))
    try:
        if kind == 'G':
            _, p, c, s, e, incl, ext = f
            self = resolve(root, p)
            if self is None:
                return 'BADPATH', False
            cls = getattr(sql, c)
            taken = extend_taken(self, cls, int(s), _b(ext)) if self.is_group else False
            try:
                g = self.group_tokens(cls, int(s), int(e), include_end=_b(incl), extend=_b(ext))
            except RecursionError as x:
                return _err(x), True
            return 'g=%s;x=%d' % (path_of(root, g), 1 if taken else 0), False
        if kind in ('IB', 'IA'):
            p, w = f[1], f[2]
            self = resolve(root, p)
            if self is None:
                return 'BADPATH', False
            if w.startswith('@'):
                where = resolve(root, w[1:])
                if where is None:
                    return 'BADPATH', False
            else:
                where = int(w)
            tok = sql.Token(T.Whitespace, impl_uncps(f[-1]))
            if kind == 'IB':
                self.insert_before(where, tok)
            else:
                self.insert_after(where, tok, skip_ws=_b(f[3]))
            return 'ok', False
        if kind in ('N', 'P'):
            _, p, i, sw, scm = f
            g = resolve(root, p)
            if g is None:
                return 'BADPATH', False
            if kind == 'N':
                return tokres(g.token_next(int(i), skip_ws=_b(sw), skip_cm=_b(scm))), False
            return tokres(g.token_prev(int(i), skip_ws=_b(sw), skip_cm=_b(scm))), False
        if kind == 'M':
            _, p, s, e, rev, sw, scm = f
            g = resolve(root, p)
            if g is None:
                return 'BADPATH', False
            return tokres(g._token_matching(_matcher(_b(sw), _b(scm)), int(s), None if e == 'N' else int(e), _b(rev))), False
        if kind == 'F':
            _, p, sw, scm = f
            g = resolve(root, p)
            if g is None:
                return 'BADPATH', False
            t = g.token_first(skip_ws=_b(sw), skip_cm=_b(scm))
            return ('None' if t is None else path_of(root, t)), False
        if kind == 'X':
            _, p, t, s = f
            g = resolve(root, p)
            if g is None:
                return 'BADPATH', False
            t = resolve(root, t)
            if t is None:
                return 'BADPATH', False
            return str(g.token_index(t, int(s))), False
        if kind in ('A', 'C'):
            a = resolve(root, f[1])
            if a is None:
                return 'BADPATH', False
            b = resolve(root, f[2])
            if b is None:
                return 'BADPATH', False
            r = a.has_ancestor(b) if kind == 'A' else a.is_child_of(b)
            return ('True' if r else 'False'), False
        if kind == 'W':
            a = resolve(root, f[1])
            if a is None:
                return 'BADPATH', False
            return ('True' if a.within(getattr(sql, f[2])) else 'False'), False
        if kind == 'O':
            g = resolve(root, f[1])
            if g is None:
                return 'BADPATH', False
            t = g.get_token_at_offset(int(f[2]))
            return ('None' if t is None else path_of(root, t)), False
        if kind == 'FL':
            g = resolve(root, f[1])
            if g is None:
                return 'BADPATH', False
            tbl = index_paths(root)
            return ','.join(tbl.get(id(t), 'DANGLING') for t in g.flatten()), False
        if kind == 'RT':
            g = resolve(root, f[1])
            if g is None:
                return 'BADPATH', False
            if not g.is_group:
                g.ttype = T.Operator
            return 'ok', False
    except RecursionError as x:
        return _err(x), False
    except Exception as x:  # noqa
        return _err(x), False
    return 'BADOP', False


def impl_uncps(s):
    return '' if s in ('', '-') else ''.join(chr(int(x)) for x in s.split(','))


def parse_upto(text, k):
    """Statements after the first k passes (k None: all), or an exception."""
    stmts = list(StatementSplitter().process(lexer.tokenize(text)))
    fns = impl.pass_list()
    if k is not None:
        fns = fns[:k]
    for st in stmts:
        for fn in fns:
            fn(st)
    return stmts


def heapops_dump(k, si, text, ops):
    try:
        stmts = parse_upto(text, None if k == 'all' else int(k))
    except Exception as e:  # noqa
        return 'ERR ' + type(e).__name__
    if si < 0 or si >= len(stmts):
        return 'NOSTMT'
    root = stmts[si]
    res = []
    stopped = False
    for op in ([] if ops in ('', '-') else ops.split('/')):
        r, stop = run_op(root, op)
        res.append(r)
        if stop:
            stopped = True
            break
    return 'OK ' + '|'.join(res) + ' # ' + ('STOPPED' if stopped else dump(root))


# ---- the real pipeline as a sequence of heap operations -----------------------------------------------
def record_pipeline(text):
    """Per statement {'ops', 'line', 'violations'}, or None when lexing/grouping raises.
    ops: every TokenList.group_tokens call the real grouping passes make (self named by its path at call time) and
    every leaf whose ttype was re-assigned since the previous call (RT); line: the reply the model must give for
    `heapops 0 <si> <text> <ops>`; violations: check_tree after every pass."""
    try:
        stmts = list(StatementSplitter().process(lexer.tokenize(text)))
    except Exception:  # noqa
        return None
    out = []
    orig = sql.TokenList.group_tokens
    for st in stmts:
        ops, results, violations = [], [], []
        types = {id(t): t.ttype for t in st.flatten()}

        def retyped():
            tbl = None
            for t in st.flatten():
                if types.get(id(t)) is not t.ttype:
                    if tbl is None:
                        tbl = index_paths(st)
                    if t.ttype is not T.Operator:
                        raise RuntimeError('re-typed to something else than Operator')
                    ops.append('RT:' + tbl[id(t)])
                    results.append('ok')
                    types[id(t)] = t.ttype

        def wrapped(self, grp_cls, start, end, include_end=True, extend=False):
            retyped()
            ops.append('G:%s:%s:%d:%d:%d:%d' % (path_of(st, self), grp_cls.__name__, start, end,
                                               1 if include_end else 0, 1 if extend else 0))
            taken = extend_taken(self, grp_cls, start, extend)
            g = orig(self, grp_cls, start, end, include_end, extend)
            results.append('g=%s;x=%d' % (path_of(st, g), 1 if taken else 0))
            return g
        sql.TokenList.group_tokens = wrapped
        try:
            for fn in impl.pass_list():
                fn(st)
                bad = check_tree(st)
                if bad:
                    violations.append('after %s: %s' % (fn.__name__, bad))
            retyped()
        except Exception:  # noqa
            return None
        finally:
            sql.TokenList.group_tokens = orig
        out.append({'ops': '/'.join(ops) if ops else '-', 'line': 'OK ' + '|'.join(results) + ' # ' + dump(st),
                    'violations': violations})
    return out


def check_tree(st, nonempty=True):
    """None, or a description of the first violated structural invariant of the tree rooted at st."""
    if st.parent is not None:
        return 'root has a parent'
    seen = set()
    stack = [st]
    while stack:
        g = stack.pop()
        if id(g) in seen:
            return 'object occurs twice'
        seen.add(id(g))
        if not g.is_group:
            continue
        if nonempty and not g.tokens:
            return 'empty group %s' % type(g).__name__
        if g.value != ''.join(t.value for t in g.flatten()):
            return 'cached value of %s differs from its text' % type(g).__name__
        for c in g.tokens:
            if c.parent is not g:
                return 'parent of a child of %s is not that group' % type(g).__name__
        stack.extend(g.tokens)
    return None


def pipeline_check(text):
    """After EVERY grouping pass of the real pipeline: check_tree on every statement.  None or a failure dict."""
    try:
        stmts = list(StatementSplitter().process(lexer.tokenize(text)))
    except Exception:  # noqa
        return None
    for si, st in enumerate(stmts):
        bad = check_tree(st, nonempty=False)
        if bad:
            return {'input': [ord(c) for c in text], 'observed': 'before grouping, statement %d: %s' % (si, bad)}
        for k, fn in enumerate(impl.pass_list()):
            try:
                fn(st)
            except Exception:  # noqa
                return None
            bad = check_tree(st)
            if bad:
                return {'input': [ord(c) for c in text],
                        'observed': 'after pass %d (%s), statement %d: %s' % (k + 1, fn.__name__, si, bad)}
    return None
