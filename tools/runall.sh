#!/bin/sh
# usage: runall.sh <seed> [tier] [props...]  -- runs the registered quick/thorough commands one after the other and prints a summary
seed=${1:-0}; tier=${2:-quick}; shift; shift
props="$@"; cd "$(dirname "$0")/.."
[ -z "$props" ] && props=$(python3 -c "import json;print(' '.join(c['property_id'] for c in json.load(open('MANIFEST.json'))['checks']))")
for p in $props; do
  s=$(date +%s)
  out=$(VERIF_SEED=$seed python3 tools/check.py $p --tier $tier 2>&1); rc=$?
  e=$(date +%s)
  echo "== $p seed=$seed rc=$rc $((e-s))s $(echo "$out" | grep -c '^KNOWN-FINDING') known"
  echo "$out" | grep '^VIOLATION'
done
