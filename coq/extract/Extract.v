(* Extraction of the executable model for the correspondence harness.
   ExtrOcamlBasic only: bool/option/list/prod/unit/sumbool map to OCaml's; nat, N, positive, Z
   stay the extracted inductive types.  No Extract Constant / Extract Inductive of our own. *)
Require Extraction.
Require Import ExtrOcamlBasic.
From SqlModel Require Import Base Re Lexer.
From SqlModel.Inst Require Import Cur.

Extraction Language OCaml.
Extraction "sqlmodel.ml" cur_lex cur_rmatch cur_process cur_split_stream cur_parse_upto cur_parse.
