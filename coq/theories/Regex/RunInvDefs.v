(* RUN INVARIANCE of matching (C11, lexer layer): for the regular expressions of a syntactic class -- which contains
   every rule of the current table a match starting with an ASCII letter can come from, the TZCast rule excepted --
   the result of a match attempt does not depend on the LENGTH or the SPELLING of the white-space runs in the text:
   `ORDER<any non-empty run>BY` is matched like `ORDER BY`.  Definitions only; proofs in RunInv.v.

   The class (good kd r): every atom is disjoint from the white-space set S, except the atom of a repeat
   `\s+` / `\s*` whose continuation is DEAD on a state whose next character is in S (it cannot consume such a
   character and cannot end there): then of all the ways `\s+` can stop inside a run only the one at its end survives. *)
From SqlModel Require Import Base Re SplitApi.

Section Defs.
Variable S : cset.                          (* the \s set *)

Definition inS (c : N) : bool := cmem c S.
Definition isS (s : cset) : bool := csubset s S && csubset S s.

(* every result of r from a state whose next character is in S is at the same position *)
Fixpoint stuck (r : re) : bool :=
  match r with
  | Eps => true
  | Atom s => cdisjoint s S
  | Seq a b => stuck a && (Nat.leb 1 (minw a) || stuck b)
  | Alt a b => stuck a && stuck b
  | Rep _ _ _ a | Group _ a => stuck a
  | Backref _ => false
  | Ahead _ _ | Behind _ _ | Bound _ | AtEnd => true
  end.

(* b, followed by a continuation that is dead iff kd, is dead on such a state *)
Definition ds (b : re) (kd : bool) : bool := stuck b && (kd || Nat.leb 1 (minw b)).

Fixpoint good (kd : bool) (r : re) : bool :=
  match r with
  | Eps => true
  | Atom d => cdisjoint d S
  | Seq a b => good (ds b kd) a && good kd b
  | Alt a b => good kd a && good kd b
  | Group _ a => good kd a
  | Rep _ lo hi a =>
      match hi, a with
      | Some 1, _ => Nat.eqb lo 0 && good kd a
      | None, Atom s => cdisjoint s S || (isS s && kd && Nat.leb lo 1)
      | _, _ => false
      end
  | Backref _ => false
  | Ahead _ a => good false a
  | Behind _ s => cdisjoint s S || csubset S s
  | Bound w => cdisjoint w S
  | AtEnd => false
  end.

(* ---- states ------------------------------------------------------------------------------------- *)
Definition snext_t (t : text) : bool := match t with c :: _ => inS c | [] => false end.
Definition snext (x : st) : bool := snext_t (rest x).
Definition interior (x : st) : bool := mem_opt (prev x) S && snext x.

(* the run-stretch relation: the same characters outside white-space runs; runs non-empty at the same places *)
Inductive RS : text -> text -> Prop :=
| RS_nil : RS [] []
| RS_char c t t' : inS c = false -> RS t t' -> RS (c :: t) (c :: t')
| RS_run R R' t t' :
    R <> [] -> R' <> [] -> forallb inS R = true -> forallb inS R' = true ->
    snext_t t = false -> snext_t t' = false -> RS t t' -> RS (R ++ t) (R' ++ t').

Definition prel (p p' : option N) : Prop := p = p' \/ (mem_opt p S = true /\ mem_opt p' S = true).

Definition srel (x x' : st) : Prop :=
  RS (rest x) (rest x') /\ prel (prev x) (prev x') /\ interior x = false /\ interior x' = false.

Definition rrel (xc xc' : st * caps) : Prop := srel (fst xc) (fst xc').

(* what survives a dead continuation *)
Definition surv (kd : bool) (l : list (st * caps)) : list (st * caps) :=
  if kd then filter (fun xc => negb (snext (fst xc))) l else l.

End Defs.
