(* A sound syntactic test that every match of a regular expression CONTAINS a given character: a rule that must
   consume a quote cannot match in a text without quotes.  Used by Lexer/RunLexAll.v to discharge the TZCast rule. *)
From SqlModel Require Import Base Re MinWidth SplitApi SplitApiFacts.
From Coq Require Import Lia.

Section MH.
Variable lower : N -> N.
Variable q : N.

Definition csingle : cset := CNode q (CLeaf false) (CNode (q + 1) (CLeaf true) (CLeaf false)).

Lemma csingle_mem c : cmem c csingle = true -> c = q.
Proof.
  unfold csingle. cbn [cmem]. destruct (N.ltb_spec c q) as [H1|H1]; [discriminate|].
  destruct (N.ltb_spec c (q + 1)) as [H2|H2]; [intros _; lia | discriminate].
Qed.

Fixpoint musthave (r : re) : bool :=
  match r with
  | Atom s => csubset s csingle
  | Seq a b => musthave a || musthave b
  | Alt a b => musthave a && musthave b
  | Group _ a => musthave a
  | Rep _ lo _ a => Nat.leb 1 lo && musthave a
  | _ => false
  end.

Definition has (x x' : st) : Prop := exists w, rest x = w ++ rest x' /\ In q w.

Lemma has_adv x y z n : has x y -> adv n y z -> has x z.
Proof.
  intros (w & E & Hin) (w2 & E2 & _ & _). exists (w ++ w2). rewrite E, E2, app_assoc. split; [reflexivity|].
  apply in_or_app. left. exact Hin.
Qed.

Lemma adv_has x y z n : adv n x y -> has y z -> has x z.
Proof.
  intros (w & E & _ & _) (w2 & E2 & Hin). exists (w ++ w2). rewrite E, E2, app_assoc. split; [reflexivity|].
  apply in_or_app. right. exact Hin.
Qed.

Lemma iter_has (body : st -> caps -> list (st * caps)) :
  (forall x c x' c', In (x', c') (body x c) -> has x x') ->
  (forall x c x' c', In (x', c') (body x c) -> adv 0 x x') ->
  forall g lo hi fuel count x c x' c', count < lo ->
    In (x', c') (iter body g lo hi fuel count x c) -> has x x'.
Proof.
  intros Hb Hadv g lo hi fuel count x c x' c' Hlt H.
  assert (Hstop : (if Nat.leb lo count then [(x, c)] else []) = []).
  { destruct (Nat.leb_spec lo count); [lia | reflexivity]. }
  destruct fuel as [|f]; cbn [iter] in H; rewrite Hstop in H.
  - destruct g; cbn [app] in H; contradiction.
  - assert (Hm : In (x', c')
                    (if match hi with Some h => Nat.ltb count h | None => true end
                     then flat_map (fun xc => iter body g lo hi f (S count) (fst xc) (snd xc)) (body x c)
                     else [])).
    { destruct g; [rewrite app_nil_r in H | rewrite app_nil_l in H]; exact H. }
    destruct (match hi with Some h => Nat.ltb count h | None => true end); [|contradiction].
    apply in_flat_map in Hm. destruct Hm as ([x1 c1] & Hin & Hrec). cbn [fst snd] in Hrec.
    apply (has_adv x x1 x' ((lo - S count) * 0)); [eapply Hb; exact Hin|].
    eapply (iter_adv body 0 Hadv). exact Hrec.
Qed.

Theorem ends_has r : musthave r = true -> forall x c x' c',
  In (x', c') (ends lower r x c) -> has x x'.
Proof.
  induction r as [| s | a IHa b IHb | a IHa b IHb | g lo hi r IH | n r IH | n | neg r IH
                 | neg s | w | ]; intros Hm x c x' c' H; cbn [musthave] in Hm; try discriminate; cbn [ends] in H.
  - destruct (rest x) as [|ch tl] eqn:E; [contradiction|].
    destruct (cmem ch s) eqn:M; [|contradiction].
    destruct H as [H|[]]. injection H as <- <-.
    apply (csubset_sound _ _ Hm) in M. apply csingle_mem in M. subst ch.
    exists [q]. cbn [rest app]. split; [exact E | left; reflexivity].
  - apply in_flat_map in H. destruct H as ([x1 c1] & H1 & H2). cbn [fst snd] in H2.
    apply orb_true_iff in Hm. destruct Hm as [Ha | Hb].
    + eapply has_adv; [eapply IHa; eauto | eapply (ends_adv lower); exact H2].
    + eapply adv_has; [eapply (ends_adv lower); exact H1 | eapply IHb; eauto].
  - apply andb_true_iff in Hm. destruct Hm as [Ha Hb]. apply in_app_or in H. destruct H as [H|H]; eauto.
  - apply andb_true_iff in Hm. destruct Hm as [Hlo Hr]. apply Nat.leb_le in Hlo.
    eapply (iter_has (ends lower r)); [intros; eapply IH; eauto | | | exact H]; [|lia].
    intros y cy y' cy' Hin. eapply adv_weaken; [eapply (ends_adv lower); exact Hin | lia].
  - apply in_map_iff in H. destruct H as ([x1 c1] & E & Hin). cbn [fst snd] in E. injection E as <- _.
    eapply IH; eauto.
Qed.

Corollary rmatch_none_without r x : musthave r = true -> ~ In q (rest x) -> rmatch lower r x = None.
Proof.
  intros Hm Hn. unfold rmatch. destruct (ends lower r x []) as [|[x1 c1] l] eqn:E; [reflexivity|]. exfalso.
  assert (Hin : In (x1, c1) (ends lower r x [])) by (rewrite E; left; reflexivity).
  destruct (ends_has r Hm _ _ _ _ Hin) as (w & Ew & Hq). apply Hn. rewrite Ew. apply in_or_app. left. exact Hq.
Qed.

End MH.
