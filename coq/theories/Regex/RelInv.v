(* Invariance of the regex semantics under a character relation [R] that no character set of the
   regex can observe: related start states give pointwise related result lists (same number of
   results, in the same order, each consuming the same number of characters).
   Generic in [lower] and [R]; nothing here mentions the generated tables. *)
From SqlModel Require Import Base Re CaseDefs.

(* ---- list helpers ---------------------------------------------------------------------- *)
Lemma Forall2_flat_map_rel {A B C D} (P : A -> B -> Prop) (Q : C -> D -> Prop)
      (f : A -> list C) (g : B -> list D) l l' :
  Forall2 P l l' -> (forall a b, P a b -> Forall2 Q (f a) (g b)) ->
  Forall2 Q (flat_map f l) (flat_map g l').
Proof.
  intros H Hfg. induction H as [|a b l l' Hab _ IH]; cbn [flat_map].
  - constructor.
  - apply Forall2_app; [apply Hfg; exact Hab | exact IH].
Qed.

Lemma Forall2_map_rel {A B C D} (P : A -> B -> Prop) (Q : C -> D -> Prop)
      (f : A -> C) (g : B -> D) l l' :
  Forall2 P l l' -> (forall a b, P a b -> Q (f a) (g b)) ->
  Forall2 Q (map f l) (map g l').
Proof.
  intros H Hfg. induction H as [|a b l l' Hab _ IH]; cbn [map]; constructor; auto.
Qed.

Lemma Forall2_firstn_rel {A B} (P : A -> B -> Prop) n : forall l l',
  Forall2 P l l' -> Forall2 P (firstn n l) (firstn n l').
Proof.
  induction n as [|n IH]; intros l l' H; cbn [firstn]; [constructor|].
  destruct H as [|a b l l' Hab H]; constructor; auto.
Qed.

Lemma Forall2_skipn_rel {A B} (P : A -> B -> Prop) n : forall l l',
  Forall2 P l l' -> Forall2 P (skipn n l) (skipn n l').
Proof.
  induction n as [|n IH]; intros l l' H; cbn [skipn]; [exact H|].
  destruct H as [|a b l l' Hab H]; [constructor | auto].
Qed.

Lemma Forall2_len {A B} (P : A -> B -> Prop) l l' : Forall2 P l l' -> length l = length l'.
Proof. induction 1 as [|a b l l' _ _ IH]; cbn [length]; congruence. Qed.

Section Rel.
Variable lower : N -> N.
Variable R : N -> N -> Prop.
Hypothesis R_lower : forall a b, R a b -> lower a = lower b.

(* a character set that cannot tell related characters apart *)
Definition closed (s : cset) : Prop := forall a b, R a b -> cmem a s = cmem b s.

(* [$] looks at one concrete character, the line feed *)
Definition closed_nl : Prop := forall a b, R a b -> N.eqb a 10 = N.eqb b 10.

(* every character set occurring in the regex is closed (and line feed is, if [$] occurs) *)
Fixpoint re_closed (r : re) : Prop :=
  match r with
  | Atom s | Behind _ s | Bound s => closed s
  | Seq a b | Alt a b => re_closed a /\ re_closed b
  | Rep _ _ _ r' | Group _ r' | Ahead _ r' => re_closed r'
  | AtEnd => closed_nl
  | Eps | Backref _ => True
  end.

Definition opt_rel (o o' : option N) : Prop :=
  match o, o' with
  | Some a, Some b => R a b
  | None, None => True
  | _, _ => False
  end.

Definition text_rel (t t' : text) : Prop := Forall2 R t t'.

Definition st_rel (x x' : st) : Prop :=
  opt_rel (prev x) (prev x') /\ text_rel (rest x) (rest x').

Definition caps_rel (c c' : caps) : Prop :=
  Forall2 (fun a b => fst a = fst b /\ text_rel (snd a) (snd b)) c c'.

Definition res_rel (a b : result) : Prop := st_rel (fst a) (fst b) /\ caps_rel (snd a) (snd b).

Lemma st_rel_length x x' : st_rel x x' -> length (rest x) = length (rest x').
Proof. intros [_ H]. exact (Forall2_len _ _ _ H). Qed.

Lemma single_rel x x' c c' : st_rel x x' -> caps_rel c c' -> Forall2 res_rel [(x, c)] [(x', c')].
Proof. intros Hx Hc. constructor; [split; assumption | constructor]. Qed.

Lemma mem_opt_rel s o o' : closed s -> opt_rel o o' -> mem_opt o s = mem_opt o' s.
Proof.
  intros Hs H. destruct o as [a|], o' as [b|]; cbn [opt_rel mem_opt] in *;
    try contradiction; [apply Hs; exact H | reflexivity].
Qed.

Lemma cap_get_rel n c c' :
  caps_rel c c' ->
  match cap_get n c, cap_get n c' with
  | Some t, Some t' => text_rel t t'
  | None, None => True
  | _, _ => False
  end.
Proof.
  intros H. induction H as [|[m t] [m' t'] c c' [Hm Ht] _ IH]; cbn [cap_get]; [exact I|].
  cbn [fst snd] in Hm, Ht. subst m'.
  destruct (Nat.eqb n m); [exact Ht | exact IH].
Qed.

Lemma eat_rel t t' : text_rel t t' -> forall x x', st_rel x x' ->
  match eat lower t x, eat lower t' x' with
  | Some y, Some y' => st_rel y y'
  | None, None => True
  | _, _ => False
  end.
Proof.
  intros H. induction H as [|a b t t' Hab _ IH]; intros x x' Hx; cbn [eat]; [exact Hx|].
  destruct Hx as [_ Hr].
  destruct Hr as [|d d' r r' Hd Hr]; [exact I|].
  rewrite <- (R_lower _ _ Hab), <- (R_lower _ _ Hd).
  destruct (N.eqb (lower a) (lower d)); [|exact I].
  apply IH. split; cbn [prev rest opt_rel]; assumption.
Qed.

Lemma at_end_rel t t' : closed_nl -> text_rel t t' -> at_end t = at_end t'.
Proof.
  intros Hnl H. destruct H as [|a b t t' Hab H]; [reflexivity|].
  destruct H as [|a2 b2 t t' _ _]; cbn [at_end]; [apply Hnl; exact Hab | reflexivity].
Qed.

Definition body_rel (body : st -> caps -> list result) : Prop :=
  forall x x' c c', st_rel x x' -> caps_rel c c' -> Forall2 res_rel (body x c) (body x' c').

Lemma iter_rel body g lo hi : body_rel body ->
  forall fuel count x x' c c', st_rel x x' -> caps_rel c c' ->
    Forall2 res_rel (iter body g lo hi fuel count x c) (iter body g lo hi fuel count x' c').
Proof.
  intros Hb. induction fuel as [|f IH]; intros count x x' c c' Hx Hc.
  - cbn [iter].
    assert (Hs : Forall2 res_rel (if Nat.leb lo count then [(x, c)] else [])
                                 (if Nat.leb lo count then [(x', c')] else [])).
    { destruct (Nat.leb lo count); [apply single_rel; assumption | constructor]. }
    destruct g; apply Forall2_app; try exact Hs; constructor.
  - cbn [iter].
    assert (Hs : Forall2 res_rel (if Nat.leb lo count then [(x, c)] else [])
                                 (if Nat.leb lo count then [(x', c')] else [])).
    { destruct (Nat.leb lo count); [apply single_rel; assumption | constructor]. }
    assert (Hm : Forall2 res_rel
                   (if match hi with Some h => Nat.ltb count h | None => true end
                    then flat_map (fun xc => iter body g lo hi f (S count) (fst xc) (snd xc))
                                  (body x c)
                    else [])
                   (if match hi with Some h => Nat.ltb count h | None => true end
                    then flat_map (fun xc => iter body g lo hi f (S count) (fst xc) (snd xc))
                                  (body x' c')
                    else [])).
    { destruct (match hi with Some h => Nat.ltb count h | None => true end); [|constructor].
      eapply Forall2_flat_map_rel; [apply Hb; assumption|].
      intros [x1 c1] [x2 c2] [H1 H2]. cbn [fst snd] in *. apply IH; assumption. }
    destruct g; apply Forall2_app; assumption.
Qed.

(* Main theorem: related inputs, pointwise related backtracking lists. *)
Theorem ends_rel r : re_closed r -> forall x x' c c',
  st_rel x x' -> caps_rel c c' ->
  Forall2 res_rel (ends lower r x c) (ends lower r x' c').
Proof.
  induction r as [| s | a IHa b IHb | a IHa b IHb | g lo hi r IH | n r IH | n | neg r IH
                 | neg s | w | ]; intros Hcl x x' c c' Hx Hc; cbn [ends re_closed] in *.
  - (* Eps *) apply single_rel; assumption.
  - (* Atom *)
    destruct Hx as [_ Hr].
    destruct Hr as [|ch ch' tl tl' Hch Hr]; [constructor|].
    rewrite <- (Hcl _ _ Hch).
    destruct (cmem ch s); [|constructor].
    apply single_rel; [|assumption]. split; cbn [prev rest opt_rel]; assumption.
  - (* Seq *)
    destruct Hcl as [Ha Hb].
    eapply Forall2_flat_map_rel; [apply IHa; assumption|].
    intros [x1 c1] [x2 c2] [H1 H2]. cbn [fst snd] in *. apply IHb; assumption.
  - (* Alt *)
    destruct Hcl as [Ha Hb]. apply Forall2_app; [apply IHa | apply IHb]; assumption.
  - (* Rep *)
    replace (rep_fuel hi x') with (rep_fuel hi x)
      by (unfold rep_fuel; rewrite (st_rel_length _ _ Hx); reflexivity).
    apply iter_rel; [|assumption|assumption].
    intros y y' d d' Hy Hd. apply IH; assumption.
  - (* Group *)
    eapply Forall2_map_rel; [apply IH; eassumption|].
    intros [x1 c1] [x2 c2] [H1 H2]. cbn [fst snd] in *.
    split; cbn [fst snd]; [exact H1|].
    constructor; [|exact H2]. cbn [fst snd]. split; [reflexivity|].
    rewrite (st_rel_length _ _ Hx), (st_rel_length _ _ H1).
    apply Forall2_firstn_rel. exact (proj2 Hx).
  - (* Backref *)
    pose proof (cap_get_rel n c c' Hc) as Hg.
    destruct (cap_get n c) as [t|], (cap_get n c') as [t'|]; try contradiction; [|constructor].
    pose proof (eat_rel t t' Hg x x' Hx) as He.
    destruct (eat lower t x) as [y|], (eat lower t' x') as [y'|]; try contradiction;
      [|constructor].
    apply single_rel; assumption.
  - (* Ahead *)
    pose proof (IH Hcl x x' c c' Hx Hc) as H.
    destruct H as [|r1 r2 l1 l2 _ _]; destruct neg;
      first [apply single_rel; assumption | constructor].
  - (* Behind *)
    rewrite <- (mem_opt_rel s _ _ Hcl (proj1 Hx)).
    destruct (Bool.eqb _ _); [apply single_rel; assumption | constructor].
  - (* Bound *)
    rewrite <- (mem_opt_rel w _ _ Hcl (proj1 Hx)).
    assert (Hb : match rest x with ch :: _ => cmem ch w | [] => false end
                 = match rest x' with ch :: _ => cmem ch w | [] => false end).
    { destruct (proj2 Hx) as [|ch ch' tl tl' Hch _]; [reflexivity | apply Hcl; exact Hch]. }
    rewrite <- Hb.
    destruct (xorb _ _); [apply single_rel; assumption | constructor].
  - (* AtEnd *)
    rewrite <- (at_end_rel _ _ Hcl (proj2 Hx)).
    destruct (at_end (rest x)); [apply single_rel; assumption | constructor].
Qed.

(* re.match at related positions: same outcome, same number of characters consumed *)
Corollary rmatch_rel r x x' :
  re_closed r -> st_rel x x' -> rmatch lower r x = rmatch lower r x'.
Proof.
  intros Hcl Hx. unfold rmatch.
  assert (Hc : caps_rel [] []) by constructor.
  pose proof (ends_rel r Hcl x x' [] [] Hx Hc) as H.
  destruct H as [|[x1 c1] [x2 c2] l l' [H1 _] _]; [reflexivity|].
  cbn [fst] in H1.
  rewrite (st_rel_length _ _ Hx), (st_rel_length _ _ H1). reflexivity.
Qed.

(* a boolean route to [re_closed]: check every character set with a sound test [P] *)
Lemma re_closed_of_forall_b (P : cset -> bool) :
  (forall s, P s = true -> closed s) -> closed_nl ->
  forall r, re_forall_b P r = true -> re_closed r.
Proof.
  intros HP Hnl.
  induction r as [| s | a IHa b IHb | a IHa b IHb | g lo hi r IH | n r IH | n | neg r IH
                 | neg s | w | ]; cbn [re_forall_b re_closed]; intros H; auto.
  - apply andb_true_iff in H. destruct H as [Ha Hb]. split; auto.
  - apply andb_true_iff in H. destruct H as [Ha Hb]. split; auto.
Qed.

End Rel.

Print Assumptions ends_rel.
Print Assumptions rmatch_rel.
