(* (C16) Decidable unambiguity criterion for the unbounded repeats of a regular expression, the
   polynomial bounds on the number of backtracking paths, and an instrumented cost model of the
   backtracking matcher.  Definitions only (executable); the proofs are in AmbigFacts.v. *)
From SqlModel Require Import Base Re Lexer.

(* ---- disjointness of two character sets --------------------------------------------------- *)

Fixpoint pivots (s : cset) : list N :=
  match s with
  | CLeaf _ => []
  | CNode p l r => p :: pivots l ++ pivots r
  end.

(* both sets are constant between consecutive pivots: test 0 and every pivot *)
Definition cdisjoint (a b : cset) : bool :=
  forallb (fun c => negb (cmem c a && cmem c b)) (0%N :: pivots a ++ pivots b).

(* ---- words and codes ---------------------------------------------------------------------- *)

Definition word := list cset.

(* a fixed-length sequence of atoms (capturing groups stripped) *)
Fixpoint word_of (r : re) : option word :=
  match r with
  | Atom s => Some [s]
  | Seq a b =>
      match word_of a, word_of b with
      | Some u, Some v => Some (u ++ v)
      | _, _ => None
      end
  | Group _ r' => word_of r'
  | _ => None
  end.

(* an ordered alternation of words (capturing groups stripped) *)
Fixpoint alts_of (r : re) : option (list word) :=
  match r with
  | Alt a b =>
      match alts_of a, alts_of b with
      | Some u, Some v => Some (u ++ v)
      | _, _ => None
      end
  | Group _ r' => alts_of r'
  | Atom s => Some [[s]]
  | Seq a b =>
      match word_of a, word_of b with
      | Some u, Some v => Some [u ++ v]
      | _, _ => None
      end
  | _ => None
  end.

(* aligned at the left, the two words differ at a common position in disjoint sets *)
Fixpoint sep_pre (u v : word) : bool :=
  match u, v with
  | s :: u', t :: v' => cdisjoint s t || sep_pre u' v'
  | _, _ => false
  end.

(* the same, aligned at the right *)
Definition sep_suf (u v : word) : bool := sep_pre (rev u) (rev v).

Fixpoint pairwise (f : word -> word -> bool) (l : list word) : bool :=
  match l with
  | [] => true
  | w :: l' => forallb (f w) l' && pairwise f l'
  end.

Definition nonempty (w : word) : bool := match w with [] => false | _ :: _ => true end.

Definition code_ok (ws : list word) : bool :=
  forallb nonempty ws && (pairwise sep_pre ws || pairwise sep_suf ws).

Definition body_ok (r : re) : bool :=
  match alts_of r with
  | Some ws => code_ok ws
  | None => false
  end.

(* ---- the criterion ------------------------------------------------------------------------ *)

Fixpoint ok (r : re) : bool :=
  match r with
  | Seq a b | Alt a b => ok a && ok b
  | Rep _ _ None r' => ok r' && body_ok r'
  | Rep _ _ (Some _) r' => ok r'
  | Group _ r' | Ahead _ r' => ok r'
  | _ => true
  end.

(* ---- number of backtracking paths --------------------------------------------------------- *)

(* 1 + b + b^2 + ... + b^h *)
Fixpoint geo (b h : nat) : nat :=
  match h with
  | O => 1
  | S h' => 1 + b * geo b h'
  end.

(* bound on [length (ends r x c)] when [length (rest x) <= n] *)
Fixpoint pbound (r : re) (n : nat) : nat :=
  match r with
  | Seq a b => pbound a n * pbound b n
  | Alt a b => pbound a n + pbound b n
  | Rep _ _ None _ => S n
  | Rep _ _ (Some h) r' => geo (pbound r' n) h
  | Group _ r' => pbound r' n
  | _ => 1
  end.

Fixpoint deg (r : re) : nat :=
  match r with
  | Seq a b => deg a + deg b
  | Alt a b => Nat.max (deg a) (deg b)
  | Rep _ _ None _ => 1
  | Rep _ _ (Some h) r' => h * deg r'
  | Group _ r' => deg r'
  | _ => 0
  end.

Fixpoint coef (r : re) : nat :=
  match r with
  | Seq a b => coef a * coef b
  | Alt a b => coef a + coef b
  | Rep _ _ None _ => 1
  | Rep _ _ (Some h) r' => geo (coef r') h
  | Group _ r' => coef r'
  | _ => 1
  end.

(* ---- instrumented cost: one unit per evaluation of [ends] / [iter] / [eat] ------------------ *)

Fixpoint lsum (l : list nat) : nat :=
  match l with
  | [] => 0
  | a :: l' => a + lsum l'
  end.

Section Work.
Variable lower : N -> N.

Fixpoint eat_work (t : text) (x : st) : nat :=
  match t with
  | [] => 1
  | c :: t' =>
      match rest x with
      | d :: r => if N.eqb (lower c) (lower d) then S (eat_work t' (mkSt (Some d) r)) else 1
      | [] => 1
      end
  end.

(* mirrors [iter]: one unit for this call, the cost of evaluating the body here, and the cost of
   every recursive call (one per result of the body) *)
Fixpoint witer (body : st -> caps -> list result) (wbody : st -> caps -> nat)
         (hi : option nat) (fuel count : nat) (x : st) (c : caps) : nat :=
  S (match fuel with
     | O => 0
     | S f =>
         if (match hi with Some h => Nat.ltb count h | None => true end)
         then wbody x c +
              lsum (map (fun xc => witer body wbody hi f (S count) (fst xc) (snd xc))
                            (body x c))
         else 0
     end).

(* mirrors [ends]: the work done to compute the WHOLE list [ends r x c], i.e. the work of a
   backtracking matcher whose continuation always fails *)
Fixpoint work (r : re) (x : st) (c : caps) : nat :=
  match r with
  | Seq a b =>
      S (work a x c + lsum (map (fun xc => work b (fst xc) (snd xc)) (ends lower a x c)))
  | Alt a b => S (work a x c + work b x c)
  | Rep g lo hi r' => witer (ends lower r') (work r') hi (rep_fuel hi x) 0 x c
  | Group _ r' => S (work r' x c)
  | Ahead _ r' => S (work r' x c)
  | Backref n =>
      match cap_get n c with
      | Some t => S (eat_work t x)
      | None => 1
      end
  | _ => 1
  end.

End Work.

(* work of a bounded repeat: w = cost of one body evaluation, b = number of body results *)
Fixpoint wgeo (w b h : nat) : nat :=
  match h with
  | O => 1
  | S h' => S (w + b * wgeo w b h')
  end.

Fixpoint wgdeg (wd d h : nat) : nat :=
  match h with
  | O => 0
  | S h' => Nat.max wd (d + wgdeg wd d h')
  end.

(* bound on [work r x c] when [length (rest x) <= n] *)
Fixpoint wbound (r : re) (n : nat) : nat :=
  match r with
  | Seq a b => S (wbound a n + pbound a n * wbound b n)
  | Alt a b => S (wbound a n + wbound b n)
  | Rep _ _ None r' => S n * S (wbound r' n)
  | Rep _ _ (Some h) r' => wgeo (wbound r' n) (pbound r' n) h
  | Group _ r' | Ahead _ r' => S (wbound r' n)
  | Backref _ => S (S n)
  | _ => 1
  end.

Fixpoint wdeg (r : re) : nat :=
  match r with
  | Seq a b => Nat.max (wdeg a) (deg a + wdeg b)
  | Alt a b => Nat.max (wdeg a) (wdeg b)
  | Rep _ _ None r' => S (wdeg r')
  | Rep _ _ (Some h) r' => wgdeg (wdeg r') (deg r') h
  | Group _ r' | Ahead _ r' => wdeg r'
  | Backref _ => 1
  | _ => 0
  end.

Fixpoint wcoef (r : re) : nat :=
  match r with
  | Seq a b => S (wcoef a + coef a * wcoef b)
  | Alt a b => S (wcoef a + wcoef b)
  | Rep _ _ None r' => S (wcoef r')
  | Rep _ _ (Some h) r' => wgeo (wcoef r') (coef r') h
  | Group _ r' | Ahead _ r' => S (wcoef r')
  | Backref _ => 2
  | _ => 1
  end.

(* ---- cost of the scan loop ------------------------------------------------------------------ *)

Section LexWork.
Variable lower : N -> N.
Variable rules : list rule.

(* mirrors [first_match]: every rule tried costs the work of its whole result list (worst case
   of the backtracking matcher) *)
Fixpoint fm_work (rs : list rule) (x : st) : nat :=
  match rs with
  | [] => 1
  | (r, a) :: rs' =>
      S (work lower r x [] +
         match rmatch lower r x with
         | Some _ => 0
         | None => fm_work rs' x
         end)
  end.

(* mirrors [lex_go] *)
Fixpoint lex_work (p : option N) (skip : nat) (t : text) : nat :=
  match t with
  | [] => 1
  | ch :: tl =>
      match skip with
      | S k => S (lex_work (Some ch) k tl)
      | O =>
          S (fm_work rules (mkSt p t) +
             match first_match lower rules (mkSt p t) with
             | Some (a, n) =>
                 match n with
                 | O => 0
                 | S n' => lex_work (Some ch) n' tl
                 end
             | None => lex_work (Some ch) 0 tl
             end)
      end
  end.

(* worst case of one [first_match] on a text of length n: all rules tried *)
Fixpoint fm_bound (rs : list rule) (n : nat) : nat :=
  match rs with
  | [] => 1
  | (r, a) :: rs' => S (wbound r n + fm_bound rs' n)
  end.

End LexWork.

Definition max_over (f : re -> nat) (rs : list rule) : nat :=
  fold_right (fun ra m => Nat.max (f (fst ra)) m) 0 rs.

Fixpoint fm_coef (rs : list rule) : nat :=
  match rs with
  | [] => 1
  | (r, _) :: rs' => S (wcoef r + fm_coef rs')
  end.

(* ---- all unbounded repeats occurring in an expression --------------------------------------- *)

Fixpoint subreps (r : re) : list re :=
  match r with
  | Seq a b | Alt a b => subreps a ++ subreps b
  | Rep g lo None r' => Rep g lo None r' :: subreps r'
  | Rep _ _ (Some _) r' => subreps r'
  | Group _ r' | Ahead _ r' => subreps r'
  | _ => []
  end.

(* which kind of code the body of an unbounded repeat is (for reporting) *)
Definition body_kind (r : re) : nat :=
  match r with
  | Rep _ _ None b =>
      match alts_of b with
      | Some [_] => 0                                      (* a single word *)
      | Some ws => if pairwise sep_pre ws then 1           (* prefix-free *)
                   else if pairwise sep_suf ws then 2      (* suffix-free only *)
                   else 3
      | None => 3
      end
  | _ => 3
  end.

(* ---- duplicate end positions (for the refutation examples) ---------------------------------- *)

Fixpoint memb (n : nat) (l : list nat) : bool :=
  match l with
  | [] => false
  | m :: l' => Nat.eqb n m || memb n l'
  end.

Fixpoint has_dup (l : list nat) : bool :=
  match l with
  | [] => false
  | n :: l' => memb n l' || has_dup l'
  end.
