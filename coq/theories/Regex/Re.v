(* Regular expressions as CPython's re._parser produces them for the patterns sqlparse uses, and
   their backtracking semantics as an ordered list of results (first element = what re.match
   returns).  No proofs in this file. *)
From SqlModel Require Import Base.

Inductive re :=
| Eps
| Atom (s : cset)                                   (* LITERAL / NOT_LITERAL / IN / ANY, flags applied *)
| Seq (a b : re)
| Alt (a b : re)                                    (* ordered alternation *)
| Rep (greedy : bool) (lo : nat) (hi : option nat) (r : re)
| Group (n : nat) (r : re)                          (* capturing group n *)
| Backref (n : nat)                                 (* \n under IGNORECASE *)
| Ahead (neg : bool) (r : re)                       (* (?=r) / (?!r) *)
| Behind (neg : bool) (s : cset)                    (* width-1 look-behind on a character set *)
| Bound (w : cset)                                  (* \b, w = the \w set *)
| AtEnd.                                            (* $ without MULTILINE *)

(* matcher state: the character before the position (look-behind, \b) and the remaining text *)
Record st := mkSt { prev : option N; rest : text }.
Definition caps := list (nat * text).

Fixpoint cap_get (n : nat) (c : caps) : option text :=
  match c with
  | [] => None
  | (m, t) :: c' => if Nat.eqb n m then Some t else cap_get n c'
  end.

Definition mem_opt (o : option N) (s : cset) : bool :=
  match o with Some c => cmem c s | None => false end.

(* consume the characters of [t] (compared through [lower]) from the state *)
Fixpoint eat (lower : N -> N) (t : text) (x : st) : option st :=
  match t with
  | [] => Some x
  | c :: t' =>
      match rest x with
      | d :: r => if N.eqb (lower c) (lower d) then eat lower t' (mkSt (Some d) r) else None
      | [] => None
      end
  end.

(* `$` without MULTILINE: at the end, or before a final line feed *)
Definition at_end (t : text) : bool :=
  match t with
  | [] => true
  | [ch] => N.eqb ch 10
  | _ => false
  end.

Section Sem.
Variable lower : N -> N.      (* _sre.unicode_tolower, generated *)

Definition result := (st * caps)%type.

(* one repeat: [body] is the semantics of the repeated expression *)
Fixpoint iter (body : st -> caps -> list result) (greedy : bool) (lo : nat) (hi : option nat)
         (fuel count : nat) (x : st) (c : caps) : list result :=
  let stop := if Nat.leb lo count then [(x, c)] else [] in
  let more :=
    match fuel with
    | O => []
    | S f =>
        if (match hi with Some h => Nat.ltb count h | None => true end)
        then flat_map (fun xc => iter body greedy lo hi f (S count) (fst xc) (snd xc)) (body x c)
        else []
    end in
  if greedy then more ++ stop else stop ++ more.

Definition rep_fuel (hi : option nat) (x : st) : nat :=
  match hi with Some h => h | None => S (length (rest x)) end.

Fixpoint ends (r : re) (x : st) (c : caps) : list result :=
  match r with
  | Eps => [(x, c)]
  | Atom s =>
      match rest x with
      | ch :: tl => if cmem ch s then [(mkSt (Some ch) tl, c)] else []
      | [] => []
      end
  | Seq a b => flat_map (fun xc => ends b (fst xc) (snd xc)) (ends a x c)
  | Alt a b => ends a x c ++ ends b x c
  | Rep g lo hi r' => iter (ends r') g lo hi (rep_fuel hi x) 0 x c
  | Group n r' =>
      map (fun xc => (fst xc,
                      (n, firstn (length (rest x) - length (rest (fst xc))) (rest x)) :: snd xc))
          (ends r' x c)
  | Backref n =>
      match cap_get n c with
      | Some t => match eat lower t x with Some x' => [(x', c)] | None => [] end
      | None => []
      end
  | Ahead neg r' =>
      match ends r' x c with
      | [] => if neg then [(x, c)] else []
      | _ :: _ => if neg then [] else [(x, c)]
      end
  | Behind neg s =>
      if Bool.eqb (mem_opt (prev x) s) (negb neg) then [(x, c)] else []
  | Bound w =>
      let a := mem_opt (prev x) w in
      let b := match rest x with ch :: _ => cmem ch w | [] => false end in
      if xorb a b then [(x, c)] else []
  | AtEnd => if at_end (rest x) then [(x, c)] else []
  end.

(* re.match(text, pos): first result; the observable is the number of characters consumed *)
Definition rmatch (r : re) (x : st) : option nat :=
  match ends r x [] with
  | [] => None
  | (x', _) :: _ => Some (length (rest x) - length (rest x'))
  end.

End Sem.

(* minimum width of any match *)
Fixpoint minw (r : re) : nat :=
  match r with
  | Atom _ => 1
  | Seq a b => minw a + minw b
  | Alt a b => Nat.min (minw a) (minw b)
  | Rep _ lo _ r' => lo * minw r'
  | Group _ r' => minw r'
  | _ => 0
  end.

(* well-formedness the translator must establish: every repeat that may iterate more than once
   has a body of minimum width >= 1 (CPython's zero-width-iteration guard is then never needed) *)
Fixpoint rep_ok (r : re) : bool :=
  match r with
  | Seq a b | Alt a b => rep_ok a && rep_ok b
  | Rep _ _ hi r' =>
      rep_ok r' && (match hi with Some 1 => true | Some 0 => true | _ => Nat.leb 1 (minw r') end)
  | Group _ r' | Ahead _ r' => rep_ok r'
  | _ => true
  end.
