(* (MW) min-width soundness: every result of [ends r] is the start state advanced by at least
   [minw r] characters, the consumed characters becoming the look-behind context. *)
From SqlModel Require Import Base Re.

Definition push_prev (p : option N) (w : text) : option N :=
  fold_left (fun _ c => Some c) w p.

Definition adv (n : nat) (x x' : st) : Prop :=
  exists w, rest x = w ++ rest x' /\ n <= length w /\ prev x' = push_prev (prev x) w.

Lemma adv_refl x : adv 0 x x.
Proof. exists []; simpl; auto. Qed.

Lemma adv_trans n m x y z : adv n x y -> adv m y z -> adv (n + m) x z.
Proof.
  intros (w1 & E1 & L1 & P1) (w2 & E2 & L2 & P2).
  exists (w1 ++ w2). rewrite <- app_assoc, <- E2, <- E1. split; [reflexivity|].
  split; [rewrite app_length; lia|].
  unfold push_prev in *. rewrite fold_left_app, <- P1. exact P2.
Qed.

Lemma adv_weaken n m x y : adv n x y -> m <= n -> adv m x y.
Proof. intros (w & E & L & P) H. exists w; repeat split; auto; lia. Qed.

Lemma adv_length n x y : adv n x y -> length (rest y) + n <= length (rest x).
Proof. intros (w & E & L & _). rewrite E, app_length. lia. Qed.

Lemma adv_firstn n x y :
  adv n x y ->
  firstn (length (rest x) - length (rest y)) (rest x) ++ rest y = rest x
  /\ n <= length (rest x) - length (rest y).
Proof.
  intros (w & E & L & _). rewrite E, app_length.
  replace (length w + length (rest y) - length (rest y)) with (length w) by lia.
  rewrite firstn_app, firstn_all, Nat.sub_diag. simpl. rewrite app_nil_r. auto.
Qed.

Section MW.
Variable lower : N -> N.

Lemma eat_adv t : forall x x', eat lower t x = Some x' -> adv 0 x x'.
Proof.
  induction t as [|c t IH]; simpl; intros x x' H.
  - injection H as <-. apply adv_refl.
  - destruct (rest x) as [|d r] eqn:E; [discriminate|].
    destruct (N.eqb (lower c) (lower d)); [|discriminate].
    apply IH in H. change 0 with (0 + 0).
    eapply adv_trans; [|exact H].
    exists [d]; simpl. rewrite E. auto.
Qed.

Lemma iter_adv (body : st -> caps -> list (st * caps)) k :
  (forall x c x' c', In (x', c') (body x c) -> adv k x x') ->
  forall g lo hi fuel count x c x' c',
    In (x', c') (iter body g lo hi fuel count x c) -> adv ((lo - count) * k) x x'.
Proof.
  intros Hb g lo hi fuel.
  induction fuel as [|f IH]; intros count x c x' c' H.
  - cbn [iter] in H.
    assert (Hs : In (x', c') (if Nat.leb lo count then [(x, c)] else [])).
    { destruct g; [rewrite app_nil_l in H | rewrite app_nil_r in H]; exact H. }
    destruct (Nat.leb_spec lo count) as [Hle|Hlt]; [|contradiction].
    destruct Hs as [Hs|[]]. injection Hs as <- <-.
    replace (lo - count) with 0 by lia. apply adv_refl.
  - cbn [iter] in H.
    assert (Hor : In (x', c') (if Nat.leb lo count then [(x, c)] else []) \/
                  In (x', c')
                     (if match hi with Some h => Nat.ltb count h | None => true end
                      then flat_map (fun xc => iter body g lo hi f (S count) (fst xc) (snd xc))
                                    (body x c)
                      else [])).
    { destruct g; apply in_app_or in H; tauto. }
    destruct Hor as [Hs|Hm].
    + destruct (Nat.leb_spec lo count) as [Hle|Hlt]; [|contradiction].
      destruct Hs as [Hs|[]]. injection Hs as <- <-.
      replace (lo - count) with 0 by lia. apply adv_refl.
    + destruct (match hi with Some h => Nat.ltb count h | None => true end); [|contradiction].
      apply in_flat_map in Hm. destruct Hm as ([x1 c1] & Hin & Hrec). simpl in Hrec.
      apply Hb in Hin. apply IH in Hrec.
      eapply adv_weaken; [eapply adv_trans; eassumption|].
      destruct (Nat.le_gt_cases lo count) as [Hle|Hgt].
      * replace (lo - count) with 0 by lia. lia.
      * replace (lo - count) with (S (lo - S count)) by lia. lia.
Qed.

Theorem ends_adv r : forall x c x' c',
  In (x', c') (ends lower r x c) -> adv (minw r) x x'.
Proof.
  induction r as [| s | a IHa b IHb | a IHa b IHb | g lo hi r IH | n r IH | n | neg r IH
                 | neg s | w | ]; intros x c x' c' H; cbn [ends minw] in *.
  - destruct H as [H|[]]. injection H as <- <-. apply adv_refl.
  - destruct (rest x) as [|ch tl] eqn:E; [contradiction|].
    destruct (cmem ch s); [|contradiction].
    destruct H as [H|[]]. injection H as <- <-.
    exists [ch]; simpl. rewrite E. auto.
  - apply in_flat_map in H. destruct H as ([x1 c1] & H1 & H2). simpl in H2.
    eapply adv_trans; eauto.
  - apply in_app_or in H. destruct H as [H|H].
    + eapply adv_weaken; [eapply IHa; eauto | apply Nat.le_min_l].
    + eapply adv_weaken; [eapply IHb; eauto | apply Nat.le_min_r].
  - eapply iter_adv in H; [|exact IH]. rewrite Nat.sub_0_r in H. exact H.
  - apply in_map_iff in H. destruct H as ([x1 c1] & E & H). simpl in E.
    injection E as <- <-. eapply IH; eauto.
  - destruct (cap_get n c) as [t|]; [|contradiction].
    destruct (eat lower t x) as [x1|] eqn:E; [|contradiction].
    destruct H as [H|[]]. injection H as <- <-. eapply eat_adv; eauto.
  - destruct (ends lower r x c), neg; try contradiction;
      destruct H as [H|[]]; injection H as <- <-; apply adv_refl.
  - destruct (Bool.eqb _ _); [|contradiction].
    destruct H as [H|[]]. injection H as <- <-. apply adv_refl.
  - destruct (xorb _ _); [|contradiction].
    destruct H as [H|[]]. injection H as <- <-. apply adv_refl.
  - destruct (at_end (rest x)); [|contradiction].
    destruct H as [H|[]]. injection H as <- <-. apply adv_refl.
Qed.

(* consequence used by the lexer: a successful match of a rule of minimum width >= 1 consumes
   between 1 and all of the remaining characters *)
Corollary rmatch_width r x k :
  rmatch lower r x = Some k -> minw r <= k /\ k <= length (rest x).
Proof.
  unfold rmatch. destruct (ends lower r x []) as [|[x' c'] l] eqn:E; [discriminate|].
  intros H; injection H as <-.
  assert (Hin : In (x', c') (ends lower r x [])) by (rewrite E; left; reflexivity).
  apply ends_adv in Hin. apply adv_length in Hin. lia.
Qed.

End MW.
