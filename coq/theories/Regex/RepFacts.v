(* Generic facts about the repeat operator: unfolding equations of [ends], irrelevance of the
   fuel and of the iteration counter, one-step equations of greedy / lazy stars, and lemmas about
   the FIRST element of the result list (what re.match returns) of `star ; continuation`. *)
From SqlModel Require Import Base Re MinWidth.

(* ---- list helpers ------------------------------------------------------------------------ *)
Lemma flat_map_ext_in {A B} (f g : A -> list B) (l : list A) :
  (forall a, In a l -> f a = g a) -> flat_map f l = flat_map g l.
Proof.
  induction l as [|a l IH]; intros H; [reflexivity|].
  cbn [flat_map]. rewrite (H a (or_introl eq_refl)). rewrite IH; [reflexivity|].
  intros a' Ha'. apply H. right. exact Ha'.
Qed.

Lemma flat_map_flat_map {A B C} (f : A -> list B) (g : B -> list C) (l : list A) :
  flat_map g (flat_map f l) = flat_map (fun a => flat_map g (f a)) l.
Proof.
  induction l as [|a l IH]; [reflexivity|].
  cbn [flat_map]. rewrite flat_map_app, IH. reflexivity.
Qed.

Lemma flat_map_single {A B} (f : A -> list B) (a : A) : flat_map f [a] = f a.
Proof. cbn [flat_map]. apply app_nil_r. Qed.

(* ---- the first result ---------------------------------------------------------------------- *)
(* [first_is l x']: the list of results is non-empty and its head ends in state [x'] *)
Definition first_is (l : list (st * caps)) (x' : st) : Prop :=
  exists c' l', l = (x', c') :: l'.

Lemma first_is_app_l l1 l2 x' : first_is l1 x' -> first_is (l1 ++ l2) x'.
Proof. intros (c' & l' & ->). exists c', (l' ++ l2). reflexivity. Qed.

Lemma first_is_app_r l1 l2 x' : l1 = [] -> first_is l2 x' -> first_is (l1 ++ l2) x'.
Proof. intros -> H. exact H. Qed.

Lemma first_is_cons x' c' l : first_is ((x', c') :: l) x'.
Proof. exists c', l. reflexivity. Qed.

Lemma first_is_inj l x1 x2 : first_is l x1 -> first_is l x2 -> x1 = x2.
Proof. intros (c1 & l1 & ->) (c2 & l2 & E). injection E as -> _ _. reflexivity. Qed.

Lemma first_is_map (f : st * caps -> st * caps) l x' :
  (forall xc, fst (f xc) = fst xc) -> first_is l x' -> first_is (map f l) x'.
Proof.
  intros Hf (c' & l' & ->). cbn [map].
  specialize (Hf (x', c')). destruct (f (x', c')) as [y d]. cbn [fst] in Hf. subst y.
  apply first_is_cons.
Qed.

Section RepFacts.
Variable lower : N -> N.

Notation ends := (ends lower).
Notation rmatch := (rmatch lower).

(* ---- unfolding equations of [ends] (all by computation) --------------------------------- *)
Lemma ends_eps x c : ends Eps x c = [(x, c)].
Proof. reflexivity. Qed.

Lemma ends_atom s p ch t c :
  ends (Atom s) (mkSt p (ch :: t)) c = if cmem ch s then [(mkSt (Some ch) t, c)] else [].
Proof. reflexivity. Qed.

Lemma ends_atom_nil s p c : ends (Atom s) (mkSt p []) c = [].
Proof. reflexivity. Qed.

Lemma ends_seq a b x c :
  ends (Seq a b) x c = flat_map (fun xc => ends b (fst xc) (snd xc)) (ends a x c).
Proof. reflexivity. Qed.

Lemma ends_alt a b x c : ends (Alt a b) x c = ends a x c ++ ends b x c.
Proof. reflexivity. Qed.

Lemma ends_rep g lo hi r x c :
  ends (Rep g lo hi r) x c = iter (ends r) g lo hi (rep_fuel hi x) 0 x c.
Proof. reflexivity. Qed.

Lemma ends_group n r x c :
  ends (Group n r) x c =
  map (fun xc => (fst xc, (n, firstn (length (rest x) - length (rest (fst xc))) (rest x)) :: snd xc))
      (ends r x c).
Proof. reflexivity. Qed.

Lemma ends_atend x c : ends AtEnd x c = if at_end (rest x) then [(x, c)] else [].
Proof. reflexivity. Qed.

Lemma ends_behind neg s x c :
  ends (Behind neg s) x c = if Bool.eqb (mem_opt (prev x) s) (negb neg) then [(x, c)] else [].
Proof. reflexivity. Qed.

(* sequences starting with an atom *)
Lemma ends_seq_atom_hit s r p ch t c :
  cmem ch s = true -> ends (Seq (Atom s) r) (mkSt p (ch :: t)) c = ends r (mkSt (Some ch) t) c.
Proof.
  intros H. rewrite ends_seq, ends_atom, H, flat_map_single. reflexivity.
Qed.

Lemma ends_seq_atom_miss s r p ch t c :
  cmem ch s = false -> ends (Seq (Atom s) r) (mkSt p (ch :: t)) c = [].
Proof. intros H. rewrite ends_seq, ends_atom, H. reflexivity. Qed.

Lemma ends_seq_atom_nil s r p c : ends (Seq (Atom s) r) (mkSt p []) c = [].
Proof. reflexivity. Qed.

(* two literal characters *)
Lemma ends_atom2 s1 s2 p t c :
  ends (Seq (Atom s1) (Atom s2)) (mkSt p t) c =
  match t with
  | c1 :: c2 :: t' => if cmem c1 s1 && cmem c2 s2 then [(mkSt (Some c2) t', c)] else []
  | _ => []
  end.
Proof.
  destruct t as [|c1 [|c2 t']]; [reflexivity| |].
  - rewrite ends_seq, ends_atom. destruct (cmem c1 s1); reflexivity.
  - destruct (cmem c1 s1) eqn:E1.
    + rewrite ends_seq_atom_hit by exact E1. rewrite ends_atom. cbn [andb]. reflexivity.
    + rewrite ends_seq_atom_miss by exact E1. reflexivity.
Qed.

(* ---- first results through the constructors ---------------------------------------------- *)
Lemma first_is_group n r x c x' : first_is (ends r x c) x' -> first_is (ends (Group n r) x c) x'.
Proof. intros H. rewrite ends_group. apply first_is_map; [|exact H]. intros xc. reflexivity. Qed.

Lemma group_nil n r x c : ends r x c = [] -> ends (Group n r) x c = [].
Proof. intros H. rewrite ends_group, H. reflexivity. Qed.

Lemma first_is_seq a b x c x1 x' :
  first_is (ends a x c) x1 -> (forall c1, first_is (ends b x1 c1) x') ->
  first_is (ends (Seq a b) x c) x'.
Proof.
  intros (c1 & l & E) Hb. rewrite ends_seq, E. cbn [flat_map fst snd].
  apply first_is_app_l. apply Hb.
Qed.

Lemma seq_nil_l a b x c : ends a x c = [] -> ends (Seq a b) x c = [].
Proof. intros H. rewrite ends_seq, H. reflexivity. Qed.

Lemma first_is_alt_l a b x c x' : first_is (ends a x c) x' -> first_is (ends (Alt a b) x c) x'.
Proof. intros H. rewrite ends_alt. apply first_is_app_l. exact H. Qed.

Lemma first_is_alt_r a b x c x' :
  ends a x c = [] -> first_is (ends b x c) x' -> first_is (ends (Alt a b) x c) x'.
Proof. intros E H. rewrite ends_alt. apply first_is_app_r; assumption. Qed.

Lemma rmatch_first_is r x x' :
  first_is (ends r x []) x' -> rmatch r x = Some (length (rest x) - length (rest x')).
Proof. intros (c' & l & E). unfold Re.rmatch. rewrite E. reflexivity. Qed.

Lemma rmatch_nil r x : ends r x [] = [] -> rmatch r x = None.
Proof. intros E. unfold Re.rmatch. rewrite E. reflexivity. Qed.

(* ---- fuel and counter irrelevance --------------------------------------------------------- *)
(* every result of the body consumes at least one character *)
Definition progresses (body : st -> caps -> list (st * caps)) : Prop :=
  forall x c x' c', In (x', c') (body x c) -> adv 1 x x'.

Lemma ends_progresses r : 1 <= minw r -> progresses (ends r).
Proof.
  intros Hw x c x' c' Hin. apply ends_adv in Hin. eapply adv_weaken; [exact Hin | exact Hw].
Qed.

(* FUEL IRRELEVANCE: with a progressing body any two fuels exceeding the number of remaining
   characters give the same list *)
Lemma iter_fuel_irrel body :
  progresses body ->
  forall g lo hi f1 f2 count x c,
    length (rest x) < f1 -> length (rest x) < f2 ->
    iter body g lo hi f1 count x c = iter body g lo hi f2 count x c.
Proof.
  intros Hb g lo hi f1.
  induction f1 as [|f1 IH]; intros f2 count x c H1 H2; [lia|].
  destruct f2 as [|f2]; [lia|].
  cbn [iter].
  assert (E : flat_map (fun xc => iter body g lo hi f1 (S count) (fst xc) (snd xc)) (body x c)
            = flat_map (fun xc => iter body g lo hi f2 (S count) (fst xc) (snd xc)) (body x c)).
  { apply flat_map_ext_in. intros [x1 c1] Hin. cbn [fst snd].
    apply Hb in Hin. apply adv_length in Hin. apply IH; lia. }
  rewrite E. reflexivity.
Qed.

(* in particular any fuel >= S (length (rest x)) gives the list [ends] computes *)
Theorem rep_fuel_irrel g lo r x c fuel :
  1 <= minw r -> S (length (rest x)) <= fuel ->
  iter (ends r) g lo None fuel 0 x c = ends (Rep g lo None r) x c.
Proof.
  intros Hw Hf. rewrite ends_rep. cbn [rep_fuel].
  apply iter_fuel_irrel; [apply ends_progresses; exact Hw | lia | lia].
Qed.

(* for a bounded repeat started at count 0 any fuel >= the bound gives the same list *)
Lemma iter_fuel_bounded body g lo h :
  forall f1 f2 count x c,
    h <= count + f1 -> h <= count + f2 ->
    iter body g lo (Some h) f1 count x c = iter body g lo (Some h) f2 count x c.
Proof.
  induction f1 as [|f1 IH]; intros f2 count x c H1 H2.
  - destruct f2 as [|f2]; [reflexivity|]. cbn [iter].
    destruct (Nat.ltb_spec count h) as [Hlt|Hge]; [lia|]. reflexivity.
  - destruct f2 as [|f2].
    + cbn [iter]. destruct (Nat.ltb_spec count h) as [Hlt|Hge]; [lia|]. reflexivity.
    + cbn [iter].
      assert (E : flat_map (fun xc => iter body g lo (Some h) f1 (S count) (fst xc) (snd xc))
                           (body x c)
                = flat_map (fun xc => iter body g lo (Some h) f2 (S count) (fst xc) (snd xc))
                           (body x c)).
      { apply flat_map_ext_in. intros [x1 c1] _. cbn [fst snd]. apply IH; lia. }
      rewrite E. reflexivity.
Qed.

Theorem rep_fuel_irrel_bounded g lo h r x c fuel :
  h <= fuel -> iter (ends r) g lo (Some h) fuel 0 x c = ends (Rep g lo (Some h) r) x c.
Proof.
  intros Hf. rewrite ends_rep. cbn [rep_fuel]. apply iter_fuel_bounded; lia.
Qed.

(* without an upper bound the counter only matters through [lo <= count] *)
Lemma iter_count_irrel body g :
  forall fuel lo lo' count count' x c,
    lo <= count -> lo' <= count' ->
    iter body g lo None fuel count x c = iter body g lo' None fuel count' x c.
Proof.
  induction fuel as [|f IH]; intros lo lo' count count' x c H H'.
  - cbn [iter].
    destruct (Nat.leb_spec lo count) as [_|Hn]; [|lia].
    destruct (Nat.leb_spec lo' count') as [_|Hn]; [|lia]. reflexivity.
  - cbn [iter].
    destruct (Nat.leb_spec lo count) as [_|Hn]; [|lia].
    destruct (Nat.leb_spec lo' count') as [_|Hn]; [|lia].
    assert (E : flat_map (fun xc => iter body g lo None f (S count) (fst xc) (snd xc)) (body x c)
              = flat_map (fun xc => iter body g lo' None f (S count') (fst xc) (snd xc)) (body x c)).
    { apply flat_map_ext_in. intros [x1 c1] _. cbn [fst snd]. apply IH; lia. }
    rewrite E. reflexivity.
Qed.

(* ---- one-step equations ------------------------------------------------------------------- *)
Section Step.
Variable b : re.
Hypothesis Hw : 1 <= minw b.

(* the tail of one iteration is again the star *)
Lemma iter_tail_star g lo x c x1 c1 :
  In (x1, c1) (ends b x c) ->
  iter (ends b) g lo None (length (rest x)) (S lo) x1 c1 = ends (Rep g 0 None b) x1 c1.
Proof.
  intros Hin. rewrite ends_rep. cbn [rep_fuel].
  rewrite (iter_count_irrel (ends b) g (length (rest x)) lo 0 (S lo) 0) by lia.
  apply iter_fuel_irrel; [apply ends_progresses; exact Hw | | lia].
  apply ends_adv in Hin. apply adv_length in Hin. lia.
Qed.

Theorem ends_star_greedy x c :
  ends (Rep true 0 None b) x c =
  flat_map (fun xc => ends (Rep true 0 None b) (fst xc) (snd xc)) (ends b x c) ++ [(x, c)].
Proof.
  rewrite (ends_rep true 0 None b x c). cbn [rep_fuel iter Nat.leb].
  f_equal. apply flat_map_ext_in. intros [x1 c1] Hin. cbn [fst snd].
  apply (iter_tail_star true 0 x c x1 c1 Hin).
Qed.

Theorem ends_star_lazy x c :
  ends (Rep false 0 None b) x c =
  (x, c) :: flat_map (fun xc => ends (Rep false 0 None b) (fst xc) (snd xc)) (ends b x c).
Proof.
  rewrite (ends_rep false 0 None b x c). cbn [rep_fuel iter Nat.leb app].
  f_equal. apply flat_map_ext_in. intros [x1 c1] Hin. cbn [fst snd].
  apply (iter_tail_star false 0 x c x1 c1 Hin).
Qed.

(* `+` is one iteration followed by `*` *)
Theorem ends_plus g x c :
  ends (Rep g 1 None b) x c =
  flat_map (fun xc => ends (Rep g 0 None b) (fst xc) (snd xc)) (ends b x c).
Proof.
  rewrite (ends_rep g 1 None b x c). cbn [rep_fuel iter Nat.leb].
  assert (E : flat_map (fun xc => iter (ends b) g 1 None (length (rest x)) 1 (fst xc) (snd xc))
                       (ends b x c)
            = flat_map (fun xc => ends (Rep g 0 None b) (fst xc) (snd xc)) (ends b x c)).
  { apply flat_map_ext_in. intros [x1 c1] Hin. cbn [fst snd].
    rewrite (iter_count_irrel (ends b) g (length (rest x)) 1 0 1 1) by lia.
    apply (iter_tail_star g 0 x c x1 c1 Hin). }
  rewrite E. destruct g; [apply app_nil_r | reflexivity].
Qed.

(* star followed by a continuation *)
Theorem ends_seq_star_greedy k x c :
  ends (Seq (Rep true 0 None b) k) x c =
  flat_map (fun xc => ends (Seq (Rep true 0 None b) k) (fst xc) (snd xc)) (ends b x c)
  ++ ends k x c.
Proof.
  rewrite (ends_seq (Rep true 0 None b) k x c), ends_star_greedy, flat_map_app.
  rewrite flat_map_single. cbn [fst snd]. f_equal.
  rewrite flat_map_flat_map. reflexivity.
Qed.

Theorem ends_seq_star_lazy k x c :
  ends (Seq (Rep false 0 None b) k) x c =
  ends k x c
  ++ flat_map (fun xc => ends (Seq (Rep false 0 None b) k) (fst xc) (snd xc)) (ends b x c).
Proof.
  rewrite (ends_seq (Rep false 0 None b) k x c), ends_star_lazy.
  cbn [flat_map fst snd]. f_equal.
  rewrite flat_map_flat_map. reflexivity.
Qed.

(* greedy star of a body that is deterministic at [x]: iterate first, fall back to [k] at [x] *)
Corollary seq_star_greedy_det k x c x1 c1 :
  ends b x c = [(x1, c1)] ->
  ends (Seq (Rep true 0 None b) k) x c = ends (Seq (Rep true 0 None b) k) x1 c1 ++ ends k x c.
Proof.
  intros E. rewrite ends_seq_star_greedy, E, flat_map_single. reflexivity.
Qed.

Corollary seq_star_greedy_stop k x c :
  ends b x c = [] -> ends (Seq (Rep true 0 None b) k) x c = ends k x c.
Proof. intros E. rewrite ends_seq_star_greedy, E. reflexivity. Qed.

(* head of the list: the greedy star goes on while the body is deterministic ... *)
Corollary first_is_star_greedy_det k x c x1 c1 x' :
  ends b x c = [(x1, c1)] ->
  first_is (ends (Seq (Rep true 0 None b) k) x1 c1) x' ->
  first_is (ends (Seq (Rep true 0 None b) k) x c) x'.
Proof.
  intros E H. rewrite (seq_star_greedy_det k x c x1 c1 E). apply first_is_app_l. exact H.
Qed.

(* ... and the lazy star stops at the first position where [k] matches *)
Corollary first_is_star_lazy_stop k x c x' :
  first_is (ends k x c) x' -> first_is (ends (Seq (Rep false 0 None b) k) x c) x'.
Proof. intros H. rewrite ends_seq_star_lazy. apply first_is_app_l. exact H. Qed.

Corollary first_is_star_lazy_step k x c x1 c1 l x' :
  ends k x c = [] -> ends b x c = (x1, c1) :: l ->
  first_is (ends (Seq (Rep false 0 None b) k) x1 c1) x' ->
  first_is (ends (Seq (Rep false 0 None b) k) x c) x'.
Proof.
  intros Ek Eb H. rewrite ends_seq_star_lazy, Ek, Eb. cbn [app flat_map fst snd].
  apply first_is_app_l. exact H.
Qed.

Corollary seq_star_lazy_dead k x c :
  ends k x c = [] -> ends b x c = [] -> ends (Seq (Rep false 0 None b) k) x c = [].
Proof. intros Ek Eb. rewrite ends_seq_star_lazy, Ek, Eb. reflexivity. Qed.

End Step.

(* ---- optional part, runs of a character class, back-references ----------------------------- *)
Lemma flat_map_pair_id {A B} (l : list (A * B)) :
  flat_map (fun xc => [] ++ [(fst xc, snd xc)]) l = l.
Proof.
  induction l as [|[a b] l IH]; [reflexivity|].
  cbn [flat_map]. rewrite IH. reflexivity.
Qed.

(* greedy `r?` : try [r], then skip *)
Theorem ends_opt_greedy r x c : ends (Rep true 0 (Some 1) r) x c = ends r x c ++ [(x, c)].
Proof.
  rewrite ends_rep. cbn [rep_fuel iter Nat.leb Nat.ltb]. f_equal. apply flat_map_pair_id.
Qed.

(* greedy `[s]*` over a maximal run of [s]-characters: the first result is after the run,
   with unchanged captures *)
Lemma star_atom_run s : forall ws p R c,
  forallb (fun ch => cmem ch s) ws = true ->
  match R with d :: _ => cmem d s = false | [] => True end ->
  exists l, ends (Rep true 0 None (Atom s)) (mkSt p (ws ++ R)) c
            = (mkSt (push_prev p ws) R, c) :: l.
Proof.
  assert (Hw : 1 <= minw (Atom s)) by (cbn [minw]; lia).
  induction ws as [|ch ws IH]; intros p R c Hall HR.
  - cbn [app push_prev fold_left]. rewrite (ends_star_greedy (Atom s) Hw).
    destruct R as [|d R'].
    + rewrite ends_atom_nil. exists []. reflexivity.
    + rewrite ends_atom, HR. exists []. reflexivity.
  - cbn [forallb] in Hall. apply andb_true_iff in Hall. destruct Hall as [Hc Hall].
    cbn [app]. rewrite (ends_star_greedy (Atom s) Hw), ends_atom, Hc, flat_map_single.
    cbn [fst snd]. destruct (IH (Some ch) R c Hall HR) as (l & E). rewrite E.
    exists (l ++ [(mkSt p (ch :: ws ++ R), c)]). reflexivity.
Qed.

Lemma ends_backref n x c :
  ends (Backref n) x c =
  match cap_get n c with
  | Some t => match eat lower t x with Some x' => [(x', c)] | None => [] end
  | None => []
  end.
Proof. reflexivity. Qed.

End RepFacts.

Print Assumptions rep_fuel_irrel.
Print Assumptions ends_seq_star_greedy.
Print Assumptions ends_seq_star_lazy.
Print Assumptions ends_plus.
Print Assumptions ends_opt_greedy.
