(* (C16) Proofs about Ambig.v: soundness of the disjointness test, unambiguity of the unbounded
   repeats accepted by [ok], polynomial bounds on the number of backtracking paths and on the
   work of the backtracking matcher. *)
From SqlModel Require Import Base Re MinWidth Lexer Ambig.

(* ---- list helpers --------------------------------------------------------------------------- *)

Lemma NoDup_app_intro {A} (l1 l2 : list A) :
  NoDup l1 -> NoDup l2 -> (forall a, In a l1 -> In a l2 -> False) -> NoDup (l1 ++ l2).
Proof.
  induction l1 as [|a l1 IH]; intros H1 H2 Hd; cbn [app]; [exact H2|].
  inversion H1 as [|a' l' Hna Hnd]; subst.
  constructor.
  - intros Hin. apply in_app_or in Hin. destruct Hin as [Hin|Hin]; [contradiction|].
    apply (Hd a); [left; reflexivity|exact Hin].
  - apply IH; [exact Hnd|exact H2|].
    intros b Hb1 Hb2. apply (Hd b); [right; exact Hb1|exact Hb2].
Qed.

Lemma NoDup_le1 {A} (l : list A) : length l <= 1 -> NoDup l.
Proof.
  destruct l as [|a [|b l]]; cbn [length]; intros H.
  - constructor.
  - constructor; [intros []|constructor].
  - lia.
Qed.

Lemma NoDup_bounded_length (l : list nat) n :
  NoDup l -> (forall p, In p l -> p <= n) -> length l <= S n.
Proof.
  intros Hnd Hb.
  rewrite <- (seq_length (S n) 0).
  apply NoDup_incl_length; [exact Hnd|].
  intros p Hp. apply in_seq. apply Hb in Hp. lia.
Qed.

(* two splittings of the same list: one of the two prefixes extends the other *)
Lemma app_cmp {A} (a : list A) : forall a' b b',
  a ++ b = a' ++ b' ->
  (exists e, a' = a ++ e /\ b = e ++ b') \/ (exists e, a = a' ++ e /\ b' = e ++ b).
Proof.
  induction a as [|h a IH]; intros a' b b' E.
  - left. exists a'. split; [reflexivity|exact E].
  - destruct a' as [|h' a'].
    + right. exists (h :: a). split; [reflexivity|symmetry; exact E].
    + cbn [app] in E. injection E as -> E.
      destruct (IH _ _ _ E) as [(e & E1 & E2)|(e & E1 & E2)].
      * left. exists e. split; [cbn [app]; rewrite E1; reflexivity|exact E2].
      * right. exists e. split; [cbn [app]; rewrite E1; reflexivity|exact E2].
Qed.

Lemma app_eq_tail {A} (a a' b b' : list A) :
  a ++ b = a' ++ b' -> length b = length b' -> a = a' /\ b = b'.
Proof.
  intros E L.
  assert (La : length a = length a').
  { apply (f_equal (@length A)) in E. rewrite !app_length in E. lia. }
  revert a' E La. induction a as [|h a IH]; intros [|h' a'] E La; cbn [length] in La; try lia.
  - split; [reflexivity|exact E].
  - cbn [app] in E. injection E as -> E.
    destruct (IH a' E) as [-> ->]; [lia|]. split; reflexivity.
Qed.

Lemma lsum_map_le {A} (f : A -> nat) (l : list A) B :
  (forall a, In a l -> f a <= B) -> lsum (map f l) <= length l * B.
Proof.
  induction l as [|a l IH]; intros H; cbn [map lsum length]; [lia|].
  assert (Ha : f a <= B) by (apply H; left; reflexivity).
  assert (Hl : lsum (map f l) <= length l * B) by (apply IH; intros b Hb; apply H; right; exact Hb).
  lia.
Qed.

Lemma flat_map_length_le {A B} (f : A -> list B) (l : list A) K :
  (forall a, In a l -> length (f a) <= K) -> length (flat_map f l) <= length l * K.
Proof.
  induction l as [|a l IH]; intros H; cbn [flat_map length]; [lia|].
  rewrite app_length.
  assert (Ha : length (f a) <= K) by (apply H; left; reflexivity).
  assert (Hl : length (flat_map f l) <= length l * K)
    by (apply IH; intros b Hb; apply H; right; exact Hb).
  lia.
Qed.

Lemma lsum_flat_map_le {A B} (w : A -> nat) (f : A -> list B) (l : list A) K :
  (forall a, In a l -> w a <= length (f a) * K) ->
  lsum (map w l) <= length (flat_map f l) * K.
Proof.
  induction l as [|a l IH]; intros H; cbn [map lsum flat_map length]; [lia|].
  rewrite app_length.
  assert (Ha : w a <= length (f a) * K) by (apply H; left; reflexivity).
  assert (Hl : lsum (map w l) <= length (flat_map f l) * K)
    by (apply IH; intros b Hb; apply H; right; exact Hb).
  lia.
Qed.

(* ---- (1) disjointness of character sets ----------------------------------------------------- *)

Lemma cmem_const s : forall c d,
  (forall p, In p (pivots s) -> N.leb p c = N.leb p d) -> cmem c s = cmem d s.
Proof.
  induction s as [b | p l IHl r IHr]; intros c d H; cbn [cmem pivots] in *.
  - reflexivity.
  - assert (Hp : N.leb p c = N.leb p d) by (apply H; left; reflexivity).
    rewrite !N.ltb_antisym, Hp.
    destruct (negb (N.leb p d)).
    + apply IHl. intros q Hq. apply H. right. apply in_or_app. left. exact Hq.
    + apply IHr. intros q Hq. apply H. right. apply in_or_app. right. exact Hq.
Qed.

Lemma floor_exists (l : list N) (c : N) :
  exists d, In d (0%N :: l) /\ (d <= c)%N /\
            forall p, In p (0%N :: l) -> (p <= c)%N -> (p <= d)%N.
Proof.
  induction l as [|q l IH].
  - exists 0%N. split; [left; reflexivity|]. split; [lia|].
    intros p [<-|[]] _. lia.
  - destruct IH as (d & Hin & Hle & Hmax).
    destruct (N.leb q c) eqn:Eq.
    + apply N.leb_le in Eq. destruct (N.leb q d) eqn:Eqd.
      * apply N.leb_le in Eqd. exists d. split.
        { destruct Hin as [<-|Hin]; [left; reflexivity|right; right; exact Hin]. }
        split; [exact Hle|].
        intros p [<-|[<-|Hp]] Hpc; [lia|exact Eqd|apply Hmax; [right; exact Hp|exact Hpc]].
      * apply N.leb_gt in Eqd. exists q. split; [right; left; reflexivity|].
        split; [exact Eq|].
        intros p [<-|[<-|Hp]] Hpc; [lia|lia|].
        assert (p <= d)%N by (apply Hmax; [right; exact Hp|exact Hpc]). lia.
    + apply N.leb_gt in Eq. exists d. split.
      { destruct Hin as [<-|Hin]; [left; reflexivity|right; right; exact Hin]. }
      split; [exact Hle|].
      intros p [<-|[<-|Hp]] Hpc; [lia|lia|apply Hmax; [right; exact Hp|exact Hpc]].
Qed.

Theorem cdisjoint_sound a b c :
  cdisjoint a b = true -> cmem c a = true -> cmem c b = false.
Proof.
  unfold cdisjoint. intros H Ha.
  destruct (floor_exists (pivots a ++ pivots b) c) as (d & Hin & Hle & Hmax).
  assert (Hconst : forall p, In p (pivots a ++ pivots b) -> N.leb p c = N.leb p d).
  { intros p Hp. destruct (N.leb p c) eqn:E1.
    - apply N.leb_le in E1. symmetry. apply N.leb_le. apply Hmax; [right; exact Hp|exact E1].
    - apply N.leb_gt in E1. symmetry. apply N.leb_gt. lia. }
  assert (Ea : cmem c a = cmem d a).
  { apply cmem_const. intros p Hp. apply Hconst. apply in_or_app. left. exact Hp. }
  assert (Eb : cmem c b = cmem d b).
  { apply cmem_const. intros p Hp. apply Hconst. apply in_or_app. right. exact Hp. }
  rewrite forallb_forall in H. specialize (H d Hin).
  rewrite Eb. rewrite Ea in Ha. rewrite Ha in H. cbn [andb] in H.
  destruct (cmem d b); [discriminate|reflexivity].
Qed.

Corollary cdisjoint_sound_sym a b c :
  cdisjoint a b = true -> cmem c b = true -> cmem c a = false.
Proof.
  intros H Hb. destruct (cmem c a) eqn:Ea; [|reflexivity].
  rewrite (cdisjoint_sound a b c H Ea) in Hb. discriminate.
Qed.

(* ---- words ---------------------------------------------------------------------------------- *)

Definition wmatch (v : text) (w : word) : Prop := Forall2 (fun ch s => cmem ch s = true) v w.

Lemma wmatch_length v w : wmatch v w -> length v = length w.
Proof.
  unfold wmatch. induction 1 as [|ch s v w Hc Hr IH]; cbn [length]; [reflexivity|].
  rewrite IH. reflexivity.
Qed.

Lemma wmatch_rev v w : wmatch v w -> wmatch (rev v) (rev w).
Proof.
  unfold wmatch. induction 1 as [|ch s v w Hc Hr IH]; cbn [rev]; [constructor|].
  apply Forall2_app; [exact IH|]. constructor; [exact Hc|constructor].
Qed.

Lemma sep_pre_sound u : forall v t1 t2 e1 e2,
  sep_pre u v = true -> wmatch t1 u -> wmatch t2 v -> t1 ++ e1 = t2 ++ e2 -> False.
Proof.
  induction u as [|s u IH]; intros v t1 t2 e1 e2 Hs H1 H2 E.
  - discriminate.
  - destruct v as [|t v]; [discriminate|]. cbn [sep_pre] in Hs.
    inversion H1 as [|ch1 s' t1' u' Hc1 Hr1]; subst.
    inversion H2 as [|ch2 s'' t2' v' Hc2 Hr2]; subst.
    cbn [app] in E. injection E as -> E.
    apply orb_true_iff in Hs. destruct Hs as [Hs|Hs].
    + rewrite (cdisjoint_sound s t ch2 Hs Hc1) in Hc2. discriminate.
    + exact (IH v t1' t2' e1 e2 Hs Hr1 Hr2 E).
Qed.

Lemma sep_suf_sound u v t1 t2 e1 e2 :
  sep_suf u v = true -> wmatch t1 u -> wmatch t2 v -> e1 ++ t1 = e2 ++ t2 -> False.
Proof.
  unfold sep_suf. intros Hs H1 H2 E.
  apply (f_equal (@rev N)) in E. rewrite !rev_app_distr in E.
  exact (sep_pre_sound _ _ _ _ _ _ Hs (wmatch_rev _ _ H1) (wmatch_rev _ _ H2) E).
Qed.

(* Prop version of [pairwise] *)
Fixpoint pairwiseP (P : word -> word -> Prop) (l : list word) : Prop :=
  match l with
  | [] => True
  | w :: l' => Forall (P w) l' /\ pairwiseP P l'
  end.

Lemma pairwise_P (f : word -> word -> bool) (P : word -> word -> Prop) :
  (forall u v, f u v = true -> P u v) ->
  forall l, pairwise f l = true -> pairwiseP P l.
Proof.
  intros HfP. induction l as [|w l IH]; cbn [pairwise pairwiseP]; intros H; [exact I|].
  apply andb_true_iff in H. destruct H as [H1 H2]. split; [|exact (IH H2)].
  apply Forall_forall. intros v Hv. apply HfP. rewrite forallb_forall in H1. exact (H1 v Hv).
Qed.

Lemma pairwiseP_app P l1 : forall l2,
  pairwiseP P (l1 ++ l2) ->
  pairwiseP P l1 /\ pairwiseP P l2 /\ forall u v, In u l1 -> In v l2 -> P u v.
Proof.
  induction l1 as [|w l1 IH]; intros l2 H; cbn [app pairwiseP] in *.
  - split; [exact I|]. split; [exact H|]. intros u v [].
  - destruct H as [Hw H]. destruct (IH l2 H) as (H1 & H2 & H12).
    rewrite Forall_app in Hw. destruct Hw as [Hw1 Hw2].
    split; [split; assumption|]. split; [exact H2|].
    intros u v [<-|Hu] Hv.
    + rewrite Forall_forall in Hw2. exact (Hw2 v Hv).
    + exact (H12 u v Hu Hv).
Qed.

Lemma pairwiseP_in P l : forall a b,
  pairwiseP P l -> In a l -> In b l -> a = b \/ P a b \/ P b a.
Proof.
  induction l as [|w l IH]; intros a b H Ha Hb; [destruct Ha|].
  cbn [pairwiseP] in H. destruct H as [Hw H]. rewrite Forall_forall in Hw.
  destruct Ha as [<-|Ha]; destruct Hb as [<-|Hb].
  - left; reflexivity.
  - right; left. exact (Hw b Hb).
  - right; right. exact (Hw a Ha).
  - exact (IH a b H Ha Hb).
Qed.

(* the text [v] is matched by one of the alternatives *)
Definition Mw (ws : list word) (v : text) : Prop := exists w, In w ws /\ wmatch v w.

(* no text is matched by both words *)
Definition excl (u v : word) : Prop := forall t, wmatch t u -> wmatch t v -> False.

Lemma sep_pre_excl u v : sep_pre u v = true -> excl u v.
Proof.
  intros Hs t H1 H2. exact (sep_pre_sound u v t t [] [] Hs H1 H2 eq_refl).
Qed.

Lemma sep_suf_excl u v : sep_suf u v = true -> excl u v.
Proof.
  intros Hs t H1 H2. exact (sep_suf_sound u v t t [] [] Hs H1 H2 eq_refl).
Qed.

Lemma prefix_code ws :
  pairwise sep_pre ws = true -> forall v e, Mw ws v -> Mw ws (v ++ e) -> e = [].
Proof.
  intros Hp v e (w1 & Hin1 & Hm1) (w2 & Hin2 & Hm2).
  pose (P := fun u v : word => forall t1 t2 e1 e2,
                 wmatch t1 u -> wmatch t2 v -> t1 ++ e1 = t2 ++ e2 -> False).
  assert (HP : pairwiseP P ws).
  { apply (pairwise_P sep_pre); [|exact Hp].
    intros u0 v0 Hs t1 t2 e1 e2. exact (sep_pre_sound u0 v0 t1 t2 e1 e2 Hs). }
  destruct (pairwiseP_in P ws w1 w2 HP Hin1 Hin2) as [E|[H|H]].
  - subst w2. apply wmatch_length in Hm1. apply wmatch_length in Hm2.
    rewrite app_length in Hm2. destruct e as [|ch e]; [reflexivity|cbn [length] in Hm2; lia].
  - exfalso. apply (H v (v ++ e) e [] Hm1 Hm2). rewrite app_nil_r. reflexivity.
  - exfalso. apply (H (v ++ e) v [] e Hm2 Hm1). rewrite app_nil_r. reflexivity.
Qed.

Lemma suffix_code ws :
  pairwise sep_suf ws = true -> forall v e, Mw ws v -> Mw ws (e ++ v) -> e = [].
Proof.
  intros Hp v e (w1 & Hin1 & Hm1) (w2 & Hin2 & Hm2).
  pose (P := fun u v : word => forall t1 t2 e1 e2,
                 wmatch t1 u -> wmatch t2 v -> e1 ++ t1 = e2 ++ t2 -> False).
  assert (HP : pairwiseP P ws).
  { apply (pairwise_P sep_suf); [|exact Hp].
    intros u0 v0 Hs t1 t2 e1 e2. exact (sep_suf_sound u0 v0 t1 t2 e1 e2 Hs). }
  destruct (pairwiseP_in P ws w1 w2 HP Hin1 Hin2) as [E|[H|H]].
  - subst w2. apply wmatch_length in Hm1. apply wmatch_length in Hm2.
    rewrite app_length in Hm2. destruct e as [|ch e]; [reflexivity|cbn [length] in Hm2; lia].
  - exfalso. apply (H v (e ++ v) e [] Hm1 Hm2). reflexivity.
  - exfalso. apply (H (e ++ v) v [] e Hm2 Hm1). reflexivity.
Qed.

Lemma Mw_nonempty ws : forallb nonempty ws = true -> forall v, Mw ws v -> v <> [].
Proof.
  intros Hn v (w & Hin & Hm) ->. rewrite forallb_forall in Hn. specialize (Hn w Hin).
  inversion Hm; subst. discriminate.
Qed.

Definition pos (xc : st * caps) : nat := length (rest (fst xc)).

(* ---- generic repeat: a body whose results are code words ------------------------------------ *)

Section Star.
Variable body : st -> caps -> list (st * caps).
Variable M : text -> Prop.
Hypothesis body_spec : forall x c x' c',
  In (x', c') (body x c) -> exists v, M v /\ rest x = v ++ rest x'.
Hypothesis body_nodup : forall x c, NoDup (map pos (body x c)).
Hypothesis M_nonempty : forall v, M v -> v <> [].
Hypothesis M_code :
  (forall v e, M v -> M (v ++ e) -> e = []) \/ (forall v e, M v -> M (e ++ v) -> e = []).

(* concatenations of code words *)
Inductive dec : text -> Prop :=
| dec_nil : dec []
| dec_snoc u v : dec u -> M v -> dec (u ++ v).

Lemma dec_cons v u : M v -> dec u -> dec (v ++ u).
Proof.
  intros Hv Hu. induction Hu as [|u v' Hu IH Hv'].
  - rewrite app_nil_r. change v with ([] ++ v). apply dec_snoc; [apply dec_nil|exact Hv].
  - rewrite app_assoc. apply dec_snoc; [exact IH|exact Hv'].
Qed.

Lemma iter_dec g lo hi : forall fuel count x c x' c',
  In (x', c') (iter body g lo hi fuel count x c) -> exists u, dec u /\ rest x = u ++ rest x'.
Proof.
  induction fuel as [|f IH]; intros count x c x' c' H.
  - cbn [iter] in H.
    assert (Hs : In (x', c') (if Nat.leb lo count then [(x, c)] else [])).
    { destruct g; [rewrite app_nil_l in H | rewrite app_nil_r in H]; exact H. }
    destruct (Nat.leb lo count); [|contradiction].
    destruct Hs as [Hs|[]]. injection Hs as <- <-. exists []. split; [apply dec_nil|reflexivity].
  - cbn [iter] in H.
    assert (Hor : In (x', c') (if Nat.leb lo count then [(x, c)] else []) \/
                  In (x', c')
                     (if match hi with Some h => Nat.ltb count h | None => true end
                      then flat_map (fun xc => iter body g lo hi f (S count) (fst xc) (snd xc))
                                    (body x c)
                      else [])).
    { destruct g; apply in_app_or in H; tauto. }
    destruct Hor as [Hs|Hm].
    + destruct (Nat.leb lo count); [|contradiction].
      destruct Hs as [Hs|[]]. injection Hs as <- <-.
      exists []. split; [apply dec_nil|reflexivity].
    + destruct (match hi with Some h => Nat.ltb count h | None => true end); [|contradiction].
      apply in_flat_map in Hm. destruct Hm as ([x1 c1] & Hin & Hrec). cbn [fst snd] in Hrec.
      apply body_spec in Hin. destruct Hin as (v & Hv & Ev).
      apply IH in Hrec. destruct Hrec as (u & Hu & Eu).
      exists (v ++ u). split; [apply dec_cons; assumption|].
      rewrite Ev, Eu, app_assoc. reflexivity.
Qed.

(* right-to-left unique decoding for a suffix code *)
Lemma dec_suffix :
  (forall v e, M v -> M (e ++ v) -> e = []) ->
  forall u', dec u' -> forall u d, dec u -> u = d ++ u' -> dec d.
Proof.
  intros Hs u' Hu'. induction Hu' as [|u'' v Hd IH Hv]; intros u d Hu E.
  - rewrite app_nil_r in E. subst u. exact Hu.
  - rewrite app_assoc in E. revert E. destruct Hu as [|u0 v0 Hu0 Hv0]; intros E.
    + exfalso. symmetry in E. apply app_eq_nil in E. destruct E as [_ E].
      exact (M_nonempty v Hv E).
    + destruct (app_cmp _ _ _ _ E) as [(e & E1 & E2)|(e & E1 & E2)].
      * (* d ++ u'' = u0 ++ e, v0 = e ++ v *)
        assert (e = []) by (apply (Hs v e Hv); rewrite <- E2; exact Hv0).
        subst e. rewrite app_nil_r in E1. apply (IH u0 d Hu0). symmetry. exact E1.
      * (* u0 = (d ++ u'') ++ e, v = e ++ v0 *)
        assert (e = []) by (apply (Hs v0 e Hv0); rewrite <- E2; exact Hv).
        subst e. rewrite app_nil_r in E1. apply (IH u0 d Hu0). exact E1.
Qed.

(* two paths through different first words cannot meet again *)
Lemma cross g lo hi f f' count count' x c xa ca xa' ca' p p' :
  In (xa, ca) (body x c) -> In (xa', ca') (body x c) ->
  In p (iter body g lo hi f count xa ca) -> In p' (iter body g lo hi f' count' xa' ca') ->
  pos p = pos p' -> length (rest xa) = length (rest xa').
Proof.
  intros Ha Ha' Hp Hp' Epos.
  destruct p as [x1 c1]. destruct p' as [x2 c2]. unfold pos in Epos. cbn [fst] in Epos.
  apply body_spec in Ha. destruct Ha as (va & Hva & Eva).
  apply body_spec in Ha'. destruct Ha' as (va' & Hva' & Eva').
  apply iter_dec in Hp. destruct Hp as (ua & Hua & Eua).
  apply iter_dec in Hp'. destruct Hp' as (ua' & Hua' & Eua').
  destruct M_code as [Hpre|Hsuf].
  - (* prefix code: the two first words are the same *)
    assert (E : va ++ rest xa = va' ++ rest xa') by (rewrite <- Eva, <- Eva'; reflexivity).
    destruct (app_cmp _ _ _ _ E) as [(e & E1 & E2)|(e & E1 & E2)].
    + assert (e = []) by (apply (Hpre va e Hva); rewrite <- E1; exact Hva').
      subst e. rewrite E2. reflexivity.
    + assert (e = []) by (apply (Hpre va' e Hva'); rewrite <- E1; exact Hva).
      subst e. rewrite E2. reflexivity.
  - (* suffix code *)
    assert (E : (va ++ ua) ++ rest x1 = (va' ++ ua') ++ rest x2).
    { rewrite <- !app_assoc, <- Eua, <- Eua', <- Eva, <- Eva'. reflexivity. }
    apply app_eq_tail in E; [|exact Epos]. destruct E as [E _].
    assert (Hgen : forall va ua va' ua' xa xa',
               M va -> M va' -> dec ua -> dec ua' ->
               rest x = va ++ rest xa -> rest x = va' ++ rest xa' ->
               (exists e, va' = va ++ e /\ ua = e ++ ua') ->
               length (rest xa) = length (rest xa')).
    { clear - M_nonempty Hsuf.
      intros va ua va' ua' xa xa' Hva Hva' Hua Hua' Eva Eva' (e & E1 & E2).
      assert (He : dec e) by exact (dec_suffix Hsuf ua' Hua' ua e Hua E2).
      assert (e = []).
      { destruct He as [|u0 v0 Hu0 Hv0]; [reflexivity|]. exfalso.
        rewrite app_assoc in E1. rewrite E1 in Hva'.
        apply Hsuf in Hva'; [|exact Hv0].
        apply app_eq_nil in Hva'. destruct Hva' as [Hva' _]. exact (M_nonempty va Hva Hva'). }
      subst e. rewrite app_nil_r in E1. subst va'.
      rewrite Eva in Eva'. apply app_inv_head in Eva'. rewrite Eva'. reflexivity. }
    destruct (app_cmp _ _ _ _ E) as [Hc|Hc].
    + exact (Hgen va ua va' ua' xa xa' Hva Hva' Hua Hua' Eva Eva' Hc).
    + symmetry. exact (Hgen va' ua' va ua xa' xa Hva' Hva Hua' Hua Eva' Eva Hc).
Qed.

Lemma nodup_pos_flat_map (f : st * caps -> list (st * caps)) (l : list (st * caps)) :
  NoDup (map pos l) ->
  (forall a, In a l -> NoDup (map pos (f a))) ->
  (forall a a' p p', In a l -> In a' l -> In p (f a) -> In p' (f a') ->
                     pos p = pos p' -> pos a = pos a') ->
  NoDup (map pos (flat_map f l)).
Proof.
  induction l as [|a l IH]; intros Hnd Hf Hx; cbn [flat_map map]; [constructor|].
  cbn [map] in Hnd. inversion Hnd as [|pa pl Hna Hndl]; subst.
  rewrite map_app. apply NoDup_app_intro.
  - apply Hf. left; reflexivity.
  - apply IH; [exact Hndl| |].
    + intros b Hb. apply Hf. right; exact Hb.
    + intros b b' p p' Hb Hb'. apply Hx; right; assumption.
  - intros q Hq1 Hq2.
    apply in_map_iff in Hq1. destruct Hq1 as (p & Ep & Hp).
    apply in_map_iff in Hq2. destruct Hq2 as (p' & Ep' & Hp').
    apply in_flat_map in Hp'. destruct Hp' as (a' & Ha' & Hp').
    assert (E : pos a = pos a').
    { apply (Hx a a' p p'); [left; reflexivity|right; exact Ha'|exact Hp|exact Hp'|congruence]. }
    apply Hna. rewrite E. apply in_map. exact Ha'.
Qed.

Theorem iter_nodup g lo hi : forall fuel count x c,
  NoDup (map pos (iter body g lo hi fuel count x c)).
Proof.
  induction fuel as [|f IH]; intros count x c; cbn [iter].
  - destruct g; [rewrite app_nil_l | rewrite app_nil_r];
      (destruct (Nat.leb lo count); apply NoDup_le1; cbn [map length]; lia).
  - set (stop := if Nat.leb lo count then [(x, c)] else []).
    set (more := if match hi with Some h => Nat.ltb count h | None => true end
                 then flat_map (fun xc => iter body g lo hi f (S count) (fst xc) (snd xc))
                               (body x c)
                 else []).
    assert (Hstop : NoDup (map pos stop) /\ forall q, In q (map pos stop) -> q = length (rest x)).
    { subst stop. destruct (Nat.leb lo count); cbn [map]; split.
      - apply NoDup_le1. cbn [length]. lia.
      - intros q [<-|[]]. reflexivity.
      - constructor.
      - intros q []. }
    destruct Hstop as [Hstop1 Hstop2].
    assert (Hmore : NoDup (map pos more)).
    { subst more. destruct (match hi with Some h => Nat.ltb count h | None => true end);
        [|constructor].
      apply nodup_pos_flat_map.
      - apply body_nodup.
      - intros a _. apply IH.
      - intros [xa ca] [xa' ca'] p p' Ha Ha' Hp Hp' E. cbn [fst snd] in Hp, Hp'.
        unfold pos at 1 2. cbn [fst].
        exact (cross g lo hi f f (S count) (S count) x c xa ca xa' ca' p p' Ha Ha' Hp Hp' E). }
    assert (Hlt : forall q, In q (map pos more) -> q < length (rest x)).
    { subst more. intros q Hq.
      destruct (match hi with Some h => Nat.ltb count h | None => true end); [|destruct Hq].
      apply in_map_iff in Hq. destruct Hq as ([x1 c1] & <- & Hin).
      apply in_flat_map in Hin. destruct Hin as ([xa ca] & Ha & Hin). cbn [fst snd] in Hin.
      apply body_spec in Ha. destruct Ha as (v & Hv & Ev).
      apply iter_dec in Hin. destruct Hin as (u & _ & Eu).
      unfold pos. cbn [fst]. rewrite Ev, Eu, !app_length.
      destruct v as [|ch v]; [exfalso; exact (M_nonempty [] Hv eq_refl)|]. cbn [length]. lia. }
    destruct g; rewrite map_app; apply NoDup_app_intro; try assumption.
    + intros q Hq1 Hq2. apply Hlt in Hq1. apply Hstop2 in Hq2. lia.
    + intros q Hq1 Hq2. apply Hlt in Hq2. apply Hstop2 in Hq1. lia.
Qed.

End Star.

(* ---- the bodies accepted by the criterion ---------------------------------------------------- *)

Section Sem.
Variable lower : N -> N.

Lemma word_ends r : forall w, word_of r = Some w -> forall x c,
  length (ends lower r x c) <= 1 /\
  forall x' c', In (x', c') (ends lower r x c) -> exists v, wmatch v w /\ rest x = v ++ rest x'.
Proof.
  induction r as [| s | a IHa b IHb | a IHa b IHb | g lo hi r IH | n r IH | n | neg r IH
                 | neg s | w0 | ]; intros w Hw x c; cbn [word_of] in Hw; try discriminate.
  - (* Atom *)
    injection Hw as <-. cbn [ends].
    destruct (rest x) as [|ch tl] eqn:E; [split; [cbn [length]; lia|intros x' c' []]|].
    destruct (cmem ch s) eqn:Ec; [|split; [cbn [length]; lia|intros x' c' []]].
    split; [cbn [length]; lia|].
    intros x' c' [H|[]]. injection H as <- <-. exists [ch]. split.
    + constructor; [exact Ec|constructor].
    + reflexivity.
  - (* Seq *)
    destruct (word_of a) as [u|] eqn:Ea; [|discriminate].
    destruct (word_of b) as [v|] eqn:Eb; [|discriminate].
    injection Hw as <-. cbn [ends].
    destruct (IHa u eq_refl x c) as [La Sa].
    destruct (ends lower a x c) as [|[x1 c1] [|xc2 l]]; cbn [length] in La; try lia.
    + cbn [flat_map]. split; [cbn [length]; lia|intros x' c' []].
    + cbn [flat_map fst snd]. rewrite app_nil_r.
      destruct (IHb v eq_refl x1 c1) as [Lb Sb]. split; [exact Lb|].
      intros x' c' H. apply Sb in H. destruct H as (v2 & Hv2 & E2).
      destruct (Sa x1 c1 (or_introl eq_refl)) as (v1 & Hv1 & E1).
      exists (v1 ++ v2). split; [apply Forall2_app; assumption|].
      rewrite E1, E2, app_assoc. reflexivity.
  - (* Group *)
    cbn [ends]. destruct (IH w Hw x c) as [L S]. split; [rewrite map_length; exact L|].
    intros x' c' H. apply in_map_iff in H. destruct H as ([x1 c1] & E & H). cbn [fst snd] in E.
    injection E as <- <-. exact (S x1 c1 H).
Qed.

Lemma alts_spec r : forall ws, alts_of r = Some ws -> forall x c x' c',
  In (x', c') (ends lower r x c) -> exists v, Mw ws v /\ rest x = v ++ rest x'.
Proof.
  induction r as [| s | a IHa b IHb | a IHa b IHb | g lo hi r IH | n r IH | n | neg r IH
                 | neg s | w0 | ]; intros ws Hw x c x' c' H; cbn [alts_of] in Hw; try discriminate.
  - (* Atom *)
    injection Hw as <-.
    destruct (word_ends (Atom s) [s] eq_refl x c) as [_ S].
    destruct (S x' c' H) as (v & Hv & E). exists v. split; [|exact E].
    exists [s]. split; [left; reflexivity|exact Hv].
  - (* Seq *)
    destruct (word_of a) as [u|] eqn:Ea; [|discriminate].
    destruct (word_of b) as [v|] eqn:Eb; [|discriminate].
    injection Hw as <-.
    assert (Hwd : word_of (Seq a b) = Some (u ++ v)) by (cbn [word_of]; rewrite Ea, Eb; reflexivity).
    destruct (word_ends (Seq a b) (u ++ v) Hwd x c) as [_ S].
    destruct (S x' c' H) as (t & Ht & E). exists t. split; [|exact E].
    exists (u ++ v). split; [left; reflexivity|exact Ht].
  - (* Alt *)
    destruct (alts_of a) as [u|] eqn:Ea; [|discriminate].
    destruct (alts_of b) as [v|] eqn:Eb; [|discriminate].
    injection Hw as <-. cbn [ends] in H. apply in_app_or in H. destruct H as [H|H].
    + destruct (IHa u eq_refl x c x' c' H) as (t & (w & Hin & Hm) & E).
      exists t. split; [|exact E]. exists w. split; [apply in_or_app; left; exact Hin|exact Hm].
    + destruct (IHb v eq_refl x c x' c' H) as (t & (w & Hin & Hm) & E).
      exists t. split; [|exact E]. exists w. split; [apply in_or_app; right; exact Hin|exact Hm].
  - (* Group *)
    cbn [ends] in H. apply in_map_iff in H. destruct H as ([x1 c1] & E & H). cbn [fst snd] in E.
    injection E as <- <-. exact (IH ws Hw x c x1 c1 H).
Qed.

Lemma alts_nodup r : forall ws, alts_of r = Some ws -> pairwiseP excl ws -> forall x c,
  NoDup (map pos (ends lower r x c)).
Proof.
  induction r as [| s | a IHa b IHb | a IHa b IHb | g lo hi r IH | n r IH | n | neg r IH
                 | neg s | w0 | ]; intros ws Hw HP x c; cbn [alts_of] in Hw; try discriminate.
  - (* Atom *)
    apply NoDup_le1. rewrite map_length.
    exact (proj1 (word_ends (Atom s) [s] eq_refl x c)).
  - (* Seq *)
    destruct (word_of a) as [u|] eqn:Ea; [|discriminate].
    destruct (word_of b) as [v|] eqn:Eb; [|discriminate].
    assert (Hwd : word_of (Seq a b) = Some (u ++ v)) by (cbn [word_of]; rewrite Ea, Eb; reflexivity).
    apply NoDup_le1. rewrite map_length.
    exact (proj1 (word_ends (Seq a b) (u ++ v) Hwd x c)).
  - (* Alt *)
    destruct (alts_of a) as [u|] eqn:Ea; [|discriminate].
    destruct (alts_of b) as [v|] eqn:Eb; [|discriminate].
    injection Hw as <-. apply pairwiseP_app in HP. destruct HP as (HPu & HPv & HPuv).
    cbn [ends]. rewrite map_app. apply NoDup_app_intro.
    + exact (IHa u eq_refl HPu x c).
    + exact (IHb v eq_refl HPv x c).
    + intros q Hq1 Hq2.
      apply in_map_iff in Hq1. destruct Hq1 as ([x1 c1] & E1 & H1).
      apply in_map_iff in Hq2. destruct Hq2 as ([x2 c2] & E2 & H2).
      unfold pos in E1, E2. cbn [fst] in E1, E2.
      destruct (alts_spec a u Ea x c x1 c1 H1) as (t1 & (w1 & Hin1 & Hm1) & Et1).
      destruct (alts_spec b v Eb x c x2 c2 H2) as (t2 & (w2 & Hin2 & Hm2) & Et2).
      assert (E : t1 ++ rest x1 = t2 ++ rest x2) by (rewrite <- Et1, <- Et2; reflexivity).
      apply app_eq_tail in E; [|lia]. destruct E as [-> _].
      exact (HPuv w1 w2 Hin1 Hin2 t2 Hm1 Hm2).
  - (* Group *)
    cbn [ends]. rewrite map_map.
    assert (E : forall (f : st * caps -> st * caps) l,
               (forall xc, pos (f xc) = pos xc) ->
               map (fun xc => pos (f xc)) l = map pos l)
      by (intros f l Hf; apply map_ext; exact Hf).
    rewrite E by (intros [x1 c1]; reflexivity).
    exact (IH ws Hw HP x c).
Qed.

(* the hypotheses of section Star, from the decidable criterion *)
Lemma body_ok_star b : body_ok b = true ->
  exists M : text -> Prop,
    (forall x c x' c', In (x', c') (ends lower b x c) -> exists v, M v /\ rest x = v ++ rest x') /\
    (forall x c, NoDup (map pos (ends lower b x c))) /\
    (forall v, M v -> v <> []) /\
    ((forall v e, M v -> M (v ++ e) -> e = []) \/ (forall v e, M v -> M (e ++ v) -> e = [])).
Proof.
  unfold body_ok, code_ok. destruct (alts_of b) as [ws|] eqn:Ea; [|discriminate].
  intros H. apply andb_true_iff in H. destruct H as [Hne Hcode].
  exists (Mw ws). split; [exact (alts_spec b ws Ea)|]. split; [|split].
  - apply (alts_nodup b ws Ea).
    apply orb_true_iff in Hcode. destruct Hcode as [Hp|Hs].
    + exact (pairwise_P sep_pre excl sep_pre_excl ws Hp).
    + exact (pairwise_P sep_suf excl sep_suf_excl ws Hs).
  - exact (Mw_nonempty ws Hne).
  - apply orb_true_iff in Hcode. destruct Hcode as [Hp|Hs].
    + left. exact (prefix_code ws Hp).
    + right. exact (suffix_code ws Hs).
Qed.

Lemma ok_rep_body g lo b : ok (Rep g lo None b) = true -> ok b = true /\ body_ok b = true.
Proof. cbn [ok]. intros H. apply andb_true_iff in H. exact H. Qed.

(* (a) no unbounded repeat accepted by the criterion reaches the same end position along two
   different backtracking paths *)
Theorem star_unambiguous g lo b :
  ok (Rep g lo None b) = true ->
  forall x c,
    NoDup (map (fun xc : st * caps => length (rest (fst xc)))
               (ends lower (Rep g lo None b) x c)).
Proof.
  intros Hok x c. apply ok_rep_body in Hok. destruct Hok as [_ Hb].
  destruct (body_ok_star b Hb) as (M & Hspec & Hnd & Hne & Hcode).
  cbn [ends]. exact (iter_nodup (ends lower b) M Hspec Hnd Hne Hcode g lo None _ 0 x c).
Qed.

End Sem.

(* ---- arithmetic helpers ---------------------------------------------------------------------- *)

Lemma geo_pos b h : 1 <= geo b h.
Proof. destruct h; cbn [geo]; lia. Qed.

Lemma geo_mono b b' h : b <= b' -> geo b h <= geo b' h.
Proof.
  intros Hb. induction h as [|h IH]; cbn [geo]; [lia|].
  assert (b * geo b h <= b' * geo b' h) by (apply Nat.mul_le_mono; assumption). lia.
Qed.

Lemma wgeo_mono w w' b b' h : w <= w' -> b <= b' -> wgeo w b h <= wgeo w' b' h.
Proof.
  intros Hw Hb. induction h as [|h IH]; cbn [wgeo]; [lia|].
  assert (b * wgeo w b h <= b' * wgeo w' b' h) by (apply Nat.mul_le_mono; assumption). lia.
Qed.

Lemma pow_ge1 n k : 1 <= S n ^ k.
Proof. induction k as [|k IH]; cbn [Nat.pow]; lia. Qed.

(* a <= c * N^d can be weakened to a larger coefficient and a larger exponent *)
Lemma le_scale a c d c' d' n :
  a <= c * S n ^ d -> c <= c' -> d <= d' -> a <= c' * S n ^ d'.
Proof.
  intros Ha Hc Hd. etransitivity; [exact Ha|].
  apply Nat.mul_le_mono; [exact Hc|]. apply Nat.pow_le_mono_r; [lia|exact Hd].
Qed.

Lemma le_scale_mul a b ca cb da db n :
  a <= ca * S n ^ da -> b <= cb * S n ^ db -> a * b <= (ca * cb) * S n ^ (da + db).
Proof.
  intros Ha Hb. rewrite Nat.pow_add_r.
  replace (ca * cb * (S n ^ da * S n ^ db)) with ((ca * S n ^ da) * (cb * S n ^ db)) by ring.
  apply Nat.mul_le_mono; assumption.
Qed.

Lemma le_scale_add a b ca cb da db n :
  a <= ca * S n ^ da -> b <= cb * S n ^ db -> a + b <= (ca + cb) * S n ^ (Nat.max da db).
Proof.
  intros Ha Hb. rewrite Nat.mul_add_distr_r. apply Nat.add_le_mono.
  - apply (le_scale a ca da); [exact Ha|lia|lia].
  - apply (le_scale b cb db); [exact Hb|lia|lia].
Qed.

Lemma le_scale_one d n : 1 <= 1 * S n ^ d.
Proof. pose proof (pow_ge1 n d). lia. Qed.

(* ---- (b) number of backtracking paths --------------------------------------------------------- *)

Lemma pbound_mono r : forall n m, n <= m -> pbound r n <= pbound r m.
Proof.
  induction r as [| s | a IHa b IHb | a IHa b IHb | g lo hi r IH | n0 r IH | n0 | neg r IH
                 | neg s | w0 | ]; intros n m H; cbn [pbound]; try lia.
  - apply Nat.mul_le_mono; [apply IHa|apply IHb]; exact H.
  - apply Nat.add_le_mono; [apply IHa|apply IHb]; exact H.
  - destruct hi as [h|]; [|lia]. apply geo_mono. apply IH. exact H.
  - apply IH. exact H.
Qed.

Lemma pbound_pos r n : 1 <= pbound r n.
Proof.
  induction r as [| s | a IHa b IHb | a IHa b IHb | g lo hi r IH | n0 r IH | n0 | neg r IH
                 | neg s | w0 | ]; cbn [pbound].
  - lia.
  - lia.
  - change 1 with (1 * 1). apply Nat.mul_le_mono; assumption.
  - lia.
  - destruct hi as [h|]; [apply geo_pos|lia].
  - exact IH.
  - lia.
  - lia.
  - lia.
  - lia.
  - lia.
Qed.

(* bounded repeats: the iteration tree has branching <= B and depth <= fuel *)
Lemma iter_length_geo (body : st -> caps -> list (st * caps)) n B :
  (forall x c x' c', In (x', c') (body x c) -> length (rest x') <= length (rest x)) ->
  (forall x c, length (rest x) <= n -> length (body x c) <= B) ->
  forall g lo hi fuel count x c,
    length (rest x) <= n -> length (iter body g lo hi fuel count x c) <= geo B fuel.
Proof.
  intros Hdec HB g lo hi. induction fuel as [|f IH]; intros count x c Hx; cbn [iter geo].
  - destruct g; [rewrite app_nil_l | rewrite app_nil_r];
      (destruct (Nat.leb lo count); cbn [length]; lia).
  - set (stop := if Nat.leb lo count then [(x, c)] else []).
    set (more := if match hi with Some h => Nat.ltb count h | None => true end
                 then flat_map (fun xc => iter body g lo hi f (S count) (fst xc) (snd xc))
                               (body x c)
                 else []).
    assert (Hstop : length stop <= 1) by (subst stop; destruct (Nat.leb lo count); cbn [length]; lia).
    assert (Hmore : length more <= B * geo B f).
    { subst more. destruct (match hi with Some h => Nat.ltb count h | None => true end);
        [|cbn [length]; lia].
      etransitivity; [apply (flat_map_length_le _ _ (geo B f))|].
      - intros [x1 c1] Hin. cbn [fst snd]. apply IH. apply Hdec in Hin. lia.
      - apply Nat.mul_le_mono_r. apply HB. exact Hx. }
    clearbody stop more. unfold result in *. destruct g; rewrite app_length; lia.
Qed.

Section Paths.
Variable lower : N -> N.

Lemma ends_shorter r x c x' c' :
  In (x', c') (ends lower r x c) -> length (rest x') <= length (rest x).
Proof. intros H. apply ends_adv in H. apply adv_length in H. lia. Qed.

Theorem paths_poly r : ok r = true -> forall x c,
  length (ends lower r x c) <= pbound r (length (rest x)).
Proof.
  induction r as [| s | a IHa b IHb | a IHa b IHb | g lo hi r IH | n0 r IH | n0 | neg r IH
                 | neg s | w0 | ]; intros Hok x c.
  - cbn [ends pbound length]. lia.
  - cbn [ends pbound]. destruct (rest x) as [|ch tl]; [cbn [length]; lia|].
    destruct (cmem ch s); cbn [length]; lia.
  - (* Seq *)
    cbn [ok] in Hok. apply andb_true_iff in Hok. destruct Hok as [Ha Hb].
    cbn [ends pbound].
    etransitivity; [apply (flat_map_length_le _ _ (pbound b (length (rest x))))|].
    + intros [x1 c1] Hin. cbn [fst snd]. etransitivity; [apply (IHb Hb)|].
      apply pbound_mono. exact (ends_shorter a x c x1 c1 Hin).
    + apply Nat.mul_le_mono_r. apply (IHa Ha).
  - (* Alt *)
    cbn [ok] in Hok. apply andb_true_iff in Hok. destruct Hok as [Ha Hb].
    cbn [ends pbound]. rewrite app_length. apply Nat.add_le_mono; [apply (IHa Ha)|apply (IHb Hb)].
  - (* Rep *)
    destruct hi as [h|].
    + cbn [ok] in Hok. cbn [ends pbound rep_fuel].
      apply (iter_length_geo (ends lower r) (length (rest x))).
      * intros x0 c0 x1 c1. apply ends_shorter.
      * intros x0 c0 Hx0. etransitivity; [apply (IH Hok)|]. apply pbound_mono. exact Hx0.
      * lia.
    + cbn [pbound].
      rewrite <- (map_length (fun xc : st * caps => length (rest (fst xc)))).
      apply NoDup_bounded_length.
      * apply star_unambiguous. exact Hok.
      * intros p Hp. apply in_map_iff in Hp. destruct Hp as ([x1 c1] & <- & Hin). cbn [fst].
        exact (ends_shorter _ x c x1 c1 Hin).
  - (* Group *)
    cbn [ok] in Hok. cbn [ends pbound]. rewrite map_length. apply (IH Hok).
  - cbn [ends pbound]. destruct (cap_get n0 c) as [t|]; [|cbn [length]; lia].
    destruct (eat lower t x); cbn [length]; lia.
  - cbn [ends pbound]. destruct (ends lower r x c), neg; cbn [length]; lia.
  - cbn [ends pbound]. destruct (Bool.eqb _ _); cbn [length]; lia.
  - cbn [ends pbound]. destruct (xorb _ _); cbn [length]; lia.
  - cbn [ends pbound]. destruct (at_end (rest x)); cbn [length]; lia.
Qed.

End Paths.

Lemma geo_poly B c d n h :
  B <= c * S n ^ d -> geo B h <= geo c h * S n ^ (h * d).
Proof.
  intros HB. induction h as [|h IH]; cbn [geo]; [cbn [Nat.mul Nat.pow]; lia|].
  replace (S h * d) with (d + h * d) by lia.
  pose proof (le_scale_mul B (geo B h) c (geo c h) d (h * d) n HB IH) as Hm.
  pose proof (pow_ge1 n (d + h * d)) as Hp.
  rewrite Nat.mul_add_distr_r. lia.
Qed.

Theorem pbound_poly r n : pbound r n <= coef r * S n ^ deg r.
Proof.
  induction r as [| s | a IHa b IHb | a IHa b IHb | g lo hi r IH | n0 r IH | n0 | neg r IH
                 | neg s | w0 | ]; cbn [pbound coef deg]; try apply le_scale_one.
  - apply le_scale_mul; assumption.
  - apply le_scale_add; assumption.
  - destruct hi as [h|].
    + apply geo_poly. exact IH.
    + rewrite Nat.pow_1_r. lia.
  - exact IH.
Qed.

(* ---- (c) work of the backtracking matcher ----------------------------------------------------- *)

Lemma wbound_mono r : forall n m, n <= m -> wbound r n <= wbound r m.
Proof.
  induction r as [| s | a IHa b IHb | a IHa b IHb | g lo hi r IH | n0 r IH | n0 | neg r IH
                 | neg s | w0 | ]; intros n m H; cbn [wbound]; try lia.
  - pose proof (IHa n m H). pose proof (IHb n m H). pose proof (pbound_mono a n m H).
    assert (pbound a n * wbound b n <= pbound a m * wbound b m)
      by (apply Nat.mul_le_mono; assumption). lia.
  - pose proof (IHa n m H). pose proof (IHb n m H). lia.
  - destruct hi as [h|].
    + apply wgeo_mono; [apply IH; exact H|apply pbound_mono; exact H].
    + apply Nat.mul_le_mono; [lia|]. pose proof (IH n m H). lia.
  - pose proof (IH n m H). lia.
  - pose proof (IH n m H). lia.
Qed.

Section WorkBound.
Variable lower : N -> N.

Lemma eat_work_le t : forall x, eat_work lower t x <= S (length (rest x)).
Proof.
  induction t as [|ch t IH]; intros x; cbn [eat_work]; [lia|].
  destruct (rest x) as [|d r]; [lia|].
  destruct (N.eqb (lower ch) (lower d)); [|lia].
  specialize (IH (mkSt (Some d) r)). cbn [rest length] in *. lia.
Qed.

(* bounded repeat *)
Lemma witer_wgeo (body : st -> caps -> list (st * caps)) (wbody : st -> caps -> nat) n W B :
  (forall x c x' c', In (x', c') (body x c) -> length (rest x') <= length (rest x)) ->
  (forall x c, length (rest x) <= n -> length (body x c) <= B) ->
  (forall x c, length (rest x) <= n -> wbody x c <= W) ->
  forall hi fuel count x c,
    length (rest x) <= n -> witer body wbody hi fuel count x c <= wgeo W B fuel.
Proof.
  intros Hdec HB HW hi. induction fuel as [|f IH]; intros count x c Hx; cbn [witer wgeo]; [lia|].
  destruct (match hi with Some h => Nat.ltb count h | None => true end); [|lia].
  assert (H1 : lsum (map (fun xc => witer body wbody hi f (S count) (fst xc) (snd xc)) (body x c))
               <= length (body x c) * wgeo W B f).
  { apply lsum_map_le. intros [x1 c1] Hin. cbn [fst snd]. apply IH. apply Hdec in Hin. lia. }
  assert (H2 : length (body x c) * wgeo W B f <= B * wgeo W B f)
    by (apply Nat.mul_le_mono_r; apply HB; exact Hx).
  pose proof (HW x c Hx). lia.
Qed.

(* any repeat: one node of the iteration tree per result of the same repeat with lower bound 0 *)
Lemma witer_nodes (body : st -> caps -> list (st * caps)) (wbody : st -> caps -> nat) n W :
  (forall x c x' c', In (x', c') (body x c) -> length (rest x') <= length (rest x)) ->
  (forall x c, length (rest x) <= n -> wbody x c <= W) ->
  forall hi fuel count x c,
    length (rest x) <= n ->
    witer body wbody hi fuel count x c <= length (iter body true 0 hi fuel count x c) * S W.
Proof.
  intros Hdec HW hi. induction fuel as [|f IH]; intros count x c Hx; cbn [witer iter Nat.leb].
  - cbn [app length]. lia.
  - destruct (match hi with Some h => Nat.ltb count h | None => true end);
      [|cbn [app length]; lia].
    rewrite app_length. cbn [length].
    assert (H1 : lsum (map (fun xc => witer body wbody hi f (S count) (fst xc) (snd xc)) (body x c))
                 <= length (flat_map (fun xc => iter body true 0 hi f (S count) (fst xc) (snd xc))
                                     (body x c)) * S W).
    { apply lsum_flat_map_le. intros [x1 c1] Hin. cbn [fst snd]. apply IH.
      apply Hdec in Hin. lia. }
    pose proof (HW x c Hx). lia.
Qed.

Theorem work_poly r : ok r = true -> forall x c,
  work lower r x c <= wbound r (length (rest x)).
Proof.
  induction r as [| s | a IHa b IHb | a IHa b IHb | g lo hi r IH | n0 r IH | n0 | neg r IH
                 | neg s | w0 | ]; intros Hok x c; cbn [work wbound]; try lia.
  - (* Seq *)
    cbn [ok] in Hok. apply andb_true_iff in Hok. destruct Hok as [Ha Hb].
    pose proof (IHa Ha x c) as H1.
    assert (H2 : lsum (map (fun xc => work lower b (fst xc) (snd xc)) (ends lower a x c))
                 <= length (ends lower a x c) * wbound b (length (rest x))).
    { apply lsum_map_le. intros [x1 c1] Hin. cbn [fst snd]. etransitivity; [apply (IHb Hb)|].
      apply wbound_mono. exact (ends_shorter lower a x c x1 c1 Hin). }
    assert (H3 : length (ends lower a x c) * wbound b (length (rest x))
                 <= pbound a (length (rest x)) * wbound b (length (rest x)))
      by (apply Nat.mul_le_mono_r; apply paths_poly; exact Ha).
    lia.
  - (* Alt *)
    cbn [ok] in Hok. apply andb_true_iff in Hok. destruct Hok as [Ha Hb].
    pose proof (IHa Ha x c). pose proof (IHb Hb x c). lia.
  - (* Rep *)
    destruct hi as [h|].
    + cbn [ok] in Hok. cbn [rep_fuel].
      apply (witer_wgeo (ends lower r) (work lower r) (length (rest x))).
      * intros x0 c0 x1 c1. apply ends_shorter.
      * intros x0 c0 Hx0. etransitivity; [apply (paths_poly lower r Hok)|].
        apply pbound_mono. exact Hx0.
      * intros x0 c0 Hx0. etransitivity; [apply (IH Hok)|]. apply wbound_mono. exact Hx0.
      * lia.
    + assert (Hok0 : ok (Rep true 0 None r) = true) by exact Hok.
      apply ok_rep_body in Hok. destruct Hok as [Hr _].
      etransitivity; [apply (witer_nodes (ends lower r) (work lower r) (length (rest x))
                                         (wbound r (length (rest x))))|].
      * intros x0 c0 x1 c1. apply ends_shorter.
      * intros x0 c0 Hx0. etransitivity; [apply (IH Hr)|]. apply wbound_mono. exact Hx0.
      * lia.
      * apply Nat.mul_le_mono_r.
        exact (paths_poly lower (Rep true 0 None r) Hok0 x c).
  - (* Group *)
    cbn [ok] in Hok. pose proof (IH Hok x c). lia.
  - (* Backref *)
    destruct (cap_get n0 c) as [t|]; [|lia]. pose proof (eat_work_le t x). lia.
  - (* Ahead *)
    cbn [ok] in Hok. pose proof (IH Hok x c). lia.
Qed.

End WorkBound.

Lemma wgeo_poly W B wc c wd d n h :
  W <= wc * S n ^ wd -> B <= c * S n ^ d ->
  wgeo W B h <= wgeo wc c h * S n ^ wgdeg wd d h.
Proof.
  intros HW HB. induction h as [|h IH]; cbn [wgeo wgdeg]; [cbn [Nat.pow]; lia|].
  pose proof (le_scale_mul B (wgeo W B h) c (wgeo wc c h) d (wgdeg wd d h) n HB IH) as Hm.
  pose proof (le_scale_add W _ wc _ wd _ n HW Hm) as Ha.
  pose proof (pow_ge1 n (Nat.max wd (d + wgdeg wd d h))) as Hp.
  change (S (wc + c * wgeo wc c h)) with (1 + (wc + c * wgeo wc c h)).
  rewrite Nat.mul_add_distr_r. lia.
Qed.

Theorem wbound_poly r n : wbound r n <= wcoef r * S n ^ wdeg r.
Proof.
  induction r as [| s | a IHa b IHb | a IHa b IHb | g lo hi r IH | n0 r IH | n0 | neg r IH
                 | neg s | w0 | ]; cbn [wbound wcoef wdeg]; try apply le_scale_one.
  - (* Seq *)
    pose proof (le_scale_mul _ _ _ _ _ _ n (pbound_poly a n) IHb) as Hm.
    pose proof (le_scale_add _ _ _ _ _ _ n IHa Hm) as Ha.
    pose proof (pow_ge1 n (Nat.max (wdeg a) (deg a + wdeg b))) as Hp.
    change (S (wcoef a + coef a * wcoef b)) with (1 + (wcoef a + coef a * wcoef b)).
    rewrite Nat.mul_add_distr_r. lia.
  - (* Alt *)
    pose proof (le_scale_add _ _ _ _ _ _ n IHa IHb) as Ha.
    pose proof (pow_ge1 n (Nat.max (wdeg a) (wdeg b))) as Hp.
    change (S (wcoef a + wcoef b)) with (1 + (wcoef a + wcoef b)).
    rewrite Nat.mul_add_distr_r. lia.
  - (* Rep *)
    destruct hi as [h|].
    + apply wgeo_poly; [exact IH|apply pbound_poly].
    + pose proof (pow_ge1 n (wdeg r)) as Hp.
      assert (H1 : S (wbound r n) <= S (wcoef r) * S n ^ wdeg r)
        by (change (S (wcoef r)) with (1 + wcoef r); rewrite Nat.mul_add_distr_r; lia).
      cbn [Nat.pow].
      replace (S (wcoef r) * (S n * S n ^ wdeg r)) with (S n * (S (wcoef r) * S n ^ wdeg r)) by ring.
      apply Nat.mul_le_mono_l. exact H1.
  - (* Group *)
    pose proof (pow_ge1 n (wdeg r)) as Hp.
    change (S (wcoef r)) with (1 + wcoef r). rewrite Nat.mul_add_distr_r. lia.
  - (* Backref *)
    rewrite Nat.pow_1_r. lia.
  - (* Ahead *)
    pose proof (pow_ge1 n (wdeg r)) as Hp.
    change (S (wcoef r)) with (1 + wcoef r). rewrite Nat.mul_add_distr_r. lia.
Qed.

(* ---- a list of rules: uniform degree and coefficient ----------------------------------------- *)

Lemma max_over_ge f (rs : list rule) r a : In (r, a) rs -> f r <= max_over f rs.
Proof.
  induction rs as [|[r0 a0] rs IH]; intros H; [destruct H|].
  unfold max_over in *. cbn [fold_right fst]. destruct H as [H|H].
  - injection H as -> _. lia.
  - specialize (IH H). lia.
Qed.

Section Rules.
Variable lower : N -> N.
Variable rules : list rule.
Hypothesis rules_ok : forallb (fun ra => ok (fst ra)) rules = true.

Lemma rule_ok r a : In (r, a) rules -> ok r = true.
Proof. intros H. rewrite forallb_forall in rules_ok. exact (rules_ok (r, a) H). Qed.

Theorem rules_paths r a x c :
  In (r, a) rules ->
  length (ends lower r x c) <= max_over coef rules * S (length (rest x)) ^ max_over deg rules.
Proof.
  intros H. etransitivity; [apply paths_poly; exact (rule_ok r a H)|].
  apply (le_scale _ (coef r) (deg r)); [apply pbound_poly| |]; apply (max_over_ge _ rules r a H).
Qed.

Theorem rules_work r a x c :
  In (r, a) rules ->
  work lower r x c <= max_over wcoef rules * S (length (rest x)) ^ max_over wdeg rules.
Proof.
  intros H. etransitivity; [apply work_poly; exact (rule_ok r a H)|].
  apply (le_scale _ (wcoef r) (wdeg r)); [apply wbound_poly| |]; apply (max_over_ge _ rules r a H).
Qed.

End Rules.

(* ---- the scan loop ----------------------------------------------------------------------------- *)

Lemma fm_bound_mono rs n m : n <= m -> fm_bound rs n <= fm_bound rs m.
Proof.
  intros H. induction rs as [|[r a] rs IH]; cbn [fm_bound]; [lia|].
  pose proof (wbound_mono r n m H). lia.
Qed.

Lemma fm_bound_poly rs n : fm_bound rs n <= fm_coef rs * S n ^ max_over wdeg rs.
Proof.
  induction rs as [|[r a] rs IH]; cbn [fm_bound fm_coef].
  - apply le_scale_one.
  - change (max_over wdeg ((r, a) :: rs)) with (Nat.max (wdeg r) (max_over wdeg rs)).
    pose proof (le_scale_add _ _ _ _ _ _ n (wbound_poly r n) IH) as Ha.
    pose proof (pow_ge1 n (Nat.max (wdeg r) (max_over wdeg rs))) as Hp.
    change (S (wcoef r + fm_coef rs)) with (1 + (wcoef r + fm_coef rs)).
    rewrite Nat.mul_add_distr_r. lia.
Qed.

Section LexWorkFacts.
Variable lower : N -> N.

Lemma fm_work_le rs : forallb (fun ra => ok (fst ra)) rs = true ->
  forall x, fm_work lower rs x <= fm_bound rs (length (rest x)).
Proof.
  induction rs as [|[r a] rs IH]; intros Hok x; cbn [fm_work fm_bound]; [lia|].
  cbn [forallb fst] in Hok. apply andb_true_iff in Hok. destruct Hok as [Hr Hrs].
  pose proof (work_poly lower r Hr x []) as Hw. pose proof (IH Hrs x) as Hf.
  destruct (rmatch lower r x); lia.
Qed.

Variable rules : list rule.
Hypothesis rules_ok : forallb (fun ra => ok (fst ra)) rules = true.

Lemma lex_work_le n : forall t p skip,
  length t <= n -> lex_work lower rules p skip t <= 1 + length t * S (fm_bound rules n).
Proof.
  induction t as [|ch tl IH]; intros p skip Hn; cbn [lex_work]; [lia|].
  cbn [length] in Hn |- *.
  assert (Htl : length tl <= n) by lia.
  destruct skip as [|k].
  - pose proof (fm_work_le rules rules_ok (mkSt p (ch :: tl))) as Hf. cbn [rest length] in Hf.
    pose proof (fm_bound_mono rules (S (length tl)) n Hn) as Hm.
    destruct (first_match lower rules (mkSt p (ch :: tl))) as [[a [|n']]|].
    + lia.
    + pose proof (IH (Some ch) n' Htl). lia.
    + pose proof (IH (Some ch) 0 Htl). lia.
  - pose proof (IH (Some ch) k Htl). lia.
Qed.

(* (d) the whole tokenizing work is polynomial in the length of the text *)
Theorem lex_work_poly t :
  lex_work lower rules None 0 t
  <= 1 + length t * S (fm_coef rules * S (length t) ^ max_over wdeg rules).
Proof.
  etransitivity; [apply (lex_work_le (length t)); lia|].
  pose proof (fm_bound_poly rules (length t)) as Hp.
  assert (length t * S (fm_bound rules (length t))
          <= length t * S (fm_coef rules * S (length t) ^ max_over wdeg rules))
    by (apply Nat.mul_le_mono_l; lia).
  lia.
Qed.

End LexWorkFacts.

Print Assumptions cdisjoint_sound.
Print Assumptions star_unambiguous.
Print Assumptions paths_poly.
Print Assumptions pbound_poly.
Print Assumptions work_poly.
Print Assumptions wbound_poly.
Print Assumptions rules_paths.
Print Assumptions rules_work.
Print Assumptions lex_work_poly.

(* ---- sub-expressions, duplicates ---------------------------------------------------------------- *)

Lemma ok_subreps r : ok r = true -> forall s, In s (subreps r) -> ok s = true.
Proof.
  induction r as [| s0 | a IHa b IHb | a IHa b IHb | g lo hi r IH | n0 r IH | n0 | neg r IH
                 | neg s0 | w0 | ]; intros Hok s Hs; cbn [subreps] in Hs; try (destruct Hs; fail).
  - cbn [ok] in Hok. apply andb_true_iff in Hok. destruct Hok as [Ha Hb].
    apply in_app_or in Hs. destruct Hs as [Hs|Hs]; [exact (IHa Ha s Hs)|exact (IHb Hb s Hs)].
  - cbn [ok] in Hok. apply andb_true_iff in Hok. destruct Hok as [Ha Hb].
    apply in_app_or in Hs. destruct Hs as [Hs|Hs]; [exact (IHa Ha s Hs)|exact (IHb Hb s Hs)].
  - destruct hi as [h|].
    + cbn [ok] in Hok. exact (IH Hok s Hs).
    + destruct Hs as [<-|Hs]; [exact Hok|].
      apply ok_rep_body in Hok. destruct Hok as [Hr _]. exact (IH Hr s Hs).
  - cbn [ok] in Hok. exact (IH Hok s Hs).
  - cbn [ok] in Hok. exact (IH Hok s Hs).
Qed.

Lemma subreps_shape r s : In s (subreps r) -> exists g lo b, s = Rep g lo None b.
Proof.
  induction r as [| s0 | a IHa b IHb | a IHa b IHb | g lo hi r IH | n0 r IH | n0 | neg r IH
                 | neg s0 | w0 | ]; intros Hs; cbn [subreps] in Hs; try (destruct Hs; fail).
  - apply in_app_or in Hs. destruct Hs as [Hs|Hs]; [exact (IHa Hs)|exact (IHb Hs)].
  - apply in_app_or in Hs. destruct Hs as [Hs|Hs]; [exact (IHa Hs)|exact (IHb Hs)].
  - destruct hi as [h|]; [exact (IH Hs)|].
    destruct Hs as [<-|Hs]; [exists g, lo, r; reflexivity|exact (IH Hs)].
  - exact (IH Hs).
  - exact (IH Hs).
Qed.

(* every unbounded repeat anywhere inside an accepted expression is unambiguous *)
Theorem ok_all_stars_unambiguous lower r :
  ok r = true -> forall s, In s (subreps r) -> forall x c,
    NoDup (map (fun xc : st * caps => length (rest (fst xc))) (ends lower s x c)).
Proof.
  intros Hok s Hs x c. pose proof (ok_subreps r Hok s Hs) as Hoks.
  destruct (subreps_shape r s Hs) as (g & lo & b & ->).
  exact (star_unambiguous lower g lo b Hoks x c).
Qed.

Lemma memb_In n l : memb n l = true -> In n l.
Proof.
  induction l as [|m l IH]; cbn [memb]; intros H; [discriminate|].
  apply orb_true_iff in H. destruct H as [H|H].
  - left. apply Nat.eqb_eq in H. symmetry. exact H.
  - right. exact (IH H).
Qed.

Lemma has_dup_sound l : has_dup l = true -> ~ NoDup l.
Proof.
  induction l as [|n l IH]; cbn [has_dup]; intros H Hnd; [discriminate|].
  inversion Hnd as [|n' l' Hn Hl]; subst.
  apply orb_true_iff in H. destruct H as [H|H].
  - apply Hn. exact (memb_In n l H).
  - exact (IH H Hl).
Qed.

Print Assumptions ok_all_stars_unambiguous.
