(* ASCII letter-case relation and the executable checkers used to establish that a regex / a
   case-mapping function cannot tell the two spellings of an ASCII letter apart.
   Definitions only; proofs are in Regex/CaseRel.v.  Nothing here mentions the generated tables. *)
From SqlModel Require Import Base PyStr Re.

(* a and b are the same code point, or the two spellings A-Z / a-z of one ASCII letter *)
Definition Rcase (a b : N) : Prop :=
  a = b \/ (65 <= a <= 90 /\ b = a + 32)%N \/ (65 <= b <= 90 /\ a = b + 32)%N.

(* the 26 upper-case ASCII letters 65 .. 90 *)
Definition letters : list N := map (fun k => (65 + N.of_nat k)%N) (seq 0 26).

(* the character set contains either both spellings of each ASCII letter or neither *)
Definition case_closed_b (s : cset) : bool :=
  forallb (fun a => Bool.eqb (cmem a s) (cmem (a + 32)%N s)) letters.

(* [P] holds of every character set occurring in the regex *)
Fixpoint re_forall_b (P : cset -> bool) (r : re) : bool :=
  match r with
  | Atom s | Behind _ s | Bound s => P s
  | Seq a b | Alt a b => re_forall_b P a && re_forall_b P b
  | Rep _ _ _ r' | Group _ r' | Ahead _ r' => re_forall_b P r'
  | Eps | Backref _ | AtEnd => true
  end.

Definition re_case_closed_b (r : re) : bool := re_forall_b case_closed_b r.

(* the regex engine's lower-casing identifies the two spellings of each ASCII letter *)
Definition lower_case_ok_b (lower : N -> N) : bool :=
  forallb (fun a => N.eqb (lower a) (lower (a + 32)%N)) letters.

(* str.upper() over the table [m] maps the two spellings of each ASCII letter to the same text *)
Definition upper_case_ok_b (m : umap) : bool :=
  forallb (fun a => text_eqb (py_upper m [a]) (py_upper m [(a + 32)%N])) letters.

(* ASCII-only case conversions (convenient witnesses of [Forall2 Rcase]) *)
Definition ascii_up (c : N) : N := if (N.leb 97 c && N.leb c 122)%bool then (c - 32)%N else c.
Definition ascii_low (c : N) : N := if (N.leb 65 c && N.leb c 90)%bool then (c + 32)%N else c.
Definition ascii_swap (c : N) : N :=
  if (N.leb 65 c && N.leb c 90)%bool then (c + 32)%N
  else if (N.leb 97 c && N.leb c 122)%bool then (c - 32)%N else c.

(* a decision procedure for [Forall2 Rcase], handy for examples *)
Definition Rcase_b (a b : N) : bool :=
  (N.eqb a b || (N.leb 65 a && N.leb a 90 && N.eqb b (a + 32))
   || (N.leb 65 b && N.leb b 90 && N.eqb a (b + 32)))%N%bool.

Fixpoint text_Rcase_b (t t' : text) : bool :=
  match t, t' with
  | [], [] => true
  | a :: t1, b :: t2 => Rcase_b a b && text_Rcase_b t1 t2
  | _, _ => false
  end.
