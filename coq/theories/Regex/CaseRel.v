(* Facts about the ASCII letter-case relation [Rcase] and soundness of the boolean checkers of
   Regex/CaseDefs.v.  Generic: nothing here mentions the generated tables. *)
From SqlModel Require Import Base PyStr Re CaseDefs RelInv.

Lemma in_letters a : (65 <= a <= 90)%N -> In a letters.
Proof.
  intros H. unfold letters. apply in_map_iff.
  exists (N.to_nat (a - 65)). split; [lia|]. apply in_seq. lia.
Qed.

Lemma letters_range a : In a letters -> (65 <= a <= 90)%N.
Proof.
  unfold letters. intros H. apply in_map_iff in H. destruct H as (k & E & Hk).
  apply in_seq in Hk. lia.
Qed.

(* reduce a property of related pairs to the 26 letter pairs *)
Lemma Rcase_ind_letters (P : N -> N -> Prop) :
  (forall a, P a a) -> (forall a b, P a b -> P b a) ->
  (forall a, In a letters -> P a (a + 32)%N) ->
  forall a b, Rcase a b -> P a b.
Proof.
  intros Hrefl Hsym Hl a b [E | [[Ha E] | [Hb E]]]; subst.
  - apply Hrefl.
  - apply Hl, in_letters, Ha.
  - apply Hsym, Hl, in_letters, Hb.
Qed.

Lemma Rcase_refl a : Rcase a a.
Proof. left; reflexivity. Qed.

Lemma Rcase_sym a b : Rcase a b -> Rcase b a.
Proof. unfold Rcase. intros [E | [H | H]]; [left; auto | right; right; exact H | right; left; exact H]. Qed.

Lemma Rcase_trans a b c : Rcase a b -> Rcase b c -> Rcase a c.
Proof. unfold Rcase. intros H1 H2. lia. Qed.

Lemma Rcase_nl : closed_nl Rcase.
Proof. intros a b H. unfold Rcase in H. destruct (N.eqb_spec a 10), (N.eqb_spec b 10); lia. Qed.

Lemma Forall2_Rcase_refl t : Forall2 Rcase t t.
Proof. induction t as [|a t IH]; constructor; [apply Rcase_refl | exact IH]. Qed.

Lemma Forall2_Rcase_sym t t' : Forall2 Rcase t t' -> Forall2 Rcase t' t.
Proof. induction 1 as [|a b t t' Hab _ IH]; constructor; [apply Rcase_sym; exact Hab | exact IH]. Qed.

Lemma Forall2_Rcase_trans t t' t'' :
  Forall2 Rcase t t' -> Forall2 Rcase t' t'' -> Forall2 Rcase t t''.
Proof.
  intros H. revert t''. induction H as [|a b t t' Hab _ IH]; intros t'' H2.
  - inversion H2; constructor.
  - inversion H2 as [|b' c t1 t2 Hbc H3]; subst. constructor; [eapply Rcase_trans; eauto | auto].
Qed.

(* soundness of the checkers *)
Lemma case_closed_b_sound s : case_closed_b s = true -> closed Rcase s.
Proof.
  intros H. unfold case_closed_b in H. rewrite forallb_forall in H.
  intros a b Hab. revert a b Hab.
  apply (Rcase_ind_letters (fun a b => cmem a s = cmem b s)); [reflexivity | congruence |].
  intros a Ha. apply Bool.eqb_prop. apply H. exact Ha.
Qed.

Lemma re_case_closed_b_sound r : re_case_closed_b r = true -> re_closed Rcase r.
Proof.
  apply (re_closed_of_forall_b Rcase case_closed_b); [exact case_closed_b_sound | exact Rcase_nl].
Qed.

Lemma rules_case_closed_sound {A} (rs : list (re * A)) :
  forallb (fun ra => re_case_closed_b (fst ra)) rs = true ->
  Forall (fun ra => re_closed Rcase (fst ra)) rs.
Proof.
  intros H. rewrite forallb_forall in H. apply Forall_forall.
  intros ra Hin. apply re_case_closed_b_sound, H, Hin.
Qed.

Lemma lower_case_ok_b_sound lower :
  lower_case_ok_b lower = true -> forall a b, Rcase a b -> lower a = lower b.
Proof.
  intros H. unfold lower_case_ok_b in H. rewrite forallb_forall in H.
  apply (Rcase_ind_letters (fun a b => lower a = lower b)); [reflexivity | congruence |].
  intros a Ha. apply N.eqb_eq. apply H. exact Ha.
Qed.

Lemma upper_case_ok_b_sound m :
  upper_case_ok_b m = true -> forall t t', Forall2 Rcase t t' -> py_upper m t = py_upper m t'.
Proof.
  intros H. unfold upper_case_ok_b in H. rewrite forallb_forall in H.
  assert (H1 : forall a b, Rcase a b -> py_upper m [a] = py_upper m [b]).
  { apply (Rcase_ind_letters (fun a b => py_upper m [a] = py_upper m [b]));
      [reflexivity | congruence |].
    intros a Ha. apply text_eqb_eq. apply H. exact Ha. }
  intros t t' Ht. induction Ht as [|a b t t' Hab _ IH]; [reflexivity|].
  assert (Hc : forall c u, py_upper m (c :: u) = py_upper m [c] ++ py_upper m u).
  { intros c u. unfold py_upper. cbn [flat_map]. rewrite app_nil_r. reflexivity. }
  rewrite (Hc a t), (Hc b t'), (H1 _ _ Hab), IH. reflexivity.
Qed.

(* the ASCII conversions produce related texts *)
Lemma Rcase_ascii_up a : Rcase a (ascii_up a).
Proof.
  unfold ascii_up, Rcase.
  destruct (N.leb_spec 97 a), (N.leb_spec a 122); cbn [andb]; lia.
Qed.

Lemma Rcase_ascii_low a : Rcase a (ascii_low a).
Proof.
  unfold ascii_low, Rcase.
  destruct (N.leb_spec 65 a), (N.leb_spec a 90); cbn [andb]; lia.
Qed.

Lemma Rcase_ascii_swap a : Rcase a (ascii_swap a).
Proof.
  unfold ascii_swap, Rcase.
  destruct (N.leb_spec 65 a), (N.leb_spec a 90), (N.leb_spec 97 a), (N.leb_spec a 122);
    cbn [andb]; lia.
Qed.

Lemma Forall2_Rcase_map f t : (forall a, Rcase a (f a)) -> Forall2 Rcase t (map f t).
Proof. intros Hf. induction t as [|a t IH]; cbn [map]; constructor; auto. Qed.

(* applying any per-position choice of case conversion gives a related text *)
Lemma Forall2_Rcase_up t : Forall2 Rcase t (map ascii_up t).
Proof. apply Forall2_Rcase_map, Rcase_ascii_up. Qed.
Lemma Forall2_Rcase_low t : Forall2 Rcase t (map ascii_low t).
Proof. apply Forall2_Rcase_map, Rcase_ascii_low. Qed.
Lemma Forall2_Rcase_swap t : Forall2 Rcase t (map ascii_swap t).
Proof. apply Forall2_Rcase_map, Rcase_ascii_swap. Qed.

Lemma Rcase_b_sound a b : Rcase_b a b = true -> Rcase a b.
Proof.
  unfold Rcase_b, Rcase. intros H.
  repeat (apply orb_true_iff in H; destruct H as [H|H]).
  - apply N.eqb_eq in H. left; exact H.
  - apply andb_true_iff in H. destruct H as [H H3]. apply andb_true_iff in H. destruct H as [H1 H2].
    apply N.leb_le in H1, H2. apply N.eqb_eq in H3. right; left. lia.
  - apply andb_true_iff in H. destruct H as [H H3]. apply andb_true_iff in H. destruct H as [H1 H2].
    apply N.leb_le in H1, H2. apply N.eqb_eq in H3. right; right. lia.
Qed.

Lemma text_Rcase_b_sound t : forall t', text_Rcase_b t t' = true -> Forall2 Rcase t t'.
Proof.
  induction t as [|a t IH]; intros [|b t'] H; cbn [text_Rcase_b] in H; try discriminate;
    [constructor|].
  apply andb_true_iff in H. destruct H as [H1 H2].
  constructor; [apply Rcase_b_sound; exact H1 | apply IH; exact H2].
Qed.

(* the closedness hypothesis is what makes [ends_rel] true: a case-sensitive literal "a"
   (a set that is not case-closed) tells "a" from "A" *)
Example not_closed_differs :
  let s := CNode 98 (CNode 97 (CLeaf false) (CLeaf true)) (CLeaf false) in
  case_closed_b s = false
  /\ rmatch (fun c => c) (Atom s) (mkSt None [97%N]) = Some 1
  /\ rmatch (fun c => c) (Atom s) (mkSt None [65%N]) = None.
Proof. vm_compute. auto. Qed.

(* ... and a case-closed one does not (non-vacuity of [rmatch_rel] with a back-reference,
   a look-behind, a word boundary and a lazy repeat): (?<!x)([ab]+?)\1\b on "aBAb " / "AbaB " *)
Example closed_same :
  let ab := CNode 65 (CLeaf false) (CNode 67 (CLeaf true)
              (CNode 97 (CLeaf false) (CNode 99 (CLeaf true) (CLeaf false)))) in
  let xs := CNode 88 (CLeaf false) (CNode 89 (CLeaf true)
              (CNode 120 (CLeaf false) (CNode 121 (CLeaf true) (CLeaf false)))) in
  let w := CNode 65 (CLeaf false) (CNode 91 (CLeaf true)
              (CNode 97 (CLeaf false) (CNode 123 (CLeaf true) (CLeaf false)))) in
  let r := Seq (Behind true xs) (Seq (Group 1 (Rep false 1 None (Atom ab)))
                                     (Seq (Backref 1) (Bound w))) in
  re_case_closed_b r = true
  /\ rmatch ascii_low r (mkSt None [97; 66; 65; 98; 32]%N) = Some 4
  /\ rmatch ascii_low r (mkSt None [65; 98; 97; 66; 32]%N) = Some 4.
Proof. vm_compute. auto. Qed.
