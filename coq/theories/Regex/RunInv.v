(* Proofs for RunInvDefs.v. *)
From SqlModel Require Import Base Re MinWidth SplitApi SplitApiFacts RunInvDefs.
From Coq Require Import Lia.

Section Facts.
Variable lower : N -> N.
Variable S : cset.
Notation inS := (inS S).
Notation RS := (RS S).
Notation srel := (srel S).
Notation rrel := (rrel S).
Notation surv := (surv S).
Notation snext := (snext S).
Notation snext_t := (snext_t S).
Notation interior := (interior S).
Notation prel := (prel S).

(* ---- RS ------------------------------------------------------------------------------------------ *)
Lemma RS_snext t t' : RS t t' -> snext_t t = snext_t t'.
Proof.
  intros H. destruct H as [| c t t' Hc _ | R R' t t' HR HR' FR FR' _ _ _].
  - reflexivity.
  - cbn [RunInvDefs.snext_t]. reflexivity.
  - destruct R as [|r R]; [congruence|]. destruct R' as [|r' R']; [congruence|].
    cbn [forallb] in FR, FR'. apply andb_true_iff in FR. apply andb_true_iff in FR'.
    cbn [app RunInvDefs.snext_t]. destruct FR as [-> _], FR' as [-> _]. reflexivity.
Qed.

Lemma srel_snext x x' : srel x x' -> snext x = snext x'.
Proof. intros (H & _). apply RS_snext, H. Qed.

Lemma surv_app kd a b : surv kd (a ++ b) = surv kd a ++ surv kd b.
Proof. unfold RunInvDefs.surv. destruct kd; [apply filter_app | reflexivity]. Qed.

Lemma surv_flat_map {A} kd (f : A -> list (st * caps)) l :
  surv kd (flat_map f l) = flat_map (fun a => surv kd (f a)) l.
Proof.
  induction l as [|a l IH]; cbn [flat_map]; [destruct kd; reflexivity|].
  rewrite surv_app, IH. reflexivity.
Qed.

Lemma surv_nil kd : surv kd [] = [].
Proof. destruct kd; reflexivity. Qed.

Lemma Forall2_flat_map {A B C D} (P : A -> B -> Prop) (Q : C -> D -> Prop) f g l l' :
  Forall2 P l l' -> (forall a b, P a b -> Forall2 Q (f a) (g b)) -> Forall2 Q (flat_map f l) (flat_map g l').
Proof.
  induction 1 as [|a b l l' Hab _ IH]; intros Hf; cbn [flat_map]; [constructor|].
  apply Forall2_app; [apply Hf, Hab | apply IH, Hf].
Qed.

(* results related, and a consistent filter *)
Lemma surv_rel kd l l' : Forall2 rrel l l' -> Forall2 rrel (surv kd l) (surv kd l').
Proof.
  destruct kd; [|auto]. cbn [RunInvDefs.surv].
  induction 1 as [|a b l l' Hab _ IH]; cbn [filter]; [constructor|].
  rewrite (srel_snext _ _ Hab). destruct (negb (snext (fst b))); [constructor; assumption | exact IH].
Qed.

(* a single unmoved state *)
Lemma single_rel kd x x' c c' : srel x x' -> Forall2 rrel (surv kd [(x, c)]) (surv kd [(x', c')]).
Proof. intros H. apply surv_rel. constructor; [exact H | constructor]. Qed.

(* ---- stuck: from a state whose next character is in S nothing moves ---------------------------------- *)
Definition unmoved (y : st) (l : list (st * caps)) : Prop := Forall (fun xc => rest (fst xc) = rest y) l.

Lemma iter_unmoved (body : st -> caps -> list (st * caps)) :
  (forall y c, snext y = true -> unmoved y (body y c)) ->
  forall g lo hi fuel count y c, snext y = true -> unmoved y (iter body g lo hi fuel count y c).
Proof.
  intros Hb g lo hi fuel. induction fuel as [|f IH]; intros count y c Hy; cbn [iter].
  - destruct g; [rewrite app_nil_l | rewrite app_nil_r]; destruct (Nat.leb lo count); repeat constructor.
  - assert (Hstop : unmoved y (if Nat.leb lo count then [(y, c)] else []))
      by (destruct (Nat.leb lo count); repeat constructor).
    assert (Hmore : unmoved y (if match hi with Some h => Nat.ltb count h | None => true end
                               then flat_map (fun xc => iter body g lo hi f (Datatypes.S count) (fst xc) (snd xc)) (body y c)
                               else [])).
    { destruct (match hi with Some h => Nat.ltb count h | None => true end); [|constructor].
      unfold unmoved. apply Forall_forall. intros r Hr. apply in_flat_map in Hr.
      destruct Hr as ([y1 c1] & H1 & H2). cbn [fst snd] in H2.
      pose proof (proj1 (Forall_forall _ _) (Hb y c Hy) _ H1) as E1. cbn [fst] in E1.
      assert (Hy1 : snext y1 = true) by (unfold RunInvDefs.snext in *; rewrite E1; exact Hy).
      pose proof (proj1 (Forall_forall _ _) (IH (Datatypes.S count) y1 c1 Hy1) _ H2) as E2. congruence. }
    destruct g; apply Forall_app; split; assumption.
Qed.

Lemma stuck_unmoved r : stuck S r = true -> forall y c, snext y = true -> unmoved y (ends lower r y c).
Proof.
  induction r as [| s | a IHa b IHb | a IHa b IHb | g lo hi r IH | n r IH | n | neg r IH
                 | neg s | w | ]; intros Hs y c Hy; cbn [stuck ends] in *.
  - repeat constructor.
  - unfold RunInvDefs.snext, RunInvDefs.snext_t in Hy. destruct (rest y) as [|ch tl] eqn:E; [constructor|].
    destruct (cmem ch s) eqn:M; [|constructor].
    apply (cdisjoint_sound s S Hs) in M. unfold RunInvDefs.inS in Hy. congruence.
  - apply andb_true_iff in Hs. destruct Hs as [Ha Hb].
    unfold unmoved. apply Forall_forall. intros res Hr. apply in_flat_map in Hr.
    destruct Hr as ([y1 c1] & H1 & H2). cbn [fst snd] in H2.
    pose proof (proj1 (Forall_forall _ _) (IHa Ha y c Hy) _ H1) as E1. cbn [fst] in E1.
    apply orb_true_iff in Hb. destruct Hb as [Hw | Hb].
    + exfalso. apply Nat.leb_le in Hw. apply (ends_adv lower) in H1. apply adv_length in H1. rewrite E1 in H1. lia.
    + assert (Hy1 : snext y1 = true) by (unfold RunInvDefs.snext in *; rewrite E1; exact Hy).
      pose proof (proj1 (Forall_forall _ _) (IHb Hb y1 c1 Hy1) _ H2) as E2. congruence.
  - apply andb_true_iff in Hs. destruct Hs as [Ha Hb]. apply Forall_app. split; [apply IHa | apply IHb]; assumption.
  - apply iter_unmoved; [|exact Hy]. intros. apply IH; assumption.
  - unfold unmoved. apply Forall_forall. intros res Hr. apply in_map_iff in Hr.
    destruct Hr as ([y1 c1] & E & H1). subst res. cbn [fst].
    exact (proj1 (Forall_forall _ _) (IH Hs y c Hy) _ H1).
  - discriminate.
  - destruct (ends lower r y c), neg; repeat constructor.
  - destruct (Bool.eqb _ _); repeat constructor.
  - destruct (xorb _ _); repeat constructor.
  - destruct (at_end (rest y)); repeat constructor.
Qed.


(* ---- a dead continuation ------------------------------------------------------------------------------ *)
Lemma ds_dead b kd : ds S b kd = true -> forall y c, snext y = true -> surv kd (ends lower b y c) = [].
Proof.
  unfold ds. intros H y c Hy. apply andb_true_iff in H. destruct H as [Hs Hk].
  pose proof (stuck_unmoved b Hs y c Hy) as U.
  destruct kd.
  - cbn [RunInvDefs.surv]. induction U as [|xc l Hx _ IH]; [reflexivity|]. cbn [filter].
    unfold RunInvDefs.snext in *. rewrite Hx, Hy. exact IH.
  - cbn [orb] in Hk. apply Nat.leb_le in Hk. cbn [RunInvDefs.surv].
    destruct (ends lower b y c) as [|[y1 c1] l] eqn:E; [reflexivity|]. exfalso.
    assert (Hin : In (y1, c1) (ends lower b y c)) by (rewrite E; left; reflexivity).
    apply (ends_adv lower) in Hin. apply adv_length in Hin.
    inversion U as [|? ? Hx _]; subst. cbn [fst] in Hx. rewrite Hx in Hin. lia.
Qed.

(* ---- repeats of one atom --------------------------------------------------------------------------------- *)
Definition abody (s : cset) : st -> caps -> list (st * caps) := ends lower (Atom s).

Lemma iter_body_nil body g lo hi fuel count x c :
  body x c = [] -> iter body g lo hi fuel count x c = (if Nat.leb lo count then [(x, c)] else []).
Proof.
  intros Hb. destruct fuel as [|f]; cbn [iter]; rewrite ?Hb; cbn [flat_map];
    destruct (match hi with Some h => Nat.ltb count h | None => true end); destruct g;
    rewrite ?app_nil_l, ?app_nil_r; reflexivity.
Qed.

Lemma iter_atom_step s g lo f count p ch t c : cmem ch s = true ->
  iter (abody s) g lo None (Datatypes.S f) count (mkSt p (ch :: t)) c =
  (if g then iter (abody s) g lo None f (Datatypes.S count) (mkSt (Some ch) t) c
             ++ (if Nat.leb lo count then [(mkSt p (ch :: t), c)] else [])
   else (if Nat.leb lo count then [(mkSt p (ch :: t), c)] else [])
          ++ iter (abody s) g lo None f (Datatypes.S count) (mkSt (Some ch) t) c).
Proof.
  intros M. change (iter (abody s) g lo None (Datatypes.S f) count (mkSt p (ch :: t)) c) with
    (let stop := if Nat.leb lo count then [(mkSt p (ch :: t), c)] else [] in
     let more := flat_map (fun xc => iter (abody s) g lo None f (Datatypes.S count) (fst xc) (snd xc))
                          (abody s (mkSt p (ch :: t)) c) in
     if g then more ++ stop else stop ++ more).
  unfold abody at 2. cbn [ends rest]. rewrite M. cbn [flat_map fst snd]. rewrite app_nil_r. reflexivity.
Qed.

Lemma RS_head t t' : RS t t' ->
  match t, t' with
  | [], [] => True
  | c :: _, c' :: _ => (c = c' /\ inS c = false) \/ (inS c = true /\ inS c' = true)
  | _, _ => False
  end.
Proof.
  intros H. destruct H as [| c t t' Hc _ | R R' t t' HR HR' FR FR' _ _ _]; [exact I | left; auto |].
  destruct R as [|r R]; [congruence|]. destruct R' as [|r' R']; [congruence|].
  cbn [forallb] in FR, FR'. apply andb_true_iff in FR. apply andb_true_iff in FR'. right. tauto.
Qed.

Lemma disjoint_notin d ch : cdisjoint d S = true -> inS ch = true -> cmem ch d = false.
Proof.
  intros Hd Hc. destruct (cmem ch d) eqn:M; [|reflexivity].
  apply (cdisjoint_sound d S Hd) in M. unfold RunInvDefs.inS in Hc. congruence.
Qed.

(* D-star: the atom is disjoint from S *)
Lemma dstar_sim d g lo : cdisjoint d S = true ->
  forall t t', RS t t' -> forall fuel fuel' count p p' c c',
    length t <= fuel -> length t' <= fuel' -> prel p p' ->
    interior (mkSt p t) = false -> interior (mkSt p' t') = false ->
    Forall2 rrel (iter (abody d) g lo None fuel count (mkSt p t) c)
                 (iter (abody d) g lo None fuel' count (mkSt p' t') c').
Proof.
  intros Hd t t' H. induction H as [| ch t t' Hc Ht IH | R R' t t' HR HR' FR FR' Hn Hn' Ht IH];
    intros fuel fuel' count p p' c c' Hf Hf' Hp Hi Hi'.
  - rewrite !iter_body_nil by reflexivity.
    destruct (Nat.leb lo count); [|constructor]. constructor; [|constructor].
    repeat split; cbn [fst rest prev]; [constructor | exact Hp | exact Hi | exact Hi'].
  - destruct (cmem ch d) eqn:M.
    + destruct fuel as [|f]; [cbn [length] in Hf; lia|]. destruct fuel' as [|f']; [cbn [length] in Hf'; lia|].
      rewrite !iter_atom_step by exact M.
      assert (Hstop : Forall2 rrel (if Nat.leb lo count then [(mkSt p (ch :: t), c)] else [])
                                   (if Nat.leb lo count then [(mkSt p' (ch :: t'), c')] else [])).
      { destruct (Nat.leb lo count); [|constructor]. constructor; [|constructor].
        repeat split; cbn [fst rest prev]; [constructor; assumption | exact Hp | exact Hi | exact Hi']. }
      assert (Hmore : Forall2 rrel (iter (abody d) g lo None f (Datatypes.S count) (mkSt (Some ch) t) c)
                                   (iter (abody d) g lo None f' (Datatypes.S count) (mkSt (Some ch) t') c')).
      { apply IH; cbn [length] in *; try lia; [left; reflexivity | |];
          unfold RunInvDefs.interior; cbn [prev mem_opt]; unfold RunInvDefs.inS in Hc; rewrite Hc; reflexivity. }
      destruct g; apply Forall2_app; assumption.
    + assert (B : forall q u k, abody d (mkSt q (ch :: u)) k = []) by (intros; unfold abody; cbn [ends rest]; rewrite M; reflexivity).
      rewrite !iter_body_nil by apply B.
      destruct (Nat.leb lo count); [|constructor]. constructor; [|constructor].
      repeat split; cbn [fst rest prev]; [constructor; assumption | exact Hp | exact Hi | exact Hi'].
  - destruct R as [|r R]; [congruence|]. destruct R' as [|r' R']; [congruence|].
    cbn [forallb] in FR, FR'. apply andb_true_iff in FR. apply andb_true_iff in FR'.
    assert (B : forall q k, abody d (mkSt q ((r :: R) ++ t)) k = []).
    { intros. unfold abody. cbn [ends rest app]. rewrite (disjoint_notin d r Hd (proj1 FR)). reflexivity. }
    assert (B' : forall q k, abody d (mkSt q ((r' :: R') ++ t')) k = []).
    { intros. unfold abody. cbn [ends rest app]. rewrite (disjoint_notin d r' Hd (proj1 FR')). reflexivity. }
    rewrite iter_body_nil by apply B. rewrite iter_body_nil by apply B'.
    destruct (Nat.leb lo count); [|constructor]. constructor; [|constructor].
    repeat split; cbn [fst rest prev]; [| exact Hp | exact Hi | exact Hi'].
    apply RS_run; auto; cbn [forallb]; apply andb_true_iff; assumption.
Qed.


(* S-star: the atom is the set S itself and the continuation is dead: only the end of the run survives *)
Lemma isS_mem s ch : isS S s = true -> cmem ch s = inS ch.
Proof.
  unfold RunInvDefs.isS, RunInvDefs.inS. intros H. apply andb_true_iff in H. destruct H as [H1 H2].
  destruct (cmem ch s) eqn:A.
  - symmetry. exact (csubset_sound _ _ H1 ch A).
  - destruct (cmem ch S) eqn:B; [|reflexivity]. rewrite (csubset_sound _ _ H2 ch B) in A. discriminate.
Qed.

Lemma surv_true_stop lo count x c :
  surv true (if Nat.leb lo count then [(x, c)] else []) =
  (if Nat.leb lo count && negb (snext x) then [(x, c)] else []).
Proof.
  cbn [RunInvDefs.surv]. destruct (Nat.leb lo count); cbn [filter andb fst]; [|reflexivity].
  destruct (negb (snext x)); reflexivity.
Qed.

Lemma sstar_run s g lo : isS S s = true ->
  forall R t, forallb inS R = true -> snext_t t = false ->
  forall fuel count p c, length R <= fuel ->
    surv true (iter (abody s) g lo None fuel count (mkSt p (R ++ t)) c) =
    (if Nat.leb lo (count + length R) then [(mkSt (push_prev p R) t, c)] else []).
Proof.
  intros Hs R t HR Ht. induction R as [|r R IH]; intros fuel count p c Hf.
  - cbn [app length push_prev fold_left]. rewrite Nat.add_0_r.
    assert (B : abody s (mkSt p t) c = []).
    { unfold abody. cbn [ends rest]. destruct t as [|ch t]; [reflexivity|].
      rewrite (isS_mem s ch Hs). cbn [RunInvDefs.snext_t] in Ht. rewrite Ht. reflexivity. }
    rewrite (iter_body_nil _ g lo None fuel count _ c B). rewrite surv_true_stop.
    unfold RunInvDefs.snext. cbn [rest]. rewrite Ht. cbn [negb]. rewrite andb_true_r. reflexivity.
  - cbn [forallb] in HR. apply andb_true_iff in HR. destruct HR as [Hr HR].
    destruct fuel as [|f]; [cbn [length] in Hf; lia|]. cbn [app].
    assert (M : cmem r s = true) by (rewrite (isS_mem s r Hs); exact Hr).
    rewrite (iter_atom_step s g lo f count p r (R ++ t) c M).
    assert (E : surv true (if Nat.leb lo count then [(mkSt p (r :: R ++ t), c)] else []) = []).
    { rewrite surv_true_stop. unfold RunInvDefs.snext. cbn [rest RunInvDefs.snext_t]. rewrite Hr.
      cbn [negb]. rewrite andb_false_r. reflexivity. }
    cbn [length] in Hf.
    destruct g; cbv iota; rewrite surv_app; unfold result; rewrite E, ?app_nil_r, ?app_nil_l; rewrite (IH HR f (Datatypes.S count) (Some r) c) by lia;
      cbn [length push_prev fold_left]; replace (Datatypes.S count + length R) with (count + Datatypes.S (length R)) by lia;
      reflexivity.
Qed.

Lemma push_prev_inS p R : R <> [] -> forallb inS R = true -> mem_opt (push_prev p R) S = true.
Proof.
  revert p. induction R as [|r R IH]; intros p Hn HR; [congruence|].
  cbn [forallb] in HR. apply andb_true_iff in HR. destruct HR as [Hr HR]. cbn [push_prev fold_left].
  destruct R as [|r2 R]; [cbn [fold_left mem_opt]; exact Hr|]. apply (IH (Some r)); [congruence | exact HR].
Qed.

Lemma sstar_sim s g lo : isS S s = true -> lo <= 1 ->
  forall x x' c c', srel x x' ->
    Forall2 rrel (surv true (ends lower (Rep g lo None (Atom s)) x c))
                 (surv true (ends lower (Rep g lo None (Atom s)) x' c')).
Proof.
  intros Hs Hlo [p t] [p' t'] c c' (Ht & Hp & Hi & Hi'). cbn [rest prev] in Ht, Hp.
  change (ends lower (Rep g lo None (Atom s))) with (fun x c => iter (abody s) g lo None (rep_fuel None x) 0 x c).
  cbv beta. unfold rep_fuel. cbn [rest].
  destruct Ht as [| ch t t' Hc Ht | R R' t t' HR HR' FR FR' Hn Hn' Ht].
  - pose proof (sstar_run s g lo Hs [] [] eq_refl eq_refl (Datatypes.S (length (@nil N))) 0 p c ltac:(cbn [length]; lia)) as E1.
    pose proof (sstar_run s g lo Hs [] [] eq_refl eq_refl (Datatypes.S (length (@nil N))) 0 p' c' ltac:(cbn [length]; lia)) as E2.
    cbn [app] in E1, E2. rewrite E1, E2.
    cbn [length push_prev fold_left Nat.add]. destruct (Nat.leb lo 0); [|constructor]. constructor; [|constructor].
    repeat split; cbn [fst rest prev]; [constructor | exact Hp | exact Hi | exact Hi'].
  - assert (Hq : forall u, snext_t (ch :: u) = false) by (intros; exact Hc).
    pose proof (sstar_run s g lo Hs [] (ch :: t) eq_refl (Hq t) (Datatypes.S (length (ch :: t))) 0 p c ltac:(cbn [length]; lia)) as E1.
    pose proof (sstar_run s g lo Hs [] (ch :: t') eq_refl (Hq t') (Datatypes.S (length (ch :: t'))) 0 p' c' ltac:(cbn [length]; lia)) as E2.
    cbn [app] in E1, E2. rewrite E1, E2.
    cbn [length push_prev fold_left Nat.add]. destruct (Nat.leb lo 0); [|constructor]. constructor; [|constructor].
    repeat split; cbn [fst rest prev]; [constructor; assumption | exact Hp | exact Hi | exact Hi'].
  - pose proof (sstar_run s g lo Hs R t FR Hn (Datatypes.S (length (R ++ t))) 0 p c ltac:(rewrite app_length; lia)) as E1.
    pose proof (sstar_run s g lo Hs R' t' FR' Hn' (Datatypes.S (length (R' ++ t'))) 0 p' c' ltac:(rewrite app_length; lia)) as E2.
    rewrite E1, E2. cbn [Nat.add].
    assert (L : Nat.leb lo (length R) = true) by (apply Nat.leb_le; destruct R; [congruence | cbn [length]; lia]).
    assert (L' : Nat.leb lo (length R') = true) by (apply Nat.leb_le; destruct R'; [congruence | cbn [length]; lia]).
    rewrite L, L'. constructor; [|constructor].
    repeat split; cbn [fst rest prev]; [exact Ht | right; split; apply push_prev_inS; assumption | |];
      unfold RunInvDefs.interior, RunInvDefs.snext; cbn [rest]; rewrite ?Hn, ?Hn'; apply andb_false_r.
Qed.


(* ---- the simulation --------------------------------------------------------------------------------------- *)
Lemma dstar_ends d g lo : cdisjoint d S = true -> forall x x' c c', srel x x' ->
  Forall2 rrel (ends lower (Rep g lo None (Atom d)) x c) (ends lower (Rep g lo None (Atom d)) x' c').
Proof.
  intros Hd [p t] [p' t'] c c' (Ht & Hp & Hi & Hi'). cbn [rest prev] in Ht, Hp.
  change (ends lower (Rep g lo None (Atom d))) with (fun x c => iter (abody d) g lo None (rep_fuel None x) 0 x c).
  cbv beta. unfold rep_fuel. cbn [rest]. apply (dstar_sim d g lo Hd t t' Ht); auto.
Qed.

Lemma flat_map_filter_dead {A B} (f : A -> list B) (q : A -> bool) l :
  (forall a, q a = false -> f a = []) -> flat_map f (filter q l) = flat_map f l.
Proof.
  intros H. induction l as [|a l IH]; [reflexivity|]. cbn [filter flat_map].
  destruct (q a) eqn:Q; cbn [flat_map]; rewrite IH; [reflexivity|]. rewrite (H a Q). reflexivity.
Qed.

Lemma iter_opt (body : st -> caps -> list (st * caps)) g x c :
  iter body g 0 (Some 1) 1 0 x c = if g then body x c ++ [(x, c)] else [(x, c)] ++ body x c.
Proof.
  cbn [iter Nat.leb Nat.ltb].
  assert (E : flat_map (fun xc : st * caps => if g then [] ++ [(fst xc, snd xc)] else [(fst xc, snd xc)] ++ [])
                       (body x c) = body x c).
  { induction (body x c) as [|[y cy] l IH]; [reflexivity|]. cbn [flat_map fst snd]. rewrite IH.
    destruct g; reflexivity. }
  unfold result in *. rewrite E. reflexivity.
Qed.

Lemma surv_map_fst kd (f : st * caps -> st * caps) l :
  (forall xc, fst (f xc) = fst xc) -> surv kd (map f l) = map f (surv kd l).
Proof.
  intros H. destruct kd; [|reflexivity]. cbn [RunInvDefs.surv].
  induction l as [|a l IH]; [reflexivity|]. cbn [map filter]. rewrite H.
  destruct (negb (snext (fst a))); cbn [map]; rewrite IH; reflexivity.
Qed.

Lemma rrel_map_fst (f f' : st * caps -> st * caps) l l' :
  (forall xc, fst (f xc) = fst xc) -> (forall xc, fst (f' xc) = fst xc) ->
  Forall2 rrel l l' -> Forall2 rrel (map f l) (map f' l').
Proof.
  intros H H'. induction 1 as [|a b l l' Hab _ IH]; cbn [map]; constructor; [|exact IH].
  unfold RunInvDefs.rrel in *. rewrite H, H'. exact Hab.
Qed.

Lemma prel_mem s p p' : cdisjoint s S || csubset S s = true -> prel p p' -> mem_opt p s = mem_opt p' s.
Proof.
  intros Hs [-> | [H1 H2]]; [reflexivity|].
  destruct p as [a|]; [|discriminate]. destruct p' as [b|]; [|discriminate]. cbn [mem_opt] in *.
  apply orb_true_iff in Hs. destruct Hs as [Hd | Hsub].
  - rewrite (disjoint_notin s a Hd H1), (disjoint_notin s b Hd H2). reflexivity.
  - rewrite (csubset_sound _ _ Hsub a H1), (csubset_sound _ _ Hsub b H2). reflexivity.
Qed.

Lemma atom_sim d : cdisjoint d S = true -> forall x x' c c', srel x x' ->
  Forall2 rrel (ends lower (Atom d) x c) (ends lower (Atom d) x' c').
Proof.
  intros Hd [p t] [p' t'] c c' (Ht & Hp & Hi & Hi'). cbn [rest prev] in Ht, Hp. cbn [ends rest].
  destruct Ht as [| ch t t' Hc Ht | R R' t t' HR HR' FR FR' Hn Hn' Ht].
  - constructor.
  - destruct (cmem ch d); [|constructor]. constructor; [|constructor].
    repeat split; cbn [fst rest prev]; [exact Ht | left; reflexivity | |];
      unfold RunInvDefs.interior; cbn [prev mem_opt]; unfold RunInvDefs.inS in Hc; rewrite Hc; reflexivity.
  - destruct R as [|r R]; [congruence|]. destruct R' as [|r' R']; [congruence|].
    cbn [forallb] in FR, FR'. apply andb_true_iff in FR. apply andb_true_iff in FR'. cbn [app].
    rewrite (disjoint_notin d r Hd (proj1 FR)), (disjoint_notin d r' Hd (proj1 FR')). constructor.
Qed.

Theorem good_sim r : forall kd, good S kd r = true -> forall x x' c c', srel x x' ->
  Forall2 rrel (surv kd (ends lower r x c)) (surv kd (ends lower r x' c')).
Proof.
  induction r as [| d | a IHa b IHb | a IHa b IHb | g lo hi a IH | n a IH | n | neg a IH
                 | neg s | w | ]; intros kd Hg x x' c c' Hx; cbn [good] in Hg.
  - apply single_rel, Hx.
  - apply surv_rel, atom_sim; assumption.
  - apply andb_true_iff in Hg. destruct Hg as [Ha Hb]. cbn [ends]. rewrite !surv_flat_map.
    assert (Hdead : forall y cy, negb (snext y) = false -> surv kd (ends lower b y cy) = [] -> True) by auto.
    assert (E : forall z cz, flat_map (fun a0 => surv kd (ends lower b (fst a0) (snd a0))) (ends lower a z cz)
                           = flat_map (fun a0 => surv kd (ends lower b (fst a0) (snd a0)))
                                      (surv (ds S b kd) (ends lower a z cz))).
    { intros z cz. destruct (ds S b kd) eqn:D; [|reflexivity]. cbn [RunInvDefs.surv]. symmetry.
      apply flat_map_filter_dead. intros [y cy] Hy. cbn [fst snd] in *.
      apply (ds_dead b kd D). destruct (snext y); [reflexivity | discriminate]. }
    rewrite (E x c), (E x' c').
    apply (Forall2_flat_map rrel rrel) with (1 := IHa _ Ha x x' c c' Hx).
    intros [y cy] [y' cy'] Hy. cbn [fst snd]. apply (IHb kd Hb). exact Hy.
  - apply andb_true_iff in Hg. destruct Hg as [Ha Hb]. cbn [ends]. rewrite !surv_app.
    apply Forall2_app; [apply IHa | apply IHb]; assumption.
  - destruct hi as [[|[|h]]|].
    + discriminate.
    + apply andb_true_iff in Hg. destruct Hg as [Hl Ha]. apply Nat.eqb_eq in Hl. subst lo.
      change (ends lower (Rep g 0 (Some 1) a)) with (fun x c => iter (ends lower a) g 0 (Some 1) 1 0 x c).
      cbv beta. rewrite !iter_opt. destruct g; rewrite !surv_app;
        (apply Forall2_app; [|]); try (apply IH; assumption); apply single_rel, Hx.
    + discriminate.
    + destruct a as [| s | | | | | | | | | ]; try discriminate.
      apply orb_true_iff in Hg. destruct Hg as [Hd | Hs].
      * apply surv_rel, dstar_ends; assumption.
      * apply andb_true_iff in Hs. destruct Hs as [Hs Hlo]. apply andb_true_iff in Hs. destruct Hs as [Hs Hk].
        subst kd. apply Nat.leb_le in Hlo. apply sstar_sim; assumption.
  - cbn [ends]. rewrite !surv_map_fst by reflexivity. apply rrel_map_fst; try reflexivity. apply IH; assumption.
  - discriminate.
  - pose proof (IH false Hg x x' c c' Hx) as H. cbn [RunInvDefs.surv] in H. cbn [ends].
    destruct (ends lower a x c) as [|r1 l1]; destruct (ends lower a x' c') as [|r2 l2]; try (inversion H; fail);
      destruct neg; try (rewrite !surv_nil; constructor); apply single_rel, Hx.
  - cbn [ends]. destruct Hx as (Ht & Hp & Hi & Hi'). rewrite (prel_mem s _ _ Hg Hp).
    destruct (Bool.eqb (mem_opt (prev x') s) (negb neg)); [|rewrite !surv_nil; constructor].
    apply single_rel. repeat split; assumption.
  - cbn [ends]. destruct Hx as (Ht & Hp & Hi & Hi').
    assert (Hw : cdisjoint w S || csubset S w = true) by (rewrite Hg; reflexivity).
    rewrite (prel_mem w _ _ Hw Hp).
    assert (Hb : match rest x with ch :: _ => cmem ch w | [] => false end
               = match rest x' with ch :: _ => cmem ch w | [] => false end).
    { pose proof (RS_head _ _ Ht) as Hh. destruct (rest x) as [|ch t]; destruct (rest x') as [|ch' t']; try tauto.
      destruct Hh as [[-> _] | [H1 H2]]; [reflexivity|].
      rewrite (disjoint_notin w ch Hg H1), (disjoint_notin w ch' Hg H2). reflexivity. }
    rewrite Hb. cbv zeta.
    destruct (xorb _ _); [|rewrite !surv_nil; constructor]. apply single_rel. repeat split; assumption.
  - discriminate.
Qed.

End Facts.
