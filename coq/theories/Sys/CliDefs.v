(* Executable model of the command line front end `sqlformat` (sqlparse/cli.py):

   1. the subset of CPython 3.12 argparse that `create_parser()` uses: classification of the argument
      strings (_parse_optional / _get_option_tuples: exact option strings, `--opt=value`, unique prefixes
      of long options, `-xVALUE`, clusters of single-dash flags `-ra`, negative-number-like strings, `--`),
      the alternation of positionals and optionals of _parse_known_args for ONE positional, the actions
      store / store_true / help / version, `type=` absent / int / bool, `choices=`, every usage error as
      SystemExit(2), help/version as SystemExit(0);
   2. `main()`: input from stdin or a file decoded with an encoding (universal newlines where the open mode
      has them), the output channel, validate_options(vars(args)), format(data, **options), encoding of the
      result; the three `_error` exits and every exception that escapes.

   The parser declarations and the open modes are DATA (Gen/CliTab.v, regenerated from cli.py on every run);
   `format`, the file system, stdin and the codecs other than UTF-8 / Latin-1 are parameters.
   Definitions only; the facts are in CliFacts.v. *)
From Coq Require Import ZArith.
From SqlModel Require Import Base PyStr Utf8.
From SqlModel.Filters Require Import OptDefs.
From SqlModel.Sys Require Import CliTypes.
From SqlModel.Gen Require OptTab CliTab.
Local Open Scope N_scope.

(* ---- outcomes ---------------------------------------------------------------------------------- *)
Inductive cexn :=
| XPy (e : pyexn)            (* the exception classes of the option model (Base.exn + OverflowError, KeyError) *)
| XUnicodeEncodeError.

Inductive cres (A : Type) :=
| COk (a : A)
| CExit (code : N)           (* SystemExit(code): argparse's error() -> 2, help/version -> 0 *)
| CRaise (e : cexn).
Arguments COk {A} a.
Arguments CExit {A} code.
Arguments CRaise {A} e.

Definition cbind {A B} (m : cres A) (f : A -> cres B) : cres B :=
  match m with COk a => f a | CExit c => CExit c | CRaise e => CRaise e end.
Notation "x <= m ;;; k" := (cbind m (fun x => k)) (at level 61, m at next level, right associativity).

(* ---- strings ------------------------------------------------------------------------------------ *)
Definition c_dash : N := 45.
Definition s_dashdash : text := [45; 45].

(* s.startswith(p) *)
Fixpoint starts_with (p s : text) : bool :=
  match p, s with
  | [], _ => true
  | a :: p', b :: s' => N.eqb a b && starts_with p' s'
  | _ :: _, [] => false
  end.

(* s.split('=', 1) when '=' occurs in s *)
Fixpoint split_eq (s : text) : option (text * text) :=
  match s with
  | [] => None
  | c :: r =>
      if c =? 61 then Some ([], r)
      else match split_eq r with Some (a, b) => Some (c :: a, b) | None => None end
  end.

(* ---- the option strings of a parser ------------------------------------------------------------- *)
(* parser._option_string_actions, in insertion order *)
Definition all_flags (args : list cli_arg) : list (text * cli_arg) :=
  flat_map (fun a => map (fun f => (f, a)) (ca_flags a)) args.

Fixpoint assoc_flag (l : list (text * cli_arg)) (s : text) : option cli_arg :=
  match l with
  | [] => None
  | (f, a) :: r => if text_eqb f s then Some a else assoc_flag r s
  end.

Definition find_flag (args : list cli_arg) (s : text) : option cli_arg := assoc_flag (all_flags args) s.

(* number of argument strings an action consumes: nargs=None -> 1 for store; 0 for the others *)
Definition takes_value (a : cli_arg) : bool :=
  match ca_action a with ActStore => true | _ => false end.

(* ---- _negative_number_matcher = '^-\d+$|^-\d*\.\d+$'  (\d: Unicode decimal digits; `$` also matches
        before one final newline) --------------------------------------------------------------------- *)
Definition is_digit (cfg : int_cfg) (c : N) : bool :=
  match ufind c (ic_digit cfg) with Some _ => true | None => false end.

Fixpoint skip_digits (cfg : int_cfg) (s : text) : text :=
  match s with
  | c :: r => if is_digit cfg c then skip_digits cfg r else s
  | [] => []
  end.

Definition starts_digit (cfg : int_cfg) (s : text) : bool :=
  match s with c :: _ => is_digit cfg c | [] => false end.

Definition at_end (s : text) : bool :=
  match s with [] => true | c :: [] => c =? 10 | _ => false end.

Definition neg_number (cfg : int_cfg) (s : text) : bool :=
  match s with
  | c :: r =>
      (c =? 45) &&
      ((starts_digit cfg r && at_end (skip_digits cfg r))
       || match skip_digits cfg r with
          | d :: r2 => (d =? 46) && starts_digit cfg r2 && at_end (skip_digits cfg r2)
          | [] => false
          end)
  | [] => false
  end.

(* ---- classification of one argument string: ArgumentParser._parse_optional ---------------------- *)
Inductive klass :=
| KArg                                                   (* 'A' *)
| KDD                                                    (* the first '--' *)
| KOpt (a : cli_arg) (optstr : text) (expl : option text) (* 'O': action, option string, explicit argument *)
| KUnknown                                               (* 'O' with no action: goes to `extras` *)
| KAmbig.                                                (* error('ambiguous option: ...') *)

(* _get_option_tuples *)
Definition option_tuples (abbrev : bool) (args : list cli_arg) (s : text) : list (cli_arg * text * option text) :=
  match s with
  | _ :: c2 :: rest =>
      if c2 =? 45 then
        (* two prefix characters: only split at '='; unique prefixes are accepted when allow_abbrev *)
        if abbrev then
          let '(p, e) := match split_eq s with Some (o, e) => (o, Some e) | None => (s, None) end in
          flat_map (fun fa => if starts_with p (fst fa) then [(snd fa, fst fa, e)] else []) (all_flags args)
        else []
      else
        (* one prefix character: `-xVALUE`, or a prefix of a longer single-dash option string *)
        let short := firstn 2 s in
        flat_map (fun fa =>
                    if text_eqb (fst fa) short then [(snd fa, fst fa, Some rest)]
                    else if starts_with s (fst fa) then [(snd fa, fst fa, None)]
                    else []) (all_flags args)
  | _ => []
  end.

Definition classify (cfg : int_cfg) (abbrev : bool) (args : list cli_arg) (s : text) : klass :=
  match s with
  | [] => KArg
  | c :: r =>
      if negb (c =? 45) then KArg
      else
        match find_flag args s with
        | Some a => KOpt a s None
        | None =>
            match r with
            | [] => KArg                       (* a single '-' *)
            | _ :: _ =>
                let direct :=
                  match split_eq s with
                  | Some (o, e) => match find_flag args o with Some a => Some (KOpt a o (Some e)) | None => None end
                  | None => None
                  end in
                match direct with
                | Some k => k
                | None =>
                    match option_tuples abbrev args s with
                    | _ :: _ :: _ => KAmbig
                    | [(a, o, e)] => KOpt a o e
                    | [] =>
                        if neg_number cfg s then KArg
                        else if existsb (N.eqb 32) s then KArg
                        else KUnknown
                    end
                end
            end
        end
  end.

(* the first pass of _parse_known_args: everything after the first '--' is an argument *)
Fixpoint classify_all (cfg : int_cfg) (abbrev : bool) (args : list cli_arg) (argv : list text)
  : list (text * klass) :=
  match argv with
  | [] => []
  | s :: r =>
      if text_eqb s s_dashdash then (s, KDD) :: map (fun x => (x, KArg)) r
      else (s, classify cfg abbrev args s) :: classify_all cfg abbrev args r
  end.

Definition is_ambig (k : text * klass) : bool := match snd k with KAmbig => true | _ => false end.

(* ---- the namespace ------------------------------------------------------------------------------- *)
(* parse_known_args: `for action in self._actions: if not hasattr(namespace, dest): setattr(dest, default)` *)
Fixpoint ns_init (args : list cli_arg) (ns : opts) : opts :=
  match args with
  | [] => ns
  | a :: r =>
      match ca_default a with
      | Some d => match ofind ns (ca_dest a) with
                  | None => ns_init r (oset ns (ca_dest a) d)
                  | Some _ => ns_init r ns
                  end
      | None => ns_init r ns
      end
  end.

Definition ns_default (args : list cli_arg) : opts := ns_init args [].

Fixpoint first_positional (args : list cli_arg) : option cli_arg :=
  match args with
  | [] => None
  | a :: r => match ca_flags a with [] => Some a | _ => first_positional r end
  end.

(* ---- _get_values / _get_value / _check_value for one argument string ---------------------------- *)
Definition convert (cfg : int_cfg) (a : cli_arg) (s : text) : option pval :=
  match ca_type a with
  | TyNone => Some (PStr s)
  | TyInt => match int_of_str cfg s with Some z => Some (PInt z) | None => None end
  | TyBool => Some (PBool (match s with [] => false | _ => true end))       (* bool(str) *)
  end.

Definition choice_ok (a : cli_arg) (v : pval) : bool :=
  match ca_choices a with
  | None => true
  | Some cs => match v with PStr s => existsb (text_eqb s) cs | _ => false end
  end.

(* the value a `store` action sets for the argument string s.
   explicit = the string came glued to the option (`--opt=s`, `-xs`): _get_values removes one '--' from the
   list of argument strings, so the explicit argument '--' leaves the empty list, which becomes the value
   (no conversion, no choices check). *)
Definition store_value (cfg : int_cfg) (a : cli_arg) (explicit : bool) (s : text) : cres pval :=
  if explicit && text_eqb s s_dashdash then COk (POther false)
  else match convert cfg a s with
       | None => CExit 2                                     (* invalid <type> value *)
       | Some v => if choice_ok a v then COk v else CExit 2  (* invalid choice *)
       end.

(* take_action for an action without argument strings *)
Definition take_flag (a : cli_arg) (ns : opts) : cres opts :=
  match ca_action a with
  | ActHelp | ActVersion => CExit 0
  | ActStoreTrue => COk (oset ns (ca_dest a) (PBool true))
  | ActStore => CRaise (XPy (Exn Stuck))                      (* not reached *)
  end.

Fixpoint take_flags (l : list cli_arg) (ns : opts) : cres opts :=
  match l with
  | [] => COk ns
  | a :: r => ns' <= take_flag a ns ;;; take_flags r ns'
  end.

Definition take_store (cfg : int_cfg) (a : cli_arg) (explicit : bool) (s : text) (ns : opts) : cres opts :=
  v <= store_value cfg a explicit s ;;; COk (oset ns (ca_dest a) v).

(* ---- consume_optional: the explicit argument of a single-dash flag is read as more flags -------- *)
Inductive ctail :=
| TVal (a : cli_arg) (v : text)     (* the last action takes the rest of the string as its argument *)
| TNext (a : cli_arg)               (* the last action takes its arguments from the following strings *)
| TErr.                             (* 'ignored explicit argument' (raised before any action is taken) *)

Fixpoint cluster (args : list cli_arg) (a : cli_arg) (o : text) (e : text) : list cli_arg * ctail :=
  if takes_value a then ([], TVal a e)
  else
    match o, e with
    | _ :: c1 :: _, c :: e' =>
        if c1 =? 45 then ([], TErr)
        else
          match find_flag args [45; c] with
          | Some a' =>
              match e' with
              | [] => ([a], TNext a')
              | _ :: _ => let '(l, t) := cluster args a' [45; c] e' in (a :: l, t)
              end
          | None => ([], TErr)
          end
    | _, _ => ([], TErr)
    end.

(* ---- the main loop of _parse_known_args ---------------------------------------------------------- *)
Record pstate := {
  ps_ns : opts;
  ps_pending : option cli_arg;   (* the positional not yet consumed *)
  ps_extras : bool               (* some string went to `extras` *)
}.

Definition st_ns (st : pstate) (ns : opts) : pstate :=
  {| ps_ns := ns; ps_pending := ps_pending st; ps_extras := ps_extras st |}.
Definition st_extra (st : pstate) : pstate :=
  {| ps_ns := ps_ns st; ps_pending := ps_pending st; ps_extras := true |}.
Definition st_positional (cfg : int_cfg) (p : cli_arg) (s : text) (st : pstate) : cres pstate :=
  ns <= take_store cfg p false s (ps_ns st) ;;;
  COk {| ps_ns := ns; ps_pending := None; ps_extras := ps_extras st |}.

Fixpoint run (cfg : int_cfg) (args : list cli_arg) (l : list (text * klass)) (st : pstate) : cres pstate :=
  match l with
  | [] => COk st
  | (s, k) :: r =>
      match k with
      | KAmbig => CExit 2
      | KUnknown => run cfg args r (st_extra st)
      | KArg =>
          match ps_pending st with
          | Some p =>
              st' <= st_positional cfg p s st ;;;
              match r with
              | (_, KDD) :: r' => run cfg args r' st'        (* the positional's pattern (dashes, A, dashes) also eats the '--' *)
              | _ => run cfg args r st'
              end
          | None => run cfg args r (st_extra st)
          end
      | KDD =>
          match ps_pending st, r with
          | Some p, (s', KArg) :: r' => st' <= st_positional cfg p s' st ;;; run cfg args r' st'
          | _, _ => run cfg args r (st_extra st)
          end
      | KOpt a o e =>
          let '(zs, t) := match e with Some e => cluster args a o e | None => ([], TNext a) end in
          match t with
          | TErr => CExit 2
          | TVal a' v =>
              ns1 <= take_flags zs (ps_ns st) ;;;
              ns2 <= take_store cfg a' true v ns1 ;;;
              run cfg args r (st_ns st ns2)
          | TNext a' =>
              if takes_value a' then
                match r with
                | (v, KArg) :: r' =>
                    ns1 <= take_flags zs (ps_ns st) ;;;
                    ns2 <= take_store cfg a' false v ns1 ;;;
                    run cfg args r' (st_ns st ns2)
                | _ => CExit 2                                (* expected one argument *)
                end
              else
                ns1 <= take_flags (zs ++ [a']) (ps_ns st) ;;;
                run cfg args r (st_ns st ns1)
          end
      end
  end.

(* parser.parse_args(argv): the namespace as a dictionary (vars(args)), in attribute order *)
Definition parse_argv (cfg : int_cfg) (abbrev : bool) (args : list cli_arg) (argv : list text) : cres opts :=
  let ks := classify_all cfg abbrev args argv in
  if existsb is_ambig ks then CExit 2
  else
    st <= run cfg args ks {| ps_ns := ns_default args; ps_pending := first_positional args; ps_extras := false |} ;;;
    match ps_pending st with
    | Some _ => CExit 2                                       (* the following arguments are required *)
    | None => if ps_extras st then CExit 2 else COk (ps_ns st)   (* unrecognized arguments *)
    end.

(* ---- codecs --------------------------------------------------------------------------------------- *)
Record xcodec := { xc_dec : list N -> res (list N); xc_enc : list N -> option (list N) }.

Inductive ccodec := KUtf8 | KLatin1 | KOther (x : xcodec).

Definition cc_decode (c : ccodec) (bs : list N) : res (list N) :=
  match c with KUtf8 => utf8_decode bs | KLatin1 => latin1_decode bs | KOther x => xc_dec x bs end.
Definition cc_encode (c : ccodec) (s : list N) : option (list N) :=
  match c with KUtf8 => utf8_encode s | KLatin1 => latin1_encode s | KOther x => xc_enc x s end.

(* the spellings the model resolves itself; every other name is looked up in the parameter `lookup` *)
Definition n_utf8 : list text := [[117; 116; 102; 45; 56]; [117; 116; 102; 56]; [85; 84; 70; 45; 56]].
  (* "utf-8" "utf8" "UTF-8" *)
Definition n_latin1 : list text :=
  [[108; 97; 116; 105; 110; 45; 49]; [108; 97; 116; 105; 110; 49]; [105; 115; 111; 45; 56; 56; 53; 57; 45; 49]].
  (* "latin-1" "latin1" "iso-8859-1" *)

Definition resolve (lookup : text -> option xcodec) (name : text) : option ccodec :=
  if existsb (text_eqb name) n_utf8 then Some KUtf8
  else if existsb (text_eqb name) n_latin1 then Some KLatin1
  else match lookup name with Some x => Some (KOther x) | None => None end.

(* universal newlines on reading: CR LF and CR become LF *)
Fixpoint unl (s : text) : text :=
  match s with
  | [] => []
  | c :: r =>
      if c =? 13 then match r with
                      | d :: r' => if d =? 10 then 10 :: unl r' else 10 :: unl r
                      | [] => [10]
                      end
      else c :: unl r
  end.

Definition no_cr (s : text) : bool := forallb (fun c => negb (c =? 13)) s.

(* ---- main() ----------------------------------------------------------------------------------------- *)
Inductive cstatus :=
| SReturn (code : N)      (* main() returned *)
| SExit (code : N)        (* SystemExit raised by argparse *)
| SRaise (e : cexn).      (* any other exception left main() *)

(* which call of _error wrote to stderr *)
Inductive cerr := ENone | EReadFailed | EOpenFailed | EInvalidOptions.

Record cli_result := {
  cr_status : cstatus;
  cr_err : cerr;
  cr_stdout : text;                        (* the str written to sys.stdout *)
  cr_outfile : option (text * list N)      (* the -o file was opened for writing: its path and final bytes *)
}.

Record cli_config := {
  cf_abbrev : bool;
  cf_args : list cli_arg;
  cf_marker : text;          (* args.filename == marker -> stdin *)
  cf_stdin : open_spec;
  cf_file : open_spec;
  cf_out : open_spec
}.

Definition cur_config : cli_config :=
  {| cf_abbrev := CliTab.cli_allow_abbrev; cf_args := CliTab.cli_args; cf_marker := CliTab.cli_stdin_marker;
     cf_stdin := CliTab.cli_stdin_open; cf_file := CliTab.cli_file_open; cf_out := CliTab.cli_out_open |}.

Definition k_filename : text := [102; 105; 108; 101; 110; 97; 109; 101].    (* "filename" *)
Definition k_outfile : text := [111; 117; 116; 102; 105; 108; 101].          (* "outfile" *)
Definition k_encoding : text := [101; 110; 99; 111; 100; 105; 110; 103].     (* "encoding" *)

(* what an `encoding=` argument evaluates to *)
Inductive encv := EvCodec (c : ccodec) | EvLookupError | EvTypeError | EvStuck.

Definition enc_arg (src : enc_src) (ns : opts) : pval :=
  match src with EncArgs => oget ns k_encoding PNone | EncConst n => PStr n end.

Definition enc_value (lookup : text -> option xcodec) (v : pval) : encv :=
  match v with
  | PStr n => match resolve lookup n with Some c => EvCodec c | None => EvLookupError end
  | PNone => EvStuck          (* encoding=None: the locale's preferred encoding; not modelled *)
  | _ => EvTypeError          (* open() argument 'encoding' must be str or None *)
  end.

Definition translate_nl (m : nl_mode) (s : text) : text :=
  match m with NlUniversal => unl s | NlNone => s end.

Section Main.
  Variable lookup : text -> option xcodec.          (* codecs.lookup for the names outside n_utf8 / n_latin1 *)
  Variable format : text -> opts -> res text.       (* sqlparse.format(data, **opts) *)
  Variable fs_read : text -> option (list N).       (* the bytes of a file; None: open() raises OSError *)
  Variable fs_can_write : text -> bool.             (* open(path, 'w') succeeds *)
  Variable stdin : list N.                          (* the bytes sys.stdin.buffer delivers *)
  Variable cf : cli_config.

  Definition done (st : cstatus) (err : cerr) (out : text) (file : option (text * list N)) : cli_result :=
    {| cr_status := st; cr_err := err; cr_stdout := out; cr_outfile := file |}.

  Definition fail (e : exn) (file : option (text * list N)) : cli_result :=
    done (SRaise (XPy (Exn e))) ENone [] file.

  (* the input part of main(): Ok text, or the result main() ends with *)
  Definition read_input (ns : opts) : cli_result + text :=
    match oget ns k_filename PNone with
    | PStr f =>
        let spec := if text_eqb f (cf_marker cf) then cf_stdin cf else cf_file cf in
        match enc_value lookup (enc_arg (os_enc spec) ns) with
        | EvTypeError => inl (fail TypeError None)
        | EvStuck => inl (fail Stuck None)
        | ev =>
            let bytes := if text_eqb f (cf_marker cf) then Some stdin else fs_read f in
            match bytes with
            | None => inl (done (SReturn 1) EReadFailed [] None)
            | Some bs =>
                match ev with
                | EvCodec c =>
                    match cc_decode c bs with
                    | Ok s => inr (translate_nl (os_nl spec) s)
                    | Err e => inl (fail e None)
                    end
                | _ => inl (fail LookupError None)
                end
            end
        end
    | _ => inl (fail Stuck None)
    end.

  (* the output channel: None = sys.stdout, Some (path, codec) = the -o file *)
  Definition open_output (ns : opts) : cli_result + option (text * ccodec) :=
    let o := oget ns k_outfile PNone in
    if py_truthy o then
      match o with
      | PStr path =>
          match enc_value lookup (enc_arg (os_enc (cf_out cf)) ns) with
          | EvTypeError => inl (fail TypeError None)
          | EvStuck => inl (fail Stuck None)
          | ev =>
              if fs_can_write path then
                match ev with
                | EvCodec c => inr (Some (path, c))
                | _ => inl (fail LookupError (Some (path, [])))   (* the file exists by now *)
                end
              else inl (done (SReturn 1) EOpenFailed [] None)
          end
      | _ => inl (fail Stuck None)
      end
    else inr None.

  (* the options main() hands to format: validate_options(vars(args)) *)
  Definition cli_validate (ns : opts) : ores opts := OptTab.validate_options ns.

  Definition main_of_ns (ns : opts) : cli_result :=
    match read_input ns with
    | inl r => r
    | inr data =>
        match open_output ns with
        | inl r => r
        | inr ch =>
            let file0 := match ch with Some (p, _) => Some (p, []) | None => None end in
            match cli_validate ns with
            | OErr (Exn SQLParseError) => done (SReturn 1) EInvalidOptions [] file0
            | OErr e => done (SRaise (XPy e)) ENone [] file0
            | OOk vo =>
                match format data vo with
                | Err e => fail e file0
                | Ok s =>
                    match ch with
                    | None => done (SReturn 0) ENone s None
                    | Some (p, c) =>
                        match cc_encode c s with
                        | Some bs => done (SReturn 0) ENone [] (Some (p, bs))
                        | None => done (SRaise XUnicodeEncodeError) ENone [] (Some (p, []))
                        end
                    end
                end
            end
        end
    end.

  Definition cli_main_with (argv : list text) : cli_result :=
    match parse_argv OptTab.icfg (cf_abbrev cf) (cf_args cf) argv with
    | CExit c => done (SExit c) ENone [] None
    | CRaise e => done (SRaise e) ENone [] None
    | COk ns => main_of_ns ns
    end.
End Main.

(* the current source *)
Definition cli_parse (argv : list text) : cres opts :=
  parse_argv OptTab.icfg CliTab.cli_allow_abbrev CliTab.cli_args argv.

Definition cli_main lookup format fs_read fs_can_write stdin (argv : list text) : cli_result :=
  cli_main_with lookup format fs_read fs_can_write stdin cur_config argv.

(* the options the command line hands to format for an argv that parses *)
Definition cli_options (argv : list text) : cres opts :=
  ns <= cli_parse argv ;;;
  match OptTab.validate_options ns with
  | OOk vo => COk vo
  | OErr e => CRaise (XPy e)
  end.

(* ---- the documented meaning of the flags (the help texts of create_parser, docs/source/api.rst) --- *)
Inductive vkind :=
| VFlag                     (* no value: the option becomes True *)
| VChoice (cs : list text)  (* one of the listed words *)
| VInt                      (* an integer literal *)
| VBoolStr                  (* any string; the option becomes bool(string) *)
| VStr.                     (* any string *)

Definition w_upper : text := [117; 112; 112; 101; 114].
Definition w_lower : text := [108; 111; 119; 101; 114].
Definition w_capitalize : text := [99; 97; 112; 105; 116; 97; 108; 105; 122; 101].
Definition w_python : text := [112; 121; 116; 104; 111; 110].
Definition w_php : text := [112; 104; 112].

(* flag spellings, the keyword argument of sqlparse.format (api.rst) they stand for, the kind of value *)
Definition doc_flags : list (list text * text * vkind) :=
  [ ([[45; 107]; [45; 45; 107; 101; 121; 119; 111; 114; 100; 115]], o_keyword_case, VChoice [w_upper; w_lower; w_capitalize]);
      (* -k --keywords *)
    ([[45; 105]; [45; 45; 105; 100; 101; 110; 116; 105; 102; 105; 101; 114; 115]], o_identifier_case, VChoice [w_upper; w_lower; w_capitalize]);
      (* -i --identifiers *)
    ([[45; 108]; [45; 45; 108; 97; 110; 103; 117; 97; 103; 101]], o_output_format, VChoice [w_python; w_php]);
      (* -l --language *)
    ([[45; 45; 115; 116; 114; 105; 112; 45; 99; 111; 109; 109; 101; 110; 116; 115]], o_strip_comments, VFlag);
      (* --strip-comments *)
    ([[45; 114]; [45; 45; 114; 101; 105; 110; 100; 101; 110; 116]], o_reindent, VFlag);
      (* -r --reindent *)
    ([[45; 45; 105; 110; 100; 101; 110; 116; 95; 119; 105; 100; 116; 104]], o_indent_width, VInt);
      (* --indent_width *)
    ([[45; 45; 105; 110; 100; 101; 110; 116; 95; 97; 102; 116; 101; 114; 95; 102; 105; 114; 115; 116]], o_indent_after_first, VFlag);
      (* --indent_after_first *)
    ([[45; 45; 105; 110; 100; 101; 110; 116; 95; 99; 111; 108; 117; 109; 110; 115]], o_indent_columns, VFlag);
      (* --indent_columns *)
    ([[45; 97]; [45; 45; 114; 101; 105; 110; 100; 101; 110; 116; 95; 97; 108; 105; 103; 110; 101; 100]], o_reindent_aligned, VFlag);
      (* -a --reindent_aligned *)
    ([[45; 115]; [45; 45; 117; 115; 101; 95; 115; 112; 97; 99; 101; 95; 97; 114; 111; 117; 110; 100; 95; 111; 112; 101; 114; 97; 116; 111; 114; 115]], o_use_space_around_operators, VFlag);
      (* -s --use_space_around_operators *)
    ([[45; 45; 119; 114; 97; 112; 95; 97; 102; 116; 101; 114]], o_wrap_after, VInt);
      (* --wrap_after *)
    ([[45; 45; 99; 111; 109; 109; 97; 95; 102; 105; 114; 115; 116]], o_comma_first, VBoolStr);
      (* --comma_first *)
    ([[45; 45; 99; 111; 109; 112; 97; 99; 116]], o_compact, VBoolStr);
      (* --compact *)
    ([[45; 45; 101; 110; 99; 111; 100; 105; 110; 103]], k_encoding, VStr);
      (* --encoding *)
    ([[45; 111]; [45; 45; 111; 117; 116; 102; 105; 108; 101]], k_outfile, VStr)
      (* -o --outfile *)
  ].

(* one use of a flag on the command line: `flag`, `flag value` or `flag=value` *)
Inductive uform := FSep | FEq.
Record use := { u_flag : text; u_val : option text; u_form : uform }.

Fixpoint doc_lookup (l : list (list text * text * vkind)) (flag : text) : option (text * vkind) :=
  match l with
  | [] => None
  | (fs, o, k) :: r => if existsb (text_eqb flag) fs then Some (o, k) else doc_lookup r flag
  end.

(* is the string read as an argument (not as an option) when it follows a flag? *)
Definition is_arg (s : text) : bool :=
  negb (text_eqb s s_dashdash)
  && match classify OptTab.icfg CliTab.cli_allow_abbrev CliTab.cli_args s with KArg => true | _ => false end.

(* the value the documentation assigns to the value string v of a flag of kind k *)
Definition kind_value (k : vkind) (v : text) : option pval :=
  match k with
  | VFlag => None
  | VChoice cs => if existsb (text_eqb v) cs then Some (PStr v) else None
  | VInt => match int_of_str OptTab.icfg v with Some z => Some (PInt z) | None => None end
  | VBoolStr => Some (PBool (match v with [] => false | _ => true end))
  | VStr => Some (PStr v)
  end.

(* the (option, value) the documentation assigns to a use of a flag; None: not a documented use *)
Definition use_value (u : use) : option (text * pval) :=
  match doc_lookup doc_flags (u_flag u) with
  | None => None
  | Some (o, k) =>
      match u_val u, u_form u with
      | None, FSep => match k with VFlag => Some (o, PBool true) | _ => None end
      | None, FEq => None
      | Some v, FSep => if is_arg v then option_map (pair o) (kind_value k v) else None
      | Some v, FEq => if text_eqb v s_dashdash then None else option_map (pair o) (kind_value k v)
      end
  end.

Definition valid_use (u : use) : bool := match use_value u with Some _ => true | None => false end.

(* the argument strings of a use *)
Definition render_use (u : use) : list text :=
  match u_val u with
  | None => [u_flag u]
  | Some v => match u_form u with
              | FSep => [u_flag u; v]
              | FEq => [u_flag u ++ 61 :: v]
              end
  end.

Definition render (us : list use) : list text := flat_map render_use us.

(* the namespace the documentation predicts: defaults, then every use in order (the last one wins) *)
Definition apply_use (ns : opts) (u : use) : opts :=
  match use_value u with Some (o, v) => oset ns o v | None => ns end.

Definition apply_uses (us : list use) (ns : opts) : opts := fold_left apply_use us ns.

(* a file name that is read as the positional: '-' or anything that is read as an argument *)
Definition is_filename (f : text) : bool := is_arg f.

(* ---- the checks that tie the documented table to the generated parser table (decided by vm_compute) *)
Fixpoint texts_eqb (a b : list text) : bool :=
  match a, b with
  | [], [] => true
  | x :: a', y :: b' => text_eqb x y && texts_eqb a' b'
  | _, _ => false
  end.

Definition no_choices (a : cli_arg) : bool := match ca_choices a with None => true | Some _ => false end.
Definition type_is (a : cli_arg) (t : cli_type) : bool :=
  match ca_type a, t with TyNone, TyNone | TyInt, TyInt | TyBool, TyBool => true | _, _ => false end.

(* the parser action has the shape the documented kind of value needs *)
Definition kind_matches (a : cli_arg) (k : vkind) : bool :=
  match k with
  | VFlag => match ca_action a with ActStoreTrue => true | _ => false end
  | VChoice cs => takes_value a && type_is a TyNone
                  && match ca_choices a with Some cs' => texts_eqb cs' cs | None => false end
  | VInt => takes_value a && type_is a TyInt && no_choices a
  | VBoolStr => takes_value a && type_is a TyBool && no_choices a
  | VStr => takes_value a && type_is a TyNone && no_choices a
  end.

(* every documented spelling is an option string of the parser whose dest is the documented option and whose
   action has the documented kind *)
Definition doc_table_ok (args : list cli_arg) : bool :=
  forallb (fun e : list text * text * vkind =>
             let '(fs, o, k) := e in
             forallb (fun fl => match find_flag args fl with
                                | Some a => text_eqb (ca_dest a) o && kind_matches a k
                                | None => false
                                end) fs) doc_flags.

Definition no_eq (s : text) : bool := forallb (fun c => negb (c =? 61)) s.
Definition flag_shape (s : text) : bool := match s with c :: _ :: _ => c =? 45 | _ => false end.
(* every option string starts with '-', has at least two characters, contains no '=' and is not '--' *)
Definition flags_ok (args : list cli_arg) : bool :=
  forallb (fun fa : text * cli_arg =>
             no_eq (fst fa) && flag_shape (fst fa) && negb (text_eqb (fst fa) s_dashdash)) (all_flags args).

(* the positional is a plain string stored under "filename" *)
Definition positional_ok (args : list cli_arg) : bool :=
  match first_positional args with
  | Some p => text_eqb (ca_dest p) k_filename && type_is p TyNone && no_choices p && takes_value p
  | None => false
  end.

(* ---- from the options to the filter stack (Gen/OptTab.v) ------------------------------------------ *)
(* sqlparse.format(sql, encoding=None, **options): `encoding` is a named parameter, the rest is `options` *)
Definition format_kwargs (vo : opts) : opts :=
  filter (fun kv : text * pval => negb (text_eqb (fst kv) k_encoding)) vo.

Definition stack_of (o : opts) : ores fstack :=
  match OptTab.format_stack_of o with OOk (_, st) => OOk st | OErr e => OErr e end.

(* the filter stack format() builds when called the way main() calls it *)
Definition cli_stack (argv : list text) : cres (ores fstack) :=
  ns <= cli_parse argv ;;;
  COk (match OptTab.validate_options ns with
       | OOk vo => stack_of (format_kwargs vo)
       | OErr e => OErr e
       end).

(* the keyword arguments a caller of the API would write for the same uses *)
Definition meant_dict (us : list use) : opts := apply_uses us [].

(* a finite family of command lines: every subset of the eight on/off flags x six combinations of the
   valued flags (case of keywords / identifiers, language, indent width, wrap column) *)
Definition mk_use (fl : text) (v : option text) : use := {| u_flag := fl; u_val := v; u_form := FSep |}.

Definition fam_flags : list use :=
  [ mk_use [45; 45; 115; 116; 114; 105; 112; 45; 99; 111; 109; 109; 101; 110; 116; 115] None;       (* --strip-comments *)
    mk_use [45; 114] None;                                                                         (* -r *)
    mk_use [45; 45; 105; 110; 100; 101; 110; 116; 95; 97; 102; 116; 101; 114; 95; 102; 105; 114; 115; 116] None;  (* --indent_after_first *)
    mk_use [45; 45; 105; 110; 100; 101; 110; 116; 95; 99; 111; 108; 117; 109; 110; 115] None;       (* --indent_columns *)
    mk_use [45; 97] None;                                                                          (* -a *)
    mk_use [45; 115] None;                                                                         (* -s *)
    mk_use [45; 45; 99; 111; 109; 109; 97; 95; 102; 105; 114; 115; 116] (Some [84; 114; 117; 101]);  (* --comma_first True *)
    mk_use [45; 45; 99; 111; 109; 112; 97; 99; 116] (Some [49])                                     (* --compact 1 *)
  ].

Fixpoint sublists {A} (l : list A) : list (list A) :=
  match l with
  | [] => [[]]
  | x :: r => let s := sublists r in map (cons x) s ++ s
  end.

Definition fl_k : text := [45; 107].                                                         (* -k *)
Definition fl_identifiers : text := [45; 45; 105; 100; 101; 110; 116; 105; 102; 105; 101; 114; 115].  (* --identifiers *)
Definition fl_l : text := [45; 108].                                                         (* -l *)
Definition fl_indent_width : text := [45; 45; 105; 110; 100; 101; 110; 116; 95; 119; 105; 100; 116; 104].  (* --indent_width *)
Definition fl_wrap_after : text := [45; 45; 119; 114; 97; 112; 95; 97; 102; 116; 101; 114].  (* --wrap_after *)

Definition fam_choices : list (list use) :=
  [ [];
    [mk_use fl_k (Some w_upper)];
    [mk_use fl_identifiers (Some w_lower); mk_use fl_l (Some w_python)];
    [mk_use fl_l (Some w_php); mk_use fl_indent_width (Some [52]); mk_use fl_wrap_after (Some [49; 48])];
    [mk_use fl_k (Some w_capitalize); mk_use fl_indent_width (Some [52])];
    [mk_use fl_wrap_after (Some [49; 48]); mk_use fl_identifiers (Some w_upper)] ].

Definition family : list (list use) :=
  flat_map (fun s => map (fun c => s ++ c) fam_choices) (sublists fam_flags).

Definition fam_file : text := [102; 46; 115; 113; 108].   (* "f.sql" *)
