(* Types shared by the generated description of the front ends (Gen/Frontends.v, extracted from
   the AST of sqlparse/__init__.py, engine/filter_stack.py, lexer.py, formatter.py) and by the
   hand-written model of the input decoding (Sys/Frontends.v).  Definitions only. *)
From SqlModel Require Import Base.

(* the codec `Lexer.get_tokens` falls back to when bytes without `encoding` are not UTF-8 *)
Inductive fbcodec := FbUnicodeEscape | FbLatin1.

(* How a function hands its two input parameters (the text/stream and `encoding`) on. *)
Inductive fe_arg :=
| ASql      (* the function's own text parameter, unchanged (a bare Name load) *)
| AEnc      (* the function's own `encoding` parameter, unchanged *)
| AOtherArg (* any other expression *).

Definition fe_arg_eqb (a b : fe_arg) : bool :=
  match a, b with ASql, ASql | AEnc, AEnc | AOtherArg, AOtherArg => true | _, _ => false end.

Inductive fe_wrap :=
| WReturn        (* `return <call>` *)
| WTuple         (* `return tuple(<call>)` *)
| WJoin          (* `return ''.join(<call>)` *)
| WStripList     (* `return [str(stmt).strip() for stmt in <call>]` *)
| WStream        (* `stream = <call>` as first statement of a generator, stream then only transformed *)
| WOtherWrap.

Definition fe_wrap_eqb (a b : fe_wrap) : bool :=
  match a, b with
  | WReturn, WReturn | WTuple, WTuple | WJoin, WJoin | WStripList, WStripList
  | WStream, WStream | WOtherWrap, WOtherWrap => true
  | _, _ => false
  end.

(* the functions on the path from the public entry points to the decode point *)
Inductive fe_name :=
| FParse | FParsestream | FFormat | FSplit      (* sqlparse/__init__.py *)
| FRun                                          (* engine.FilterStack.run *)
| FTokenize                                     (* lexer.tokenize *)
| FGetTokens                                    (* lexer.Lexer.get_tokens: the decode point *)
| FUnknownFun.

Definition fe_name_eqb (a b : fe_name) : bool :=
  match a, b with
  | FParse, FParse | FParsestream, FParsestream | FFormat, FFormat | FSplit, FSplit
  | FRun, FRun | FTokenize, FTokenize | FGetTokens, FGetTokens | FUnknownFun, FUnknownFun => true
  | _, _ => false
  end.

Record fe_fun := {
  ff_name : fe_name;
  ff_callee : fe_name;       (* the one call the input parameters occur in *)
  ff_args : list fe_arg;     (* its positional arguments *)
  ff_kwargs : nat;           (* number of keyword/star arguments of that call *)
  ff_other_uses : nat;       (* every other occurrence (load, store, del) of the two parameters *)
  ff_wrap : fe_wrap          (* what the function does with the result of the call *)
}.
