(* C15 - recursion budget.  DEFINITIONS only (proofs: Sys/BudgetFacts.v).

   Two things live here.

   (1) The types of the generated call-graph data (Gen/CallGraph.v): which functions of the library
       can recurse, the public entry points, and for every entry point the call sites through which
       a recursive function is reachable, classified by their position relative to the
       `try .. except RecursionError` of FilterStack.run.

   (2) An exception-monad model of that guard over a FRAME BUDGET.  `L` is the number of interpreter
       frames the caller leaves to the library (recursion limit minus the caller's own depth).  Every
       modelled descent into a group spends one frame; an exhausted budget is `Err RecursionError`.
       CONCRETE: flatten (the `yield from` recursion of TokenList.flatten), str (TokenList.__str__),
       depth.  ABSTRACTED, and said so: the frame use of one grouping pass / one statement filter is
       `max (depth before) (depth after) + c` frames for a constant c -- the passes themselves are the
       unbudgeted functions of Group/Passes.v; what the budget decides is only WHETHER they complete.

   NOT MODELLED (observed by the run-time matrix of tools/props/C15.py instead): CPython's actual
   frame accounting (which calls are inlined, how many frames a generator resumption or a
   comprehension costs, the exact constants), the C stack (a high recursion limit with deep input can
   overflow it: fatal error / SIGSEGV, not an exception), MemoryError, the chains of suspended
   `yield from` generators, running time (several passes are quadratic or cubic in the depth),
   mutable state that survives a call (Lexer singleton, filter instances). *)
From Coq Require Import List String NArith Arith Bool.
From SqlModel Require Import Base PyStr Node Passes.
From SqlModel.Gen Require Import CaseTabs.
Import ListNotations.

(* ============================================================================================
   (1) call-graph data
   ============================================================================================ *)
Inductive guardpos :=
| InsideGuard    (* lexically inside the try of FilterStack.run, or reached only by iterating the
                    generator run() returned (tuple(..), ''.join(..), `for stmt in stack.run(..)`) *)
| OutsideGuard.  (* evaluated by the entry function itself, before the generator is created or after
                    it has yielded *)

(* what tree-valued data the arguments of an outside-guard call site can carry *)
Inductive valkind :=
| KNone          (* none: no value produced by run() flows into the call *)
| KCallerOption  (* only values the caller supplied as options / CLI arguments (str, int, bool by contract) *)
| KFlatStmt      (* a statement straight from the splitter, never grouped: depth 1 *)
| KDeepTree.     (* a possibly grouped tree: depth unbounded *)

Inductive reckind := RecChildren | RecOther.
Inductive entry := EParse | EParsestream | ESplit | EFormat | ECliMain.
Inductive retkind := RValue (k : valkind) | RGenerator (k : valkind).

Record recfun := mk_recfun {
  rf_id : N; rf_name : string; rf_kind : reckind; rf_direct : bool; rf_line : N }.

Record site := mk_site {
  s_entry : entry; s_file : string; s_line : N; s_pos : guardpos; s_arg : valkind;
  s_reach : list N  (* rf_id of the recursive functions reachable from the site *) }.

Definition valkind_shallow (k : valkind) : bool :=
  match k with KDeepTree => false | _ => true end.

(* the obligation on one site: a recursive function is reachable only under the guard, or on data
   that cannot be a deep tree *)
Definition inside_guard_or_shallow (s : site) : bool :=
  match s_pos s with
  | InsideGuard => true
  | OutsideGuard =>
      match s_reach s with
      | [] => true
      | _ :: _ => valkind_shallow (s_arg s)
      end
  end.

Definition entry_eqb (a b : entry) : bool :=
  match a, b with
  | EParse, EParse | EParsestream, EParsestream | ESplit, ESplit | EFormat, EFormat
  | ECliMain, ECliMain => true
  | _, _ => false
  end.

(* only parse / parsestream hand a possibly deep tree back to the caller *)
Definition returns_deep_only_parse (x : entry * retkind) : bool :=
  match snd x with
  | RValue KDeepTree | RGenerator KDeepTree => entry_eqb (fst x) EParse || entry_eqb (fst x) EParsestream
  | _ => true
  end.

(* every recursive function reachable from a site is a known one *)
Definition reach_known (rfs : list recfun) (s : site) : bool :=
  forallb (fun i => existsb (fun r => N.eqb (rf_id r) i) rfs) (s_reach s).

(* ============================================================================================
   (2) the budget model
   ============================================================================================ *)
(* nesting depth: a leaf 0, a group one more than its deepest child; an ungrouped statement 1 *)
Fixpoint depth (n : node) : nat :=
  match n with
  | Leaf _ _ => 0
  | Grp _ _ kids => S (fold_right (fun k acc => Nat.max (depth k) acc) 0 kids)
  end.
Definition depth_list (l : list node) : nat := fold_right (fun k acc => Nat.max (depth k) acc) 0 l.

(* TokenList.flatten: `for token in self.tokens: if token.is_group: yield from token.flatten()
   else: yield token` -- one frame per group on the path *)
Fixpoint flatten_budget (L : nat) (n : node) {struct n} : res (list node) :=
  match n with
  | Leaf _ _ => Ok [n]
  | Grp _ _ kids =>
      match L with
      | O => Err RecursionError
      | S L' => ls <- mapM (fun k => flatten_budget L' k) kids ;; Ok (concat ls)
      end
  end.

(* TokenList.__str__: ''.join(token.value for token in self.flatten()): one frame for __str__ (with
   its generator expression), then flatten *)
Definition text_of_budget (L : nat) (n : node) : res text :=
  match n with
  | Leaf _ v => Ok v                                    (* Token.__str__: return self.value *)
  | Grp _ _ _ =>
      match L with
      | O => Err RecursionError
      | S L' => ls <- flatten_budget L' n ;; Ok (flat_map nvalue ls)
      end
  end.

(* the guard of FilterStack.run *)
Definition guarded {A} (body : res A) : res A :=
  match body with
  | Err RecursionError => Err SQLParseError
  | r => r
  end.

(* spend c frames before running k with what is left *)
Definition with_frames {A} (L c : nat) (k : nat -> res A) : res A :=
  if L <? c then Err RecursionError else k (L - c).

(* ---- abstracted frame use ------------------------------------------------------------------
   A tree transformer (grouping pass, statement filter) completes under L frames iff the deeper of
   its input and output, plus a constant, fits.  (group_tokens calls str() on every group it creates,
   the `recurse` decorator / _group / _group_matching / Filter.process descend group by group.) *)
Definition step_frames : nat := 3.

Definition step_budget (L : nat) (p : node -> res node) (n : node) : res node :=
  n' <- p n ;;
  if Nat.max (depth n) (depth n') + step_frames <=? L then Ok n' else Err RecursionError.

Fixpoint steps_budget (L : nat) (ps : list (node -> res node)) (n : node) : res node :=
  match ps with
  | [] => Ok n
  | p :: ps' => n' <- step_budget L p n ;; steps_budget L ps' n'
  end.

(* grouping.group under a budget: the 25 passes of Group/Passes.v, one frame for group() itself *)
Definition group_budget (L : nat) (n : node) : res node :=
  with_frames L 1 (fun L' => steps_budget L' passes n).

(* ---- the pipeline of FilterStack.run --------------------------------------------------------
   Frames that are in use while a statement is being processed: run's own generator frame, the
   splitter's and the lexer's generator frames, Lexer.is_keyword / Token.__init__ calls. *)
Definition pipeline_frames : nat := 4.
(* frames between the caller and the body of run: parse -> parsestream/tuple -> run *)
Definition entry_frames : nat := 2.

Section Pipeline.
  Variable lexf : text -> res (list tok).                 (* lexer.tokenize + preprocess filters *)
  Variable procf : list tok -> list (list tok).            (* StatementSplitter.process *)
  Context {B : Type}.

  (* run(): everything below is inside the try; `per_stmt` is grouping + stmtprocess + postprocess *)
  Definition run_budget (L : nat) (per_stmt : nat -> node -> res B) (t : text) : res (list B) :=
    guarded (with_frames L pipeline_frames (fun L' =>
      toks <- lexf t ;;
      mapM (fun s => per_stmt L' (statement_of s)) (procf toks))).

  (* the same pipeline with no budget and no guard *)
  Definition run_model (per_stmt : node -> res B) (t : text) : res (list B) :=
    toks <- lexf t ;; mapM (fun s => per_stmt (statement_of s)) (procf toks).
End Pipeline.

Section Entries.
  Variable lexf : text -> res (list tok).
  Variable procf : list tok -> list (list tok).

  (* ---- parse / list(parsestream): grouping, no filters; the trees are returned ---- *)
  Definition parse_budget (L : nat) (t : text) : res (list node) :=
    with_frames L entry_frames (fun L' => run_budget lexf procf L' (fun l n => group_budget l n) t).
  Definition parse_model (t : text) : res (list node) :=
    run_model lexf procf group t.

  (* ---- split: no grouping; str(stmt).strip() is evaluated OUTSIDE the guard ---- *)
  Definition split_budget (L : nat) (t : text) : res (list text) :=
    with_frames L entry_frames (fun L' =>
      stmts <- run_budget lexf procf L' (fun _ n => Ok n) t ;;
      mapM (fun n => s <- text_of_budget L' n ;; Ok (strip space_set s)) stmts).
  Definition split_model (t : text) : res (list text) :=
    stmts <- run_model lexf procf (fun n => Ok n) t ;;
    Ok (map (fun n => strip space_set (text_of n)) stmts).

  (* ---- format: optional grouping, any list of statement filters, then SerializerUnicode
          (str(stmt) INSIDE the guard, then a text-to-text function), then ''.join ---- *)
  Variable grouping : bool.
  Variable filters : list (node -> res node).
  Variable ser : text -> text.

  Definition format_stmt_budget (l : nat) (n : node) : res text :=
    n1 <- (if grouping then group_budget l n else Ok n) ;;
    n2 <- steps_budget l filters n1 ;;
    s <- text_of_budget l n2 ;; Ok (ser s).
  Definition format_stmt_model (n : node) : res text :=
    n1 <- (if grouping then group n else Ok n) ;;
    n2 <- run_passes filters n1 ;;
    Ok (ser (text_of n2)).

  Definition format_budget (L : nat) (t : text) : res text :=
    with_frames L entry_frames (fun L' =>
      parts <- run_budget lexf procf L' format_stmt_budget t ;; Ok (concat parts)).
  Definition format_model (t : text) : res text :=
    parts <- run_model lexf procf format_stmt_model t ;; Ok (concat parts).
End Entries.

(* outcome classes the property allows *)
Definition allowed {A} (r : res A) : Prop :=
  match r with
  | Ok _ => True
  | Err e => e <> RecursionError
  end.

(* a tree of given depth for examples: `(`^d .. `)`^d *)
Fixpoint nest (d : nat) : node :=
  match d with
  | O => Leaf T_Name [120%N]
  | S d' => mk_grp CParenthesis [Leaf T_Punctuation [40%N]; nest d'; Leaf T_Punctuation [41%N]]
  end.
