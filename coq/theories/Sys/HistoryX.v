(* C20 -- history independence when an exception interrupts the FIRST initialisation of the default
   lexer (RecursionError when the first call is made close to the recursion limit, MemoryError,
   KeyboardInterrupt).  What such an interruption leaves behind depends on the shape of
   `get_default_instance` (Gen/SingletonProg.v, translated from the source on every run):

   publish-then-initialise (KF-C20-1):
        with cls._lock:
            if cls._default_instance is None:
                cls._default_instance = cls()                       # published here
                cls._default_instance.default_initialization()      # ... interrupted here
     The with-statement releases the lock, the exception propagates to the caller (parse/format wrap
     RecursionError into SQLParseError), and the half-initialised instance stays for the rest of the
     process (Sys/HistoryXFacts.v: C20_xhistory_refuted_if_publishes).

   initialise-then-publish (the repair):
                instance = cls()
                instance.default_initialization()                   # ... interrupted here
                cls._default_instance = instance                    # published here, complete
     The half-built object is garbage, `_default_instance` is still None and the next call starts the
     initialisation from scratch (Sys/HistoryXFacts.v: C20_xhistory_if_publishes_last).

   Extended machine: the instance may exist without attributes ([LBare]); an extended operation
   [XInterrupted k o] is the call [o] whose initialisation is interrupted after k statements of
   the initialisation sequence of the GENERATED program. *)
From Coq Require Import String.
From SqlModel Require Import Base.
From SqlModel.Sys Require Import Singleton History.
From SqlModel.Gen Require Import SingletonProg.

Inductive lex :=
| LBare               (* cls() done, clear() not yet: neither _SQL_REGEX nor _keywords exists *)
| LCfg (c : cfg).

Record xstate := mkX { xlexer : option lex }.
Definition xfresh : xstate := mkX None.

(* the configuration a call reads; None = AttributeError: 'Lexer' object has no attribute '_SQL_REGEX' *)
Definition xeff (st : xstate) : option cfg :=
  match xlexer st with
  | None => Some default_cfg
  | Some LBare => None
  | Some (LCfg c) => Some c
  end.

(* the statements executed under the lock on first use, in program order *)
Definition is_init_instr (i : instr) : bool :=
  match i with
  | INewAssign | ILoadSelf | INewLocal | IPublishSelf | IClear | ISetRegex | IAddKw _ => true
  | _ => false
  end.
Definition init_steps (p : list instr) : list instr := filter is_init_instr p.

(* a statement of default_initialization on an existing Lexer object *)
Definition upd_lex (s : option lex) (i : instr) : option lex :=
  match i with
  | IClear => match s with Some _ => Some (LCfg cleared_cfg) | None => None end
  | ISetRegex | IAddKw _ =>
      match s with Some (LCfg c) => Some (LCfg (exec_cfg c i)) | _ => s end
  | _ => s
  end.

(* (what the shared variable designates, the object held in the local variable and not yet
   published).  The statements of default_initialization act on the local object when there is
   one (the receiver is the local), otherwise on the published one (the receiver was loaded from
   the shared variable); after IPublishSelf the local IS the published object. *)
Definition xinit_st : Type := (option lex * option lex)%type.

Definition exec_lex (s : xinit_st) (i : instr) : xinit_st :=
  match i with
  | INewAssign => (Some LBare, snd s)
  | INewLocal => (fst s, Some LBare)
  | IPublishSelf => match snd s with Some l => (Some l, None) | None => s end
  | IClear | ISetRegex | IAddKw _ =>
      match snd s with
      | Some _ => (fst s, upd_lex (snd s) i)
      | None => (upd_lex (fst s) i, None)
      end
  | _ => s
  end.

(* persistent state left behind when the exception strikes after k statements: the local is lost *)
Definition interrupted_init_of (p : list instr) (k : nat) : option lex :=
  fst (fold_left exec_lex (firstn k (init_steps p)) (None, None)).
Definition interrupted_init : nat -> option lex := interrupted_init_of get_default_instance_prog.

Definition lex_eqb (a b : lex) : bool :=
  match a, b with
  | LBare, LBare => true
  | LCfg x, LCfg y => cfg_eqb x y
  | _, _ => false
  end.

(* Is there an interruption point that leaves a published instance other than the completely
   initialised one?  (k ranges over 0..|init_steps p|; a later k is the same as the last.)
   false = every interruption leaves either nothing or the finished default lexer. *)
Definition harmless_of (p : list instr) (k : nat) : bool :=
  match interrupted_init_of p k with
  | None => true
  | Some l => lex_eqb l (LCfg (default_init_of p cleared_cfg))
  end.
Definition publishes_before_initb (p : list instr) : bool :=
  negb (forallb (harmless_of p) (seq 0 (S (length (init_steps p))))).

Inductive xop :=
| XOp (o : op)
| XInterrupted (k : nat) (o : op).    (* o = the call during which the interruption happens *)

Definition xensure (st : xstate) : xstate :=
  match xlexer st with None => mkX (Some (LCfg default_cfg)) | Some _ => st end.

Definition xapply_op (st : xstate) (o : op) : xstate :=
  match o with
  | OClear => mkX (Some (LCfg cleared_cfg))
  | OSetRegex id =>
      match xlexer (xensure st) with
      | Some (LCfg c) => mkX (Some (LCfg (mkCfg (Some id) (c_kws c))))
      | _ => xensure st                        (* bare instance: gets _SQL_REGEX, still no _keywords *)
      end
  | OAddKw id =>
      match xlexer (xensure st) with
      | Some (LCfg c) => mkX (Some (LCfg (mkCfg (c_rx c) (c_kws c ++ [id]))))
      | _ => xensure st                        (* AttributeError *)
      end
  | ODefaultInit =>
      match xlexer (xensure st) with
      | Some (LCfg c) => mkX (Some (LCfg (default_init c)))
      | _ => mkX (Some (LCfg (default_init cleared_cfg)))
      end
  | _ => if touches_lexer o then xensure st else st
  end.

Definition xapply (st : xstate) (x : xop) : xstate :=
  match x with
  | XOp o => xapply_op st o
  | XInterrupted k o =>
      if touches_lexer o
      then match xlexer st with
           | None => mkX (interrupted_init k)      (* the exception propagates; nothing else happens *)
           | Some _ => xapply_op st o              (* instance exists: no initialisation to interrupt *)
           end
      else st
  end.

Definition xrun (h : list xop) (st : xstate) : xstate := fold_left xapply h st.
Definition strip (h : list xop) : list op :=
  map (fun x => match x with XOp o => o | XInterrupted _ o => o end) h.

(* the class of the known finding: the history contains an interrupted initialisation *)
Definition kf_interrupted_init (h : list xop) : bool :=
  existsb (fun x => match x with XInterrupted _ _ => true | XOp _ => false end) h.

Definition emb (st : pstate) : xstate := mkX (option_map LCfg (lexer st)).

Section Results.
  Variable R : Type.
  Variable sem : option cfg -> op -> R.
  Definition xresult (st : xstate) (o : op) : R := sem (xeff st) o.
  Definition xresult_after (h : list xop) (call : op) : R := xresult (xrun h xfresh) call.
  Definition xresult_fresh (call : op) : R := xresult xfresh call.
End Results.

(* observation for the driver: state left by an interruption after k statements *)
Definition xinit_obs (k : nat) : option (bool * (bool * list nat)) :=
  match interrupted_init k with
  | None => None
  | Some LBare => Some (false, (false, []))
  | Some (LCfg c) => Some (true, (match c_rx c with Some _ => true | None => false end, c_kws c))
  end.
Definition xinit_len : nat := length (init_steps get_default_instance_prog).
(* does some interruption point leave a published instance that is not the finished lexer? *)
Definition xinit_publishes_early : bool := publishes_before_initb get_default_instance_prog.

(* observation for the driver: configuration after a history from the fresh state *)
Definition hist_obs (h : list op) : option (option nat * list nat) :=
  match lexer (run_hist h fresh) with
  | None => None
  | Some c => Some (c_rx c, c_kws c)
  end.
