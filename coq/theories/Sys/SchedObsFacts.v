(* C20 -- the observation functions agree with [run]; on the generated program (and on both reference
   programs old_prog / new_prog) the search predicate [violation] is 0 in every reachable state (a
   restatement of the C20 theorems in the vocabulary of the search), and it is not identically 0: the
   unprotected variants of the publish-first shape reach 1 and 2; the unlocked publish-last shape
   reaches 2 (two instances) but provably never 1 (nobody ever holds a half-built lexer). *)
From SqlModel Require Import Base.
From SqlModel.Sys Require Import Singleton SchedObs.
From SqlModel.Gen Require Import SingletonProg.
From SqlModel.Sys Require Import SingletonFacts.

Lemma last_cons_default {A} (l : list A) a d d' : last (a :: l) d = last (a :: l) d'.
Proof.
  revert a; induction l as [|b l IH]; intros a; [reflexivity|].
  change (last (a :: b :: l) d) with (last (b :: l) d).
  change (last (a :: b :: l) d') with (last (b :: l) d'). apply IH.
Qed.

Lemma sched_states_last p : forall s st,
  last (sched_states p st s) st = run_from p st s.
Proof.
  induction s as [|t s IH]; intros st; [reflexivity|].
  unfold run_from. cbn [sched_states fold_left].
  destruct s as [|t' s'].
  - reflexivity.
  - specialize (IH (step p st t)). unfold run_from in IH.
    change (last (step p st t :: sched_states p (step p st t) (t' :: s')) st)
      with (last (sched_states p (step p st t) (t' :: s')) st).
    cbn [sched_states] in IH |- *.
    rewrite (last_cons_default _ _ st (step p st t)). exact IH.
Qed.

Lemma sched_states_length p : forall s st, length (sched_states p st s) = length s.
Proof. induction s as [|t s IH]; intros st; cbn [sched_states length]; auto. Qed.

(* the k-th element of the trace is the state after the first k+1 steps *)
Lemma sched_states_nth p : forall s st k st',
  nth_error (sched_states p st s) k = Some st' -> st' = run_from p st (firstn (S k) s).
Proof.
  induction s as [|t s IH]; intros st k st' H.
  - destruct k; discriminate.
  - destruct k as [|k]; cbn [sched_states nth_error] in H.
    + injection H as <-. reflexivity.
    + apply IH in H. rewrite H. reflexivity.
Qed.

Lemma map_last {A B} (f : A -> B) (l : list A) d : last (map f l) (f d) = f (last l d).
Proof.
  induction l as [|a l IH]; [reflexivity|].
  destruct l as [|b l]; [reflexivity|].
  change (last (map f (a :: b :: l)) (f d)) with (last (map f (b :: l)) (f d)).
  change (last (a :: b :: l) d) with (last (b :: l) d). exact IH.
Qed.

Lemma schedp_trace_final p n s :
  last (schedp_trace p n s) (sched_obs (init n)) = schedp_final p n s.
Proof.
  unfold schedp_trace, schedp_final, run.
  rewrite <- (sched_states_last p s (init n)). apply map_last.
Qed.

Lemma all_eq_spec l : all_eq l = true <-> (forall a b, In a l -> In b l -> a = b).
Proof.
  induction l as [|a l IH]; [split; [intros _ x y []|reflexivity]|].
  destruct l as [|b l].
  - split; [|reflexivity]. intros _ x y [<-|[]] [<-|[]]. reflexivity.
  - change (all_eq (a :: b :: l)) with (Nat.eqb a b && all_eq (b :: l)).
    rewrite andb_true_iff, Nat.eqb_eq, IH. split.
    + intros [-> H] x y Hx Hy.
      assert (Hx' : In x (b :: l)) by (destruct Hx as [<-|Hx]; [left; reflexivity|exact Hx]).
      assert (Hy' : In y (b :: l)) by (destruct Hy as [<-|Hy]; [left; reflexivity|exact Hy]).
      apply H; assumption.
    + intros H. split.
      * apply H; [left; reflexivity | right; left; reflexivity].
      * intros x y Hx Hy. apply H; right; assumption.
Qed.

Lemma in_rets ths o : In o (rets ths) <-> exists t th, nth_error ths t = Some th /\ ret th = Some o.
Proof.
  induction ths as [|th ths IH]; cbn [rets].
  - split; [intros []|intros (t & th & H & _); destruct t; discriminate].
  - destruct (ret th) as [o'|] eqn:E.
    + split.
      * intros [<-|H]; [exists 0, th; split; [reflexivity|assumption]|].
        apply IH in H. destruct H as (t & th' & H1 & H2). exists (S t), th'. split; assumption.
      * intros (t & th' & H1 & H2). destruct t as [|t]; cbn [nth_error] in H1.
        -- injection H1 as <-. left. congruence.
        -- right. apply IH. exists t, th'. split; assumption.
    + rewrite IH. split.
      * intros (t & th' & H1 & H2). exists (S t), th'. split; assumption.
      * intros (t & th' & H1 & H2). destruct t as [|t]; cbn [nth_error] in H1.
        -- injection H1 as <-. congruence.
        -- exists t, th'. split; assumption.
Qed.

(* On a well-locked program (either shape) no schedule of any number of threads ever reaches a
   violation. *)
Theorem wl_no_violation : forall e p, well_locked e p = true ->
  forall n sched, violation e (run p n sched) = 0.
Proof.
  intros e p Hwl n sched. unfold violation.
  set (st := run p n sched).
  destruct (existsb (bad_return e st) (seq 0 (length (threads st)))) eqn:E1.
  { exfalso. apply existsb_exists in E1. destruct E1 as (t & _ & Hb). unfold bad_return in Hb.
    destruct (returned st t) as [o|] eqn:Er; [|discriminate].
    pose proof (wl_init_safe e p Hwl n sched t o Er) as Hf. apply fully_initialisedb_spec in Hf.
    fold st in Hf. rewrite Hf in Hb. discriminate. }
  destruct (all_eq (rets (threads st))) eqn:E2; cbn [negb].
  2:{ exfalso. assert (H : all_eq (rets (threads st)) = true); [|congruence].
      apply all_eq_spec. intros a b Ha Hb.
      apply in_rets in Ha. destruct Ha as (t1 & th1 & Ht1 & Hr1).
      apply in_rets in Hb. destruct Hb as (t2 & th2 & Ht2 & Hr2).
      apply (wl_same_instance e p Hwl n sched t1 t2); fold st; unfold returned.
      - rewrite Ht1. exact Hr1.
      - rewrite Ht2. exact Hr2. }
  pose proof (wl_single_init e p Hwl n sched) as H3. fold st in H3.
  destruct (1 <? length (heap st)) eqn:E3; [|reflexivity].
  apply Nat.ltb_lt in E3. lia.
Qed.
Print Assumptions wl_no_violation.

(* On the generated program no schedule of any number of threads ever reaches a violation. *)
Theorem C20_no_violation : forall n sched,
  violation expected_kws (run get_default_instance_prog n sched) = 0.
Proof. exact (wl_no_violation _ _ prog_well_locked). Qed.
Print Assumptions C20_no_violation.

(* ... nor on either reference program, whichever the source currently is *)
Theorem C20_no_violation_both : forall n sched,
  violation expected_kws (run old_prog n sched) = 0 /\ violation expected_kws (run new_prog n sched) = 0.
Proof.
  intros n sched. split;
    [exact (wl_no_violation _ _ old_prog_well_locked n sched)
    |exact (wl_no_violation _ _ new_prog_well_locked n sched)].
Qed.

(* every state of every trace the driver prints for the generated program is violation-free *)
Corollary C20_trace_no_violation : forall n sched v,
  In v (schedp_violation get_default_instance_prog n sched) -> v = 0.
Proof.
  intros n sched v H. unfold schedp_violation in H. apply in_map_iff in H.
  destruct H as (st & <- & Hin). apply In_nth_error in Hin. destruct Hin as [k Hk].
  apply sched_states_nth in Hk. subst st. apply (C20_no_violation n (firstn (S k) sched)).
Qed.
Print Assumptions C20_trace_no_violation.

(* the predicate is not trivially 0: the variants without the lock / with the early release reach
   violations 1 and 2 (same witnesses as in SingletonFacts) *)
Example violation_unlocked_1 :
  violation expected_kws (run unlocked_prog 2 [0; 0; 1; 1]) = 1.
Proof. vm_compute. reflexivity. Qed.
Example violation_unlocked_2 :
  violation expected_kws
    (run unlocked_prog 2 ([0; 1; 0] ++ repeat 0 (length unlocked_prog) ++ [1; 0] ++ repeat 1 (length unlocked_prog))) = 2.
Proof. vm_compute. reflexivity. Qed.
Example violation_early_release_1 :
  violation expected_kws
    (run early_release_prog 2 (repeat 0 (length early_release_prog - 1) ++ [1; 1; 1; 1; 1; 0])) = 1.
Proof. vm_compute. reflexivity. Qed.

(* the publish-last shape without the lock: two instances (code 2) ... *)
Example violation_unlocked_new_2 :
  violation expected_kws
    (run unlocked_new_prog 2
         ([0; 1] ++ repeat 0 (length unlocked_new_prog) ++ repeat 1 (length unlocked_new_prog))) = 2.
Proof. vm_compute. reflexivity. Qed.

(* ... but never code 1: no thread ever holds a lexer that is not fully initialised *)
Theorem C20_unlocked_new_never_half_built : forall n sched,
  violation expected_kws (run unlocked_new_prog n sched) <> 1.
Proof.
  intros n sched. unfold violation.
  set (st := run unlocked_new_prog n sched).
  destruct (existsb (bad_return expected_kws st) (seq 0 (length (threads st)))) eqn:E1.
  - exfalso. apply existsb_exists in E1. destruct E1 as (t & _ & Hb). unfold bad_return in Hb.
    destruct (returned st t) as [o|] eqn:Er; [|discriminate].
    pose proof (C20_unlocked_new_init_safe n sched t o Er) as Hf. apply fully_initialisedb_spec in Hf.
    fold st in Hf. rewrite Hf in Hb. discriminate.
  - destruct (negb (all_eq (rets (threads st)))); [discriminate|].
    destruct (1 <? length (heap st)); discriminate.
Qed.
Print Assumptions C20_unlocked_new_never_half_built.
