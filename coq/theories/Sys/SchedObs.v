(* C20 -- observation functions of the singleton machine (Sys/Singleton.v) for the extracted driver
   (`sched`, `schedtrace`, `schedp`, `schedptrace`, `welllocked`) and for the schedule search:
   plain tuples/lists only, so that the OCaml side does not depend on extracted record field names.

   Also the executable "violation" predicates the search looks for (a thread holds a lexer that is
   not fully initialised; two different instances were handed out; more than one Lexer object was
   allocated). *)
From SqlModel Require Import Base.
From SqlModel.Sys Require Import Singleton.
From SqlModel.Gen Require Import SingletonProg.

Definition obs_thread (th : thread) : nat * option nat := (pc th, ret th).
Definition obs_obj (ob : obj) : bool * (bool * list nat) := (cleared ob, (regex_set ob, kws ob)).

(* (threads, (heap, (lock holder, shared variable))) *)
Definition sobs : Type :=
  (list (nat * option nat) * (list (bool * (bool * list nat)) * (option nat * option nat)))%type.

Definition sched_obs (st : state) : sobs :=
  (map obs_thread (threads st), (map obs_obj (heap st), (lock st, inst st))).

(* every intermediate state: element k = state after the first k+1 steps *)
Fixpoint sched_states (p : list instr) (st : state) (s : list tid) : list state :=
  match s with
  | [] => []
  | t :: s' => let st' := step p st t in st' :: sched_states p st' s'
  end.

Definition schedp_final (p : list instr) (n : nat) (s : list tid) : sobs := sched_obs (run p n s).
Definition schedp_trace (p : list instr) (n : nat) (s : list tid) : list sobs :=
  map sched_obs (sched_states p (init n) s).

(* the generated program *)
Definition sched_final (n : nat) (s : list tid) : sobs := schedp_final get_default_instance_prog n s.
Definition sched_trace (n : nat) (s : list tid) : list sobs := schedp_trace get_default_instance_prog n s.
Definition sched_prog : list instr := get_default_instance_prog.
Definition sched_well_locked (p : list instr) : bool := well_locked expected_kws p.
Definition sched_shape (p : list instr) : option bool := shape_of expected_kws p.

(* ---- violations (decidable; what the search stage looks for) ------------------------------- *)
(* thread t has returned an object that is not (or no longer) fully initialised *)
Definition bad_return (e : list nat) (st : state) (t : tid) : bool :=
  match returned st t with
  | Some o => negb (fully_initialisedb e st o)
  | None => false
  end.

Fixpoint rets (ths : list thread) : list objid :=
  match ths with
  | [] => []
  | th :: r => match ret th with Some o => o :: rets r | None => rets r end
  end.

Fixpoint all_eq (l : list nat) : bool :=
  match l with
  | a :: ((b :: _) as r) => Nat.eqb a b && all_eq r
  | _ => true
  end.

(* 0 = no violation, 1 = some thread holds a not fully initialised lexer, 2 = two different
   instances handed out, 3 = more than one Lexer object allocated *)
Definition violation (e : list nat) (st : state) : nat :=
  if existsb (bad_return e st) (seq 0 (length (threads st))) then 1
  else if negb (all_eq (rets (threads st))) then 2
  else if 1 <? length (heap st) then 3
  else 0.

Definition schedp_violation (p : list instr) (n : nat) (s : list tid) : list nat :=
  map (violation expected_kws) (sched_states p (init n) s).
