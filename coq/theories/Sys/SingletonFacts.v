(* C20 -- proofs about the default-instance program (Gen/SingletonProg.v).

   Everything is proved for an arbitrary program [p] of the shape accepted by the boolean check
   [well_locked] (Sys/Singleton.v); the generated program enters only through
   [prog_well_locked], checked by vm_compute.  So a regenerated program with, say, a tenth
   dictionary still goes through, while a program without the lock (or releasing it before the
   initialisation is finished) fails that single obligation -- and is in fact refuted below. *)
From SqlModel Require Import Base.
From SqlModel.Sys Require Import Singleton.
From SqlModel.Gen Require Import SingletonProg.

(* ---- lists ------------------------------------------------------------------------------------ *)
Lemma nth_error_upd_same {A} (l : list A) k x y :
  nth_error l k = Some y -> nth_error (upd l k x) k = Some x.
Proof.
  revert k; induction l as [|a l IH]; intros [|k] H; simpl in *; try discriminate; auto.
Qed.

Lemma nth_error_upd_other {A} (l : list A) k k' x :
  k' <> k -> nth_error (upd l k x) k' = nth_error l k'.
Proof.
  revert k k'; induction l as [|a l IH]; intros [|k] [|k'] H; simpl; auto; try congruence.
Qed.

Lemma nth_error_upd_hit {A} (l : list A) k x y :
  nth_error (upd l k x) k = Some y -> y = x.
Proof.
  revert k; induction l as [|a l IH]; intros [|k] H; simpl in *; try discriminate; eauto.
  congruence.
Qed.

Lemma nth_error_upd_inv {A} (l : list A) k k' x y :
  nth_error (upd l k x) k' = Some y ->
  (k' = k /\ y = x) \/ (k' <> k /\ nth_error l k' = Some y).
Proof.
  intros H. destruct (Nat.eq_dec k' k) as [->|Hne].
  - left; split; [reflexivity|]. eapply nth_error_upd_hit; eauto.
  - right; split; [assumption|]. rewrite nth_error_upd_other in H; assumption.
Qed.

Lemma upd_length {A} (l : list A) k x : length (upd l k x) = length l.
Proof. revert k; induction l as [|a l IH]; intros [|k]; simpl; auto. Qed.

Lemma skipn_nth_cons {A} (l : list A) j x :
  nth_error l j = Some x -> skipn j l = x :: skipn (S j) l.
Proof.
  revert j; induction l as [|a l IH]; intros [|j] H; simpl in *; try discriminate.
  - congruence.
  - apply IH; assumption.
Qed.

Lemma nat_list_eqb_eq a b : nat_list_eqb a b = true <-> a = b.
Proof.
  revert b; induction a as [|x a IH]; destruct b as [|y b]; simpl; split; try congruence; auto.
  - rewrite andb_true_iff, Nat.eqb_eq, IH. intros [-> ->]; reflexivity.
  - intros E; injection E as -> ->. rewrite andb_true_iff, Nat.eqb_eq, IH; auto.
Qed.

Lemma fully_initialisedb_spec e st o :
  fully_initialisedb e st o = true <-> fully_initialised e st o.
Proof.
  unfold fully_initialisedb, fully_initialised, obj_fullyb. split.
  - destruct (nth_error (heap st) o) as [ob|]; [|discriminate].
    rewrite andb_true_iff, nat_list_eqb_eq. intros [H1 H2]. exists ob; auto.
  - intros (ob & -> & H1 & H2). rewrite andb_true_iff, nat_list_eqb_eq; auto.
Qed.

(* ---- what the boolean check gives ------------------------------------------------------------ *)
Definition shape (e : list nat) (p body : list instr) : Prop :=
  p = IAcquire :: IJumpIfInst (4 + length body) :: INewAssign :: ILoadSelf
        :: body ++ [IRelease; IReturn]
  /\ exists fin, exec_body body fresh_obj = Some fin /\ obj_fullyb e fin = true.

Lemma well_locked_shape e p : well_locked e p = true -> exists body, shape e p body.
Proof.
  unfold well_locked. intros H.
  destruct p as [|i0 p]; [discriminate|]. destruct i0; try discriminate.
  destruct p as [|i1 p]; [discriminate|]. destruct i1 as [| |tg| | | | | |]; try discriminate.
  destruct p as [|i2 p]; [discriminate|]. destruct i2; try discriminate.
  destruct p as [|i3 rest]; [discriminate|]. destruct i3; try discriminate.
  destruct (rev rest) as [|j0 l0] eqn:Hrev; [discriminate|]. destruct j0; try discriminate.
  destruct l0 as [|j1 rbody]; [discriminate|]. destruct j1; try discriminate.
  apply andb_true_iff in H. destruct H as [Htg Hex]. apply Nat.eqb_eq in Htg.
  exists (rev rbody). split.
  - assert (Hrest : rest = rev rbody ++ [IRelease; IReturn]).
    { rewrite <- (rev_involutive rest), Hrev. simpl. rewrite <- app_assoc. reflexivity. }
    rewrite Hrest, Htg. reflexivity.
  - destruct (exec_body (rev rbody) fresh_obj) as [fin|]; [|discriminate].
    exists fin; auto.
Qed.

Definition is_obj (i : instr) : bool :=
  match i with IClear | ISetRegex | IAddKw _ => true | _ => false end.

Lemma exec_obj_is_obj i ob ob' : exec_obj i ob = Some ob' -> is_obj i = true.
Proof. destruct i; simpl; try discriminate; reflexivity. Qed.

Lemma exec_body_is_obj l : forall ob fin i,
  exec_body l ob = Some fin -> In i l -> is_obj i = true.
Proof.
  induction l as [|a l IH]; intros ob fin i H Hin; simpl in *; [contradiction|].
  destruct (exec_obj a ob) as [ob'|] eqn:E; [|discriminate].
  destruct Hin as [<-|Hin]; [eapply exec_obj_is_obj; eauto | eapply IH; eauto].
Qed.

Lemma exec_instr_obj p st t th i ob ob' :
  exec_obj i ob = Some ob' -> exec_instr p st t th i = step_obj p st t th i.
Proof. destruct i; simpl; try discriminate; reflexivity. Qed.

(* =============================================================================================== *)
Section Generic.
  Variable expected : list nat.
  Variable p body : list instr.
  Hypothesis Hshape : shape expected p body.

  Notation r := (4 + length body).

  Lemma prog_at k :
    nth_error p k =
    match k with
    | 0 => Some IAcquire
    | 1 => Some (IJumpIfInst r)
    | 2 => Some INewAssign
    | 3 => Some ILoadSelf
    | S (S (S (S j))) => nth_error (body ++ [IRelease; IReturn]) j
    end.
  Proof. destruct Hshape as [-> _]. destruct k as [|[|[|[|j]]]]; reflexivity. Qed.

  Lemma tail_at j :
    nth_error (body ++ [IRelease; IReturn]) j =
    if j <? length body then nth_error body j
    else match j - length body with 0 => Some IRelease | 1 => Some IReturn | _ => None end.
  Proof.
    destruct (j <? length body) eqn:E.
    - apply Nat.ltb_lt in E. apply nth_error_app1; assumption.
    - apply Nat.ltb_ge in E. rewrite nth_error_app2 by assumption.
      destruct (j - length body) as [|[|[|q]]]; reflexivity.
  Qed.

  Lemma length_p : length p = r + 2.
  Proof. destruct Hshape as [-> _]. simpl. rewrite app_length. simpl. lia. Qed.

  Lemma body_is_obj j i : nth_error body j = Some i -> is_obj i = true.
  Proof.
    destruct Hshape as [_ (fin & Hex & _)]. intros H.
    eapply exec_body_is_obj; [exact Hex | eapply nth_error_In; eauto].
  Qed.

  Lemma instr_at k i :
    nth_error p k = Some i ->
    (k = 0 /\ i = IAcquire) \/ (k = 1 /\ i = IJumpIfInst r) \/ (k = 2 /\ i = INewAssign)
    \/ (k = 3 /\ i = ILoadSelf)
    \/ (exists j, k = 4 + j /\ j < length body /\ nth_error body j = Some i /\ is_obj i = true)
    \/ (k = r /\ i = IRelease) \/ (k = r + 1 /\ i = IReturn).
  Proof.
    rewrite prog_at. destruct k as [|[|[|[|j]]]]; intros H.
    - left; split; congruence.
    - right; left; split; congruence.
    - right; right; left; split; congruence.
    - right; right; right; left; split; congruence.
    - right; right; right; right. rewrite tail_at in H.
      destruct (j <? length body) eqn:E.
      + apply Nat.ltb_lt in E. left. exists j. repeat split; auto. eapply body_is_obj; eauto.
      + apply Nat.ltb_ge in E. right.
        destruct (j - length body) as [|[|q]] eqn:D; try discriminate.
        * left; split; [lia|congruence].
        * right; split; [lia|congruence].
  Qed.

  (* ---- every effective step moves the stepping thread's pc strictly forward ----------------- *)
  Ltac moved th :=
    eexists th, _; cbn;
    (split; [reflexivity|split; [reflexivity|split; [cbn; lia|assumption]]]).

  Lemma step_cases st t :
    (step p st t = st /\
     (nth_error (threads st) t = None \/
      exists th, nth_error (threads st) t = Some th /\
                 (length p <= pc th \/ (pc th = 0 /\ lock st <> None))))
    \/ (exists th th', nth_error (threads st) t = Some th /\
                       threads (step p st t) = upd (threads st) t th' /\
                       pc th < pc th' /\ pc th < length p).
  Proof.
    unfold step. destruct (nth_error (threads st) t) as [th|] eqn:Hth; [|left; auto].
    destruct (nth_error p (pc th)) as [i|] eqn:Hi.
    2:{ left; split; auto. right. exists th; split; auto. left. apply nth_error_None; auto. }
    assert (Hlt : pc th < length p) by (apply nth_error_Some; congruence).
    apply instr_at in Hi.
    destruct Hi as [[Hk ->]|[[Hk ->]|[[Hk ->]|[[Hk ->]|[(j & Hk & Hj & Hb & Ho)|[[Hk ->]|[Hk ->]]]]]]].
    - cbn [exec_instr]. destruct (lock st) as [t1|] eqn:Hl.
      + left; split; auto. right. exists th; split; auto. right; split; [auto|congruence].
      + right. moved th.
    - cbn [exec_instr]. destruct (inst st); right; moved th.
    - right. moved th.
    - right. moved th.
    - right. destruct i; try discriminate; cbn [exec_instr]; unfold step_obj;
        destruct (self th) as [o|]; try destruct (nth_error (heap st) o) as [ob|];
        try (match goal with |- context [exec_obj ?i ?ob] => destruct (exec_obj i ob) end);
        moved th.
    - cbn [exec_instr]. destruct (lock st); right; moved th.
    - right. moved th.
  Qed.

  (* ---- the invariant ------------------------------------------------------------------------ *)
  (* inside the with-block: after the acquire, up to and including the release *)
  Definition in_cs (k : nat) : Prop := 1 <= k <= r.

  Definition lock_excl (st : state) : Prop :=
    forall t th, nth_error (threads st) t = Some th -> in_cs (pc th) -> lock st = Some t.

  Definition lock_owned (st : state) : Prop :=
    forall t, lock st = Some t ->
              exists th, nth_error (threads st) t = Some th /\ in_cs (pc th).

  (* A: nothing allocated yet *)
  Definition phaseA (st : state) : Prop :=
    inst st = None /\ heap st = [] /\
    forall t th, nth_error (threads st) t = Some th -> pc th <= 2 /\ ret th = None.

  (* B: one thread (the lock holder) is initialising the one object; its progress through the
     body determines the object: running the REST of the body yields a fully initialised one *)
  Definition holder_ok (st : state) (th : thread) : Prop :=
    ret th = None /\
    ((pc th = 3 /\ heap st = [fresh_obj]) \/
     exists j ob fin, pc th = 4 + j /\ j <= length body /\ self th = Some 0 /\ heap st = [ob] /\
                      exec_body (skipn j body) ob = Some fin /\ obj_fullyb expected fin = true).

  Definition phaseB (st : state) : Prop :=
    inst st = Some 0 /\
    exists t th, nth_error (threads st) t = Some th /\ holder_ok st th /\
      forall t' th', t' <> t -> nth_error (threads st) t' = Some th' ->
                     pc th' = 0 /\ ret th' = None.

  (* C: published and fully initialised; nobody is between the `if` and the release *)
  Definition phaseC (st : state) : Prop :=
    inst st = Some 0 /\
    (exists ob, heap st = [ob] /\ obj_fullyb expected ob = true) /\
    forall t th, nth_error (threads st) t = Some th ->
      (pc th <= 1 \/ r <= pc th) /\ pc th <= r + 2 /\
      (forall o, ret th = Some o -> o = 0 /\ r + 2 <= pc th) /\ (r + 2 <= pc th -> ret th = Some 0).

  Definition Inv (st : state) : Prop :=
    lock_excl st /\ lock_owned st /\ (phaseA st \/ phaseB st \/ phaseC st).

  Lemma excl_upd st lk' ins' hp' t th th' :
    lock_excl st -> nth_error (threads st) t = Some th ->
    (in_cs (pc th') -> lk' = Some t) ->
    (forall t', t' <> t -> lock st = Some t' -> lk' = Some t') ->
    lock_excl (mkState lk' ins' hp' (upd (threads st) t th')).
  Proof.
    intros HL1 Hth H1 H2 t' th'' H' Hcs. cbn [threads lock] in *.
    apply nth_error_upd_inv in H'. destruct H' as [[-> ->]|[Hne H']]; [auto|].
    apply H2; [assumption|]. eapply HL1; eauto.
  Qed.

  Lemma owned_upd st lk' ins' hp' t th th' :
    lock_owned st -> nth_error (threads st) t = Some th ->
    (lk' = Some t -> in_cs (pc th')) ->
    (forall t', t' <> t -> lk' = Some t' -> lock st = Some t') ->
    lock_owned (mkState lk' ins' hp' (upd (threads st) t th')).
  Proof.
    intros HL2 Hth H1 H2 t' Hl. cbn [threads lock] in *.
    destruct (Nat.eq_dec t' t) as [->|Hne].
    - exists th'. split; [eapply nth_error_upd_same; eauto | auto].
    - destruct (HL2 t' (H2 t' Hne Hl)) as (th'' & H'' & Hcs).
      exists th''. split; [rewrite nth_error_upd_other; assumption | assumption].
  Qed.

  Lemma init_inv n : Inv (init n).
  Proof.
    assert (H0 : forall t th, nth_error (threads (init n)) t = Some th -> th = thread0).
    { intros t th H. cbn [threads init] in H. apply nth_error_In in H. eapply repeat_spec; exact H. }
    split; [|split].
    - intros t th H Hcs. apply H0 in H. subst th. unfold in_cs in Hcs. cbn in Hcs. lia.
    - intros t H. discriminate.
    - left. split; [reflexivity|split; [reflexivity|]]. intros t th H. apply H0 in H. subst th.
      cbn. split; [lia|reflexivity].
  Qed.

  (* the two lock clauses after a step of thread t, in the three situations that occur *)
  Ltac locks_same HL1 HL2 Hth Hlk :=   (* lock unchanged, t stays inside the with-block *)
    split; [apply (excl_upd _ _ _ _ _ _ _ HL1 Hth); [intros _; exact Hlk | intros ? _ H; exact H]
           |split; [apply (owned_upd _ _ _ _ _ _ _ HL2 Hth);
                    [intros _; unfold in_cs; cbn; lia | intros ? _ H; exact H]|]].
  Ltac locks_acquire HL1 HL2 Hth Hl :=  (* lock None -> Some t *)
    split; [apply (excl_upd _ _ _ _ _ _ _ HL1 Hth); [intros _; reflexivity | intros ? _ H; congruence]
           |split; [apply (owned_upd _ _ _ _ _ _ _ HL2 Hth);
                    [intros _; unfold in_cs; cbn; lia | intros ? ? H; congruence]|]].
  Ltac locks_release HL1 HL2 Hth Hlk := (* lock Some t -> None *)
    split; [apply (excl_upd _ _ _ _ _ _ _ HL1 Hth);
            [unfold in_cs; cbn; lia | intros ? ? H; congruence]
           |split; [apply (owned_upd _ _ _ _ _ _ _ HL2 Hth); intros; discriminate|]].

  Lemma step_inv st t : Inv st -> Inv (step p st t).
  Proof.
    intros HInv. pose proof HInv as (HL1 & HL2 & Hph).
    unfold step.
    destruct (nth_error (threads st) t) as [th|] eqn:Hth; [|exact HInv].
    destruct (nth_error p (pc th)) as [i|] eqn:Hi; [|exact HInv].
    pose proof length_p as Hlen.
    destruct Hph as [(HiN & Hhp & Hall)
                    |[(HiS & tH & thH & HtH & (HretH & HpcH) & Hoth)
                     |(HiS & (ob & Hhp & Hfull) & Hall)]].
    - (* ---------- phase A ---------- *)
      destruct (Hall t th Hth) as [Hpc Hret].
      rewrite prog_at in Hi.
      destruct (pc th) as [|[|[|q]]] eqn:Hpc'; [| | |lia]; injection Hi as <-; cbn [exec_instr].
      + (* IAcquire *)
        destruct (lock st) as [t1|] eqn:Hl; [exact HInv|].
        locks_acquire HL1 HL2 Hth Hl.
        left. split; [assumption|split; [assumption|]]. cbn [threads].
        intros t' th' H'. apply nth_error_upd_inv in H'. destruct H' as [[-> ->]|[Hne H']].
        * cbn; rewrite Hpc'; split; [lia|assumption].
        * eauto.
      + (* IJumpIfInst: falls through *)
        rewrite HiN. unfold set_thread.
        assert (Hcs : in_cs (pc th)) by (unfold in_cs; rewrite Hpc'; lia).
        assert (Hlk : lock st = Some t) by (eapply HL1; eauto).
        locks_same HL1 HL2 Hth Hlk.
        left. split; [assumption|split; [assumption|]]. cbn [threads].
        intros t' th' H'. apply nth_error_upd_inv in H'. destruct H' as [[-> ->]|[Hne H']].
        * cbn; rewrite Hpc'; split; [lia|assumption].
        * eauto.
      + (* INewAssign *)
        assert (Hcs : in_cs (pc th)) by (unfold in_cs; rewrite Hpc'; lia).
        assert (Hlk : lock st = Some t) by (eapply HL1; eauto).
        rewrite Hhp. cbn [length app].
        locks_same HL1 HL2 Hth Hlk.
        right; left. split; [reflexivity|]. cbn [threads heap].
        exists t, (advance th). split; [eapply nth_error_upd_same; eauto|]. split.
        * split; [assumption|]. left. cbn; rewrite Hpc'; auto.
        * intros t' th' Hne H'. rewrite nth_error_upd_other in H' by assumption.
          destruct (Hall t' th' H') as [Hpc2 Hret2]. split; [|assumption].
          destruct (pc th') as [|k] eqn:Hk; [reflexivity|].
          assert (Hcs' : in_cs (pc th')) by (unfold in_cs; rewrite Hk; lia).
          specialize (HL1 t' th' H' Hcs'). congruence.
    - (* ---------- phase B ---------- *)
      assert (HcsH : in_cs (pc thH)).
      { unfold in_cs. destruct HpcH as [[-> _]|(j & ob & fin & -> & Hj & _)]; lia. }
      assert (HlkH : lock st = Some tH) by (eapply HL1; eauto).
      destruct (Nat.eq_dec t tH) as [->|Hne].
      2:{ (* a waiting thread: blocked on the acquire *)
          destruct (Hoth t th Hne Hth) as [Hpc0 _]. rewrite Hpc0, prog_at in Hi.
          injection Hi as <-. cbn [exec_instr]. rewrite HlkH. exact HInv. }
      rewrite HtH in Hth. injection Hth as <-. rename HtH into Hth.
      rewrite prog_at in Hi.
      destruct HpcH as [[Hpc Hhp]|(j & ob & fin & Hpc & Hj & Hself & Hhp & Hex & Hfull)].
      + (* ILoadSelf *)
        rewrite Hpc in Hi. injection Hi as <-. cbn [exec_instr]. unfold set_thread.
        rewrite HiS.
        locks_same HL1 HL2 Hth HlkH.
        right; left. split; [first [assumption|reflexivity]|]. cbn [threads heap].
        eexists tH, _. split; [eapply nth_error_upd_same; eauto|]. split.
        * split; [assumption|]. right. destruct Hshape as [_ (fin & Hex & Hfull)].
          exists 0, fresh_obj, fin. cbn [pc self skipn]. rewrite Hpc.
          repeat split; auto; lia.
        * intros t' th' Hne H'. rewrite nth_error_upd_other in H' by assumption. eauto.
      + rewrite Hpc in Hi. cbn [plus] in Hi. rewrite tail_at in Hi.
        destruct (j <? length body) eqn:Ej.
        * (* a statement of default_initialization *)
          apply Nat.ltb_lt in Ej.
          rewrite (skipn_nth_cons _ _ _ Hi) in Hex. cbn [exec_body] in Hex.
          destruct (exec_obj i ob) as [ob'|] eqn:Eob; [|discriminate].
          rewrite (exec_instr_obj _ _ _ _ _ _ _ Eob). unfold step_obj.
          rewrite Hself, Hhp. cbn [nth_error]. rewrite Eob. cbn [upd].
          locks_same HL1 HL2 Hth HlkH.
          right; left. split; [first [assumption|reflexivity]|]. cbn [threads heap].
          exists tH, (advance thH). split; [eapply nth_error_upd_same; eauto|]. split.
          -- split; [assumption|]. right. exists (S j), ob', fin. cbn [pc self advance].
             rewrite Hpc. repeat split; auto; lia.
          -- intros t' th' Hne H'. rewrite nth_error_upd_other in H' by assumption. eauto.
        * (* IRelease: the initialisation is complete *)
          apply Nat.ltb_ge in Ej. assert (j = length body) by lia. subst j.
          rewrite Nat.sub_diag in Hi. injection Hi as <-. cbn [exec_instr]. rewrite HlkH.
          rewrite skipn_all in Hex. cbn [exec_body] in Hex. injection Hex as <-.
          locks_release HL1 HL2 Hth HlkH.
          right; right. split; [first [assumption|reflexivity]|]. cbn [threads heap]. split; [eauto|].
          intros t' th' H'. apply nth_error_upd_inv in H'. destruct H' as [[-> ->]|[Hne H']].
          -- cbn [pc ret advance]. rewrite HretH. repeat split; try lia; discriminate.
          -- destruct (Hoth t' th' Hne H') as [-> ->]. repeat split; try lia; discriminate.
    - (* ---------- phase C ---------- *)
      destruct (Hall t th Hth) as (Hpc & Hpc2 & Hret & Hfin).
      apply instr_at in Hi.
      destruct Hi as [[Hk ->]|[[Hk ->]|[[Hk ->]|[[Hk ->]|[(j & Hk & Hj & Hb & Ho)|[[Hk ->]|[Hk ->]]]]]]];
        try lia; cbn [exec_instr].
      + (* IAcquire *)
        destruct (lock st) as [t1|] eqn:Hl; [exact HInv|].
        locks_acquire HL1 HL2 Hth Hl.
        right; right. split; [first [assumption|reflexivity]|]. cbn [threads heap]. split; [eauto|].
        intros t' th' H'. apply nth_error_upd_inv in H'. destruct H' as [[-> ->]|[Hne H']].
        * cbn [pc ret advance]. split; [lia|split; [lia|split; [intros o Ho'; destruct (Hret o Ho'); lia | intros; lia]]].
        * eauto.
      + (* IJumpIfInst: jumps to the release *)
        rewrite HiS. unfold set_thread.
        assert (Hcs : in_cs (pc th)) by (unfold in_cs; lia).
        assert (Hlk : lock st = Some t) by (eapply HL1; eauto).
        locks_same HL1 HL2 Hth Hlk.
        right; right. split; [first [assumption|reflexivity]|]. cbn [threads heap]. split; [eauto|].
        intros t' th' H'. apply nth_error_upd_inv in H'. destruct H' as [[-> ->]|[Hne H']].
        * cbn [pc ret]. split; [lia|split; [lia|split; [intros o Ho'; destruct (Hret o Ho'); lia | intros; lia]]].
        * eauto.
      + (* IRelease *)
        assert (Hcs : in_cs (pc th)) by (unfold in_cs; lia).
        assert (Hlk : lock st = Some t) by (eapply HL1; eauto).
        rewrite Hlk.
        locks_release HL1 HL2 Hth Hlk.
        right; right. split; [first [assumption|reflexivity]|]. cbn [threads heap]. split; [eauto|].
        intros t' th' H'. apply nth_error_upd_inv in H'. destruct H' as [[-> ->]|[Hne H']].
        * cbn [pc ret advance]. split; [lia|split; [lia|split; [intros o Ho'; destruct (Hret o Ho'); lia | intros; lia]]].
        * eauto.
      + (* IReturn *)
        unfold set_thread. rewrite HiS, Hlen.
        split; [|split].
        * apply (excl_upd _ _ _ _ _ _ _ HL1 Hth); [unfold in_cs; cbn; lia | intros ? _ H; exact H].
        * apply (owned_upd _ _ _ _ _ _ _ HL2 Hth); [|intros ? _ H; exact H].
          intros Hl. destruct (HL2 t Hl) as (th1 & H1 & Hcs1).
          rewrite Hth in H1. injection H1 as <-. unfold in_cs in Hcs1. lia.
        * right; right. split; [first [assumption|reflexivity]|]. cbn [threads heap]. split; [eauto|].
          intros t' th' H'. apply nth_error_upd_inv in H'. destruct H' as [[-> ->]|[Hne H']].
          -- cbn [pc ret]. split; [lia|split; [lia|split; [intros o Ho'; injection Ho' as <-; lia | intros; reflexivity]]].
          -- eauto.
  Qed.

  Lemma run_from_inv sched : forall st, Inv st -> Inv (run_from p st sched).
  Proof.
    unfold run_from. induction sched as [|t sched IH]; intros st H; cbn [fold_left]; auto.
    apply IH. apply step_inv. assumption.
  Qed.

  Lemma run_inv n sched : Inv (run p n sched).
  Proof. apply run_from_inv. apply init_inv. Qed.

  (* ---- consequences of the invariant --------------------------------------------------------- *)
  Lemma inv_returned st t o :
    Inv st -> returned st t = Some o -> o = 0 /\ fully_initialised expected st 0.
  Proof.
    intros (_ & _ & Hph) H. unfold returned in H.
    destruct (nth_error (threads st) t) as [th|] eqn:Hth; [|discriminate].
    destruct Hph as [(_ & _ & Hall)
                    |[(_ & tH & thH & HtH & (HretH & _) & Hoth)
                     |(_ & (ob & Hhp & Hfull) & Hall)]].
    - destruct (Hall t th Hth) as [_ Hr]. congruence.
    - destruct (Nat.eq_dec t tH) as [->|Hne].
      + rewrite HtH in Hth. injection Hth as <-. congruence.
      + destruct (Hoth t th Hne Hth) as [_ Hr]. congruence.
    - destruct (Hall t th Hth) as (_ & _ & Hr & _). split; [apply (Hr o H)|].
      apply fully_initialisedb_spec. unfold fully_initialisedb. rewrite Hhp. exact Hfull.
  Qed.

  Lemma inv_heap st : Inv st -> length (heap st) <= 1.
  Proof.
    intros (_ & _ & Hph).
    destruct Hph as [(_ & -> & _)
                    |[(_ & tH & thH & _ & (_ & [[_ ->]|(j & ob & fin & _ & _ & _ & -> & _)]) & _)
                     |(_ & (ob & -> & _) & _)]]; cbn; lia.
  Qed.

  Lemma inv_inst st o : Inv st -> inst st = Some o -> o = 0.
  Proof.
    intros (_ & _ & [(H & _)|[(H & _)|(H & _)]]) Ho; congruence.
  Qed.

  (* the shared variable is assigned by INewAssign only (any program) *)
  Lemma step_inst_mono q st t : inst st <> None -> inst (step q st t) <> None.
  Proof.
    intros H. unfold step. destruct (nth_error (threads st) t) as [th|]; [|assumption].
    destruct (nth_error q (pc th)) as [i|]; [|assumption].
    destruct i; cbn [exec_instr]; unfold step_obj, set_thread;
      repeat match goal with
             | |- context [match ?x with _ => _ end] => destruct x
             end; cbn [inst]; auto; discriminate.
  Qed.

  Lemma run_from_inst_mono q sched : forall st,
    inst st <> None -> inst (run_from q st sched) <> None.
  Proof.
    unfold run_from. induction sched as [|t sched IH]; intros st H; cbn [fold_left]; auto.
    apply IH. apply step_inst_mono. assumption.
  Qed.

  (* ---- progress under fair schedules ----------------------------------------------------------- *)
  Fixpoint todo (l : list thread) : nat :=
    match l with [] => 0 | th :: l' => (length p - pc th) + todo l' end.

  Lemma todo_upd_lt l : forall t th th',
    nth_error l t = Some th -> pc th < pc th' -> pc th < length p ->
    todo (upd l t th') < todo l.
  Proof.
    induction l as [|a l IH]; intros [|t] th th' H H1 H2; simpl in *; try discriminate.
    - injection H as ->. lia.
    - specialize (IH t th th' H H1 H2). lia.
  Qed.

  Lemma todo_pos l : 0 < todo l -> exists t th, nth_error l t = Some th /\ pc th < length p.
  Proof.
    induction l as [|a l IH]; simpl; intros H; [lia|].
    destruct (Nat.ltb (pc a) (length p)) eqn:E.
    - apply Nat.ltb_lt in E. exists 0, a. auto.
    - apply Nat.ltb_ge in E. destruct IH as (t & th & H1 & H2); [lia|]. exists (S t), th. auto.
  Qed.

  Lemma todo_zero l t th : todo l = 0 -> nth_error l t = Some th -> length p <= pc th.
  Proof.
    revert t; induction l as [|a l IH]; intros [|t] H H'; simpl in *; try discriminate.
    - injection H' as ->. lia.
    - eapply IH; eauto. lia.
  Qed.

  Definition mu (st : state) : nat := todo (threads st).

  Lemma step_mu st t : step p st t = st \/ mu (step p st t) < mu st.
  Proof.
    destruct (step_cases st t) as [[H _]|(th & th' & Hth & Hthr & H1 & H2)]; [left; assumption|].
    right. unfold mu. rewrite Hthr. eapply todo_upd_lt; eauto.
  Qed.

  Lemma step_nthreads st t : length (threads (step p st t)) = length (threads st).
  Proof.
    destruct (step_cases st t) as [[-> _]|(th & th' & _ & -> & _)]; [reflexivity|].
    apply upd_length.
  Qed.

  Lemma run_from_mu_le sched : forall st, mu (run_from p st sched) <= mu st.
  Proof.
    unfold run_from. induction sched as [|t sched IH]; intros st; cbn [fold_left]; [lia|].
    destruct (step_mu st t) as [E|E]; [rewrite E; apply IH|].
    specialize (IH (step p st t)). lia.
  Qed.

  (* some thread is enabled as long as somebody has not finished *)
  Lemma inv_enabled st :
    Inv st -> 0 < mu st ->
    exists t0, t0 < length (threads st) /\ mu (step p st t0) < mu st.
  Proof.
    intros (HL1 & HL2 & _) Hpos. apply todo_pos in Hpos. destruct Hpos as (t & th & Hth & Hlt).
    pose proof length_p as Hlen.
    destruct (lock st) as [t1|] eqn:Hl.
    - (* the holder can move *)
      destruct (HL2 t1 Hl) as (th1 & Hth1 & Hcs1). unfold in_cs in Hcs1.
      exists t1. split; [apply nth_error_Some; congruence|].
      destruct (step_cases st t1) as [[_ [H|(th2 & H2 & [H|[H _]])]]|(th2 & th' & H2 & Hthr & H3 & H4)].
      + congruence.
      + rewrite Hth1 in H2. injection H2 as <-. lia.
      + rewrite Hth1 in H2. injection H2 as <-. lia.
      + unfold mu. rewrite Hthr. eapply todo_upd_lt; eauto.
    - exists t. split; [apply nth_error_Some; congruence|].
      destruct (step_cases st t) as [[_ [H|(th2 & H2 & [H|[_ H]])]]|(th2 & th' & H2 & Hthr & H3 & H4)].
      + congruence.
      + rewrite Hth in H2. injection H2 as <-. lia.
      + congruence.
      + unfold mu. rewrite Hthr. eapply todo_upd_lt; eauto.
  Qed.

  (* a block of the schedule in which the enabled thread t0 occurs makes progress *)
  Lemma block_progress blk : forall st t0,
    In t0 blk -> mu (step p st t0) < mu st -> mu (run_from p st blk) < mu st.
  Proof.
    induction blk as [|a blk IH]; intros st t0 Hin Hlt; [contradiction|].
    unfold run_from; cbn [fold_left]. fold (run_from p (step p st a) blk).
    destruct (step_mu st a) as [E|E].
    - destruct Hin as [->|Hin].
      + rewrite E in Hlt. lia.
      + rewrite E. eapply IH; eauto.
    - pose proof (run_from_mu_le blk (step p st a)). lia.
  Qed.

  Definition fair_block (n : nat) (blk : list tid) : Prop := forall t, t < n -> In t blk.

  Lemma run_from_nthreads sched : forall st,
    length (threads (run_from p st sched)) = length (threads st).
  Proof.
    unfold run_from. induction sched as [|t sched IH]; intros st; cbn [fold_left]; auto.
    rewrite IH. apply step_nthreads.
  Qed.

  Lemma fair_blocks_mu blks : forall st,
    Inv st -> Forall (fair_block (length (threads st))) blks ->
    mu (run_from p st (concat blks)) <= mu st - length blks.
  Proof.
    induction blks as [|blk blks IH]; intros st HI HF; cbn [concat length]; [cbn; lia|].
    unfold run_from. rewrite fold_left_app. fold (run_from p st blk).
    fold (run_from p (run_from p st blk) (concat blks)).
    inversion HF as [|? ? Hblk HF']; subst.
    pose proof (run_from_inv blk st HI) as HI'.
    assert (HF'' : Forall (fair_block (length (threads (run_from p st blk)))) blks)
      by (rewrite run_from_nthreads; assumption).
    specialize (IH _ HI' HF'').
    destruct (Nat.eq_dec (mu st) 0) as [Hz|Hnz].
    - pose proof (run_from_mu_le blk st). lia.
    - destruct (inv_enabled st HI) as (t0 & Ht0 & Hlt); [lia|].
      pose proof (block_progress blk st t0 (Hblk t0 Ht0) Hlt). lia.
  Qed.

  Lemma inv_done st t :
    Inv st -> mu st = 0 -> t < length (threads st) -> returned st t = Some 0.
  Proof.
    intros (_ & _ & Hph) Hmu Ht. unfold returned, mu in *.
    destruct (nth_error (threads st) t) as [th|] eqn:Hth.
    2:{ apply nth_error_None in Hth. lia. }
    pose proof (todo_zero _ _ _ Hmu Hth) as Hpc. pose proof length_p as Hlen.
    destruct Hph as [(_ & _ & Hall)
                    |[(_ & tH & thH & HtH & (_ & HpcH) & Hoth)
                     |(_ & _ & Hall)]].
    - destruct (Hall t th Hth) as [Hp _]. lia.
    - pose proof (todo_zero _ _ _ Hmu HtH) as HpcH'.
      destruct HpcH as [[Hp _]|(j & ob & fin & Hp & Hj & _)]; lia.
    - destruct (Hall t th Hth) as (_ & _ & _ & Hfin). apply Hfin. lia.
  Qed.

  Lemma mu_init n : mu (init n) = n * length p.
  Proof. unfold mu. cbn [threads init]. induction n as [|n IH]; cbn in *; lia. Qed.

  Lemma generic_no_deadlock n blks t :
    Forall (fair_block n) blks -> n * length p <= length blks -> t < n ->
    returned (run p n (concat blks)) t = Some 0.
  Proof.
    intros HF Hk Ht. unfold run.
    assert (Hn : length (threads (init n)) = n) by (cbn; apply repeat_length).
    pose proof (fair_blocks_mu blks (init n) (init_inv n)) as Hmu.
    rewrite Hn, mu_init in Hmu. specialize (Hmu HF).
    apply inv_done.
    - apply run_from_inv, init_inv.
    - lia.
    - rewrite run_from_nthreads, Hn. assumption.
  Qed.

  (* ---- a result, once returned, is kept ------------------------------------------------------- *)
  Lemma inv_ret st t th o :
    Inv st -> nth_error (threads st) t = Some th -> ret th = Some o ->
    phaseC st /\ o = 0 /\ r + 2 <= pc th.
  Proof.
    intros (_ & _ & Hph) Hth H.
    destruct Hph as [(_ & _ & Hall)
                    |[(_ & tH & thH & HtH & (HretH & _) & Hoth)
                     |HC]].
    - destruct (Hall t th Hth) as [_ Hr]. congruence.
    - destruct (Nat.eq_dec t tH) as [->|Hne].
      + rewrite HtH in Hth. injection Hth as <-. congruence.
      + destruct (Hoth t th Hne Hth) as [_ Hr]. congruence.
    - split; [exact HC|]. destruct HC as (_ & _ & Hall).
      destruct (Hall t th Hth) as (_ & _ & Hr & _). apply (Hr o H).
  Qed.

  Lemma step_returned_stable st a t o :
    Inv st -> returned st t = Some o -> returned (step p st a) t = Some o.
  Proof.
    intros HI H. unfold returned in *.
    destruct (nth_error (threads st) t) as [th|] eqn:Hth; [|discriminate].
    destruct (step_cases st a) as [[-> _]|(tha & th' & Ha & -> & _ & Hlt)];
      [rewrite Hth; assumption|].
    destruct (Nat.eq_dec t a) as [->|Hne].
    - exfalso. rewrite Hth in Ha. injection Ha as <-. pose proof length_p as Hlen.
      destruct (inv_ret st a th o HI Hth H) as (_ & _ & Hpc). lia.
    - rewrite nth_error_upd_other by assumption. rewrite Hth. assumption.
  Qed.

  Lemma run_from_returned_stable sched : forall st t o,
    Inv st -> returned st t = Some o -> returned (run_from p st sched) t = Some o.
  Proof.
    unfold run_from. induction sched as [|a sched IH]; intros st t o HI H; cbn [fold_left]; auto.
    apply IH; [apply step_inv; assumption | apply step_returned_stable; assumption].
  Qed.

End Generic.

(* =============================================================================================== *)
(* the generated program *)
Notation prog := get_default_instance_prog.

(* THE obligation on the generated program (fails when the lock is removed, see below) *)
Lemma prog_well_locked : well_locked expected_kws prog = true.
Proof. vm_compute. reflexivity. Qed.

Lemma prog_inv n sched :
  exists body, shape expected_kws prog body /\ Inv expected_kws body (run prog n sched).
Proof.
  destruct (well_locked_shape _ _ prog_well_locked) as [body Hs].
  exists body. split; [assumption|]. apply run_inv. assumption.
Qed.

(* every thread that has returned works with a completely initialised lexer *)
Theorem C20_init_safe : forall n sched t o,
  returned (run prog n sched) t = Some o ->
  fully_initialised expected_kws (run prog n sched) o.
Proof.
  intros n sched t o H. destruct (prog_inv n sched) as (body & Hs & HI).
  destruct (inv_returned _ _ _ _ _ HI H) as [-> Hf]. exact Hf.
Qed.
Print Assumptions C20_init_safe.

Theorem C20_same_instance : forall n sched t1 t2 o1 o2,
  returned (run prog n sched) t1 = Some o1 ->
  returned (run prog n sched) t2 = Some o2 -> o1 = o2.
Proof.
  intros n sched t1 t2 o1 o2 H1 H2. destruct (prog_inv n sched) as (body & Hs & HI).
  destruct (inv_returned _ _ _ _ _ HI H1) as [-> _].
  destruct (inv_returned _ _ _ _ _ HI H2) as [-> _]. reflexivity.
Qed.
Print Assumptions C20_same_instance.

(* the heap is append-only (INewAssign is the only instruction that extends it), so its length is
   the number of objects ever allocated *)
Theorem C20_single_init : forall n sched, length (heap (run prog n sched)) <= 1.
Proof.
  intros n sched. destruct (prog_inv n sched) as (body & Hs & HI). eapply inv_heap; eauto.
Qed.
Print Assumptions C20_single_init.

(* an instance once published is never replaced: at any later time the shared variable still
   holds the same object *)
Theorem C20_never_replaced : forall n sched sched' o,
  inst (run prog n sched) = Some o -> inst (run prog n (sched ++ sched')) = Some o.
Proof.
  intros n sched sched' o H.
  destruct (prog_inv n sched) as (body & Hs & HI).
  destruct (prog_inv n (sched ++ sched')) as (body' & Hs' & HI').
  pose proof (inv_inst _ _ _ _ HI H) as Ho. subst o.
  assert (Hne : inst (run prog n (sched ++ sched')) <> None).
  { unfold run, run_from. rewrite fold_left_app.
    apply (run_from_inst_mono prog sched' (fold_left (step prog) sched (init n))).
    unfold run, run_from in H. rewrite H. discriminate. }
  destruct (inst (run prog n (sched ++ sched'))) as [o'|] eqn:E; [|congruence].
  f_equal. exact (inv_inst _ _ _ _ HI' E).
Qed.
Print Assumptions C20_never_replaced.

(* a thread that has returned keeps its result, and that object stays fully initialised *)
Theorem C20_returned_stable : forall n sched sched' t o,
  returned (run prog n sched) t = Some o ->
  returned (run prog n (sched ++ sched')) t = Some o.
Proof.
  intros n sched sched' t o H.
  destruct (well_locked_shape _ _ prog_well_locked) as [body Hs].
  unfold run, run_from. rewrite fold_left_app.
  apply (run_from_returned_stable _ _ _ Hs sched'); [|exact H].
  apply (run_inv _ _ _ Hs n sched).
Qed.
Print Assumptions C20_returned_stable.

Corollary C20_init_safe_later : forall n sched sched' t o,
  returned (run prog n sched) t = Some o ->
  fully_initialised expected_kws (run prog n (sched ++ sched')) o.
Proof.
  intros n sched sched' t o H. apply (C20_init_safe n (sched ++ sched') t o).
  apply C20_returned_stable. exact H.
Qed.
Print Assumptions C20_init_safe_later.

(* ---- no deadlock ---------------------------------------------------------------------------------
   Progress for every schedule that is a concatenation of at least n * |prog| "fair blocks" (a
   block = any list of thread ids in which every thread 0..n-1 occurs at least once, in any
   order, with any repetitions): every thread has returned the instance.  Round-robin is the
   special case block = [0;...;n-1].
   `_partial`: (1) the bound n * |prog| blocks is not tight; (2) nothing is said about schedules
   that are unfair (a thread never scheduled again while holding the lock blocks everybody --
   that is a property of any lock, not a defect). *)
Theorem C20_no_deadlock_fair : forall n blks t,
  Forall (fair_block n) blks -> n * length prog <= length blks -> t < n ->
  returned (run prog n (concat blks)) t = Some 0.
Proof.
  intros n blks t HF Hk Ht.
  destruct (well_locked_shape _ _ prog_well_locked) as [body Hs].
  eapply generic_no_deadlock; eauto.
Qed.
Print Assumptions C20_no_deadlock_fair.

Theorem C20_no_deadlock_partial : forall n k t,
  n * length prog <= k -> t < n ->
  returned (run prog n (round_robin n k)) t = Some 0.
Proof.
  intros n k t Hk Ht. unfold round_robin. apply C20_no_deadlock_fair; auto.
  - apply Forall_forall. intros blk Hin. apply repeat_spec in Hin. subst blk.
    intros t' Ht'. apply in_seq. lia.
  - rewrite repeat_length. assumption.
Qed.
Print Assumptions C20_no_deadlock_partial.

(* ---- the heap is append-only, for every program: [length (heap _)] counts allocations ---------- *)
Lemma step_heap_mono q st t : length (heap st) <= length (heap (step q st t)).
Proof.
  unfold step. destruct (nth_error (threads st) t) as [th|]; [|lia].
  destruct (nth_error q (pc th)) as [i|]; [|lia].
  destruct i; cbn [exec_instr]; unfold step_obj, set_thread;
    repeat match goal with
           | |- context [match ?x with _ => _ end] => destruct x
           end; cbn [heap]; rewrite ?upd_length, ?app_length; cbn [length]; lia.
Qed.

(* =============================================================================================== *)
(* Refutations: the same statements are FALSE for the unprotected variants. *)

Definition is_lock_instr (i : instr) : bool :=
  match i with IAcquire | IRelease => true | _ => false end.

(* the historic program: no `with cls._lock:`.  (The jump target moves up by one because the
   IAcquire in front of it is gone; it now designates the IReturn.) *)
Definition unlocked_of (p : list instr) : list instr :=
  map (fun i => match i with IJumpIfInst tg => IJumpIfInst (tg - 1) | _ => i end)
      (filter (fun i => negb (is_lock_instr i)) p).
Definition unlocked_prog : list instr := unlocked_of prog.

(* the lock is dropped right after the assignment:
     with cls._lock:
         if cls._default_instance is None: cls._default_instance = cls()
     cls._default_instance.default_initialization()
     return cls._default_instance *)
Definition early_release_of (p : list instr) : list instr :=
  match p with
  | a :: IJumpIfInst _ :: nw :: rest =>
      a :: IJumpIfInst 3 :: nw :: IRelease
        :: filter (fun i => match i with IRelease => false | _ => true end) rest
  | _ => p
  end.
Definition early_release_prog : list instr := early_release_of prog.

Eval vm_compute in unlocked_prog.
Eval vm_compute in early_release_prog.

(* the proof obligation fails for both *)
Example unlocked_not_well_locked : well_locked expected_kws unlocked_prog = false.
Proof. vm_compute. reflexivity. Qed.
Example early_release_not_well_locked : well_locked expected_kws early_release_prog = false.
Proof. vm_compute. reflexivity. Qed.

(* A: test, allocate+publish;  B: test (sees the instance), return -> B holds a Lexer without
   _SQL_REGEX/_keywords *)
Theorem C20_unlocked_refuted :
  exists sched t o,
    returned (run unlocked_prog 2 sched) t = Some o /\
    ~ fully_initialised expected_kws (run unlocked_prog 2 sched) o.
Proof.
  exists [0; 0; 1; 1], 1, 0. split; [vm_compute; reflexivity|].
  intros H. apply fully_initialisedb_spec in H. vm_compute in H. discriminate.
Qed.
Print Assumptions C20_unlocked_refuted.

Eval vm_compute in run unlocked_prog 2 [0; 0; 1; 1].

(* also: two objects get allocated (A and B both see None) and the two threads end up with
   different instances *)
Theorem C20_unlocked_two_instances_refuted :
  exists sched o1 o2,
    returned (run unlocked_prog 2 sched) 0 = Some o1 /\
    returned (run unlocked_prog 2 sched) 1 = Some o2 /\ o1 <> o2 /\
    length (heap (run unlocked_prog 2 sched)) = 2.
Proof.
  exists ([0; 1; 0] ++ repeat 0 (length unlocked_prog) ++ [1; 0] ++ repeat 1 (length unlocked_prog)).
  vm_compute. eexists _, _. repeat split; discriminate.
Qed.
Print Assumptions C20_unlocked_two_instances_refuted.

(* A runs everything but its return; B enters, finds the instance, leaves the lock and re-runs
   clear(); A returns an object whose lists have just been emptied *)
Theorem C20_early_release_refuted :
  exists sched t o,
    returned (run early_release_prog 2 sched) t = Some o /\
    ~ fully_initialised expected_kws (run early_release_prog 2 sched) o.
Proof.
  exists (repeat 0 (length early_release_prog - 1) ++ [1; 1; 1; 1; 1; 0]), 0, 0.
  split; [vm_compute; reflexivity|].
  intros H. apply fully_initialisedb_spec in H. vm_compute in H. discriminate.
Qed.
Print Assumptions C20_early_release_refuted.

Eval vm_compute in
  run early_release_prog 2 (repeat 0 (length early_release_prog - 1) ++ [1; 1; 1; 1; 1; 0]).

(* =============================================================================================== *)
(* Examples: the hypotheses of the theorems are satisfiable; sample runs *)

(* thread 0 gets the lock and is pre-empted in the middle of the initialisation; 1 and 2 block *)
Eval vm_compute in run prog 3 [0; 0; 0; 0; 0; 0; 0; 1; 2; 1; 2; 0; 1].
(* round-robin, 3 threads, 21 rounds: everybody has returned object 0 *)
Eval vm_compute in run prog 3 (round_robin 3 21).
(* thread 1 wins, finishes; 0 and 2 come later and take the fast path *)
Eval vm_compute in run prog 3 (repeat 1 (length prog) ++ [0; 2; 0; 2; 2; 0; 0; 2; 2; 2; 2]).

Example C20_ex_returned :
  returned (run prog 3 (repeat 1 (length prog) ++ [0; 2; 0; 2; 2; 0; 0; 2; 2; 2; 2])) 2 = Some 0
  /\ returned (run prog 3 (repeat 1 (length prog) ++ [0; 2; 0; 2; 2; 0; 0; 2; 2; 2; 2])) 1 = Some 0
  /\ fully_initialisedb expected_kws (run prog 3 (repeat 1 (length prog) ++ [0; 2; 0; 2; 2; 0; 0; 2; 2; 2; 2])) 0 = true.
Proof. vm_compute. repeat split. Qed.

(* in the middle of the initialisation nobody has returned, and the published object is NOT yet
   fully initialised -- the theorems are not vacuous *)
Example C20_ex_midway :
  let st := run prog 3 [0; 0; 0; 0; 0; 0; 0; 1; 2; 1; 2; 0; 1] in
  inst st = Some 0 /\ fully_initialisedb expected_kws st 0 = false
  /\ returned st 0 = None /\ returned st 1 = None /\ lock st = Some 0.
Proof. vm_compute. repeat split. Qed.

Example C20_ex_round_robin :
  map (returned (run prog 4 (round_robin 4 (4 * length prog)))) [0; 1; 2; 3]
  = [Some 0; Some 0; Some 0; Some 0].
Proof. vm_compute. reflexivity. Qed.
