(* C20 -- proofs about the default-instance program (Gen/SingletonProg.v).

   Everything is proved for an arbitrary program [p] of one of the TWO shapes accepted by the boolean
   check [well_locked] (Sys/Singleton.v: publish-then-initialise [prog_of false body] and
   initialise-then-publish [prog_of true body]); the generated program enters only through
   [prog_well_locked], checked by vm_compute.  So a regenerated program with, say, a tenth
   dictionary, or with the instance built in a local variable and published last, still goes
   through, while a program without the lock (or releasing it before the initialisation is
   finished) fails that single obligation -- and is in fact refuted below.

   Reference programs over the body of the generated program: [old_prog] (publish first) and
   [new_prog] (publish last); the generated program is one of the two (prog_is_old_or_new).  The
   refutations are stated on variants of these reference programs, so they are the same theorems
   whichever shape the source currently has:
     old shape without lock / early release : init_safe, same_instance, single_init all refuted
     new shape without lock                 : same_instance, single_init refuted, but init_safe
                                              HOLDS for every thread count and schedule
                                              (C20_unlocked_new_init_safe). *)
From SqlModel Require Import Base.
From SqlModel.Sys Require Import Singleton.
From SqlModel.Gen Require Import SingletonProg.

(* ---- lists ------------------------------------------------------------------------------------ *)
Lemma nth_error_upd_same {A} (l : list A) k x y :
  nth_error l k = Some y -> nth_error (upd l k x) k = Some x.
Proof.
  revert k; induction l as [|a l IH]; intros [|k] H; simpl in *; try discriminate; auto.
Qed.

Lemma nth_error_upd_other {A} (l : list A) k k' x :
  k' <> k -> nth_error (upd l k x) k' = nth_error l k'.
Proof.
  revert k k'; induction l as [|a l IH]; intros [|k] [|k'] H; simpl; auto; try congruence.
Qed.

Lemma nth_error_upd_hit {A} (l : list A) k x y :
  nth_error (upd l k x) k = Some y -> y = x.
Proof.
  revert k; induction l as [|a l IH]; intros [|k] H; simpl in *; try discriminate; eauto.
  congruence.
Qed.

Lemma nth_error_upd_inv {A} (l : list A) k k' x y :
  nth_error (upd l k x) k' = Some y ->
  (k' = k /\ y = x) \/ (k' <> k /\ nth_error l k' = Some y).
Proof.
  intros H. destruct (Nat.eq_dec k' k) as [->|Hne].
  - left; split; [reflexivity|]. eapply nth_error_upd_hit; eauto.
  - right; split; [assumption|]. rewrite nth_error_upd_other in H; assumption.
Qed.

Lemma upd_length {A} (l : list A) k x : length (upd l k x) = length l.
Proof. revert k; induction l as [|a l IH]; intros [|k]; simpl; auto. Qed.

Lemma skipn_nth_cons {A} (l : list A) j x :
  nth_error l j = Some x -> skipn j l = x :: skipn (S j) l.
Proof.
  revert j; induction l as [|a l IH]; intros [|j] H; simpl in *; try discriminate.
  - congruence.
  - apply IH; assumption.
Qed.

Lemma nat_list_eqb_eq a b : nat_list_eqb a b = true <-> a = b.
Proof.
  revert b; induction a as [|x a IH]; destruct b as [|y b]; simpl; split; try congruence; auto.
  - rewrite andb_true_iff, Nat.eqb_eq, IH. intros [-> ->]; reflexivity.
  - intros E; injection E as -> ->. rewrite andb_true_iff, Nat.eqb_eq, IH; auto.
Qed.

Lemma fully_initialisedb_spec e st o :
  fully_initialisedb e st o = true <-> fully_initialised e st o.
Proof.
  unfold fully_initialisedb, fully_initialised, obj_fullyb. split.
  - destruct (nth_error (heap st) o) as [ob|]; [|discriminate].
    rewrite andb_true_iff, nat_list_eqb_eq. intros [H1 H2]. exists ob; auto.
  - intros (ob & -> & H1 & H2). rewrite andb_true_iff, nat_list_eqb_eq; auto.
Qed.

(* ---- what the boolean check gives ------------------------------------------------------------ *)
(* position of the first statement of the body: 3 when the object is built in a local, 4 when the
   receiver is first loaded from the shared variable *)
Definition offs (nw : bool) : nat := if nw then 3 else 4.

Definition shape (e : list nat) (nw : bool) (p body : list instr) : Prop :=
  p = prog_of nw body
  /\ exists fin, exec_body body fresh_obj = Some fin /\ obj_fullyb e fin = true.

Lemma body_okb_spec e r body :
  body_okb e r body = true ->
  r = 4 + length body /\ exists fin, exec_body body fresh_obj = Some fin /\ obj_fullyb e fin = true.
Proof.
  unfold body_okb. intros H. apply andb_true_iff in H. destruct H as [Hr Hex].
  apply Nat.eqb_eq in Hr. split; [exact Hr|].
  destruct (exec_body body fresh_obj) as [fin|]; [|discriminate]. exists fin; auto.
Qed.

Lemma shape_of_shape e p nw : shape_of e p = Some nw -> exists body, shape e nw p body.
Proof.
  unfold shape_of. intros H.
  destruct p as [|i0 p]; [discriminate|]. destruct i0; try discriminate.
  destruct p as [|i1 p]; [discriminate|]. destruct i1 as [| |tg| | | | | | |k|]; try discriminate.
  destruct p as [|i2 rest]; [discriminate|]. destruct i2; try discriminate.
  - (* INewAssign; ILoadSelf *)
    destruct rest as [|i3 rest]; [discriminate|]. destruct i3; try discriminate.
    destruct (rev rest) as [|j0 l0] eqn:Hrev; [discriminate|]. destruct j0; try discriminate.
    destruct l0 as [|j1 rbody]; [discriminate|]. destruct j1; try discriminate.
    destruct (body_okb e tg (rev rbody)) eqn:Hb; [|discriminate]. injection H as <-.
    apply body_okb_spec in Hb. destruct Hb as [Htg Hex].
    exists (rev rbody). split; [|exact Hex].
    assert (Hrest : rest = rev rbody ++ [IRelease; IReturn]).
    { rewrite <- (rev_involutive rest), Hrev. simpl. rewrite <- app_assoc. reflexivity. }
    rewrite Hrest, Htg. reflexivity.
  - (* INewLocal *)
    destruct (rev rest) as [|j0 l0] eqn:Hrev; [discriminate|]. destruct j0; try discriminate.
    destruct l0 as [|j1 l1]; [discriminate|]. destruct j1; try discriminate.
    destruct l1 as [|j2 rbody]; [discriminate|]. destruct j2; try discriminate.
    destruct (body_okb e tg (rev rbody)) eqn:Hb; [|discriminate]. injection H as <-.
    apply body_okb_spec in Hb. destruct Hb as [Htg Hex].
    exists (rev rbody). split; [|exact Hex].
    assert (Hrest : rest = rev rbody ++ [IPublishSelf; IRelease; IReturn]).
    { rewrite <- (rev_involutive rest), Hrev. simpl. rewrite <- !app_assoc. reflexivity. }
    rewrite Hrest, Htg. reflexivity.
Qed.

Lemma well_locked_shape e p : well_locked e p = true -> exists nw body, shape e nw p body.
Proof.
  unfold well_locked. destruct (shape_of e p) as [nw|] eqn:E; [|discriminate].
  intros _. exists nw. apply shape_of_shape. exact E.
Qed.

Definition is_obj (i : instr) : bool :=
  match i with IClear | ISetRegex | IAddKw _ => true | _ => false end.

Lemma exec_obj_is_obj i ob ob' : exec_obj i ob = Some ob' -> is_obj i = true.
Proof. destruct i; simpl; try discriminate; reflexivity. Qed.

Lemma exec_body_is_obj l : forall ob fin i,
  exec_body l ob = Some fin -> In i l -> is_obj i = true.
Proof.
  induction l as [|a l IH]; intros ob fin i H Hin; simpl in *; [contradiction|].
  destruct (exec_obj a ob) as [ob'|] eqn:E; [|discriminate].
  destruct Hin as [<-|Hin]; [eapply exec_obj_is_obj; eauto | eapply IH; eauto].
Qed.

Lemma exec_instr_obj p st t th i ob ob' :
  exec_obj i ob = Some ob' -> exec_instr p st t th i = step_obj p st t th i.
Proof. destruct i; simpl; try discriminate; reflexivity. Qed.

Lemma nth_error_S {A} (a : A) l n : nth_error (a :: l) (S n) = nth_error l n.
Proof. reflexivity. Qed.

Lemma nth_error_app_tail {A} (l tl : list A) j x :
  nth_error (l ++ tl) j = Some x ->
  (j < length l /\ nth_error l j = Some x) \/ (length l <= j /\ nth_error tl (j - length l) = Some x).
Proof.
  intros H. destruct (Nat.ltb j (length l)) eqn:E.
  - apply Nat.ltb_lt in E. left. split; [exact E|]. rewrite nth_error_app1 in H; assumption.
  - apply Nat.ltb_ge in E. right. split; [exact E|]. rewrite nth_error_app2 in H; assumption.
Qed.

(* =============================================================================================== *)
Section Generic.
  Variable expected : list nat.
  Variable nw : bool.
  Variable p body : list instr.
  Hypothesis Hshape : shape expected nw p body.

  Notation r := (4 + length body).
  Notation off := (offs nw).

  Lemma off_cases : (nw = true /\ off = 3) \/ (nw = false /\ off = 4).
  Proof. destruct nw; [left|right]; split; reflexivity. Qed.

  Lemma off_bounds : 3 <= off <= 4.
  Proof. destruct off_cases as [[_ H]|[_ H]]; rewrite H; lia. Qed.

  Lemma length_p : length p = r + 2.
  Proof.
    destruct Hshape as [Hp _]. rewrite Hp. unfold prog_of.
    destruct nw; cbn [length]; rewrite app_length; cbn [length]; lia.
  Qed.

  Lemma body_is_obj j i : nth_error body j = Some i -> is_obj i = true.
  Proof.
    destruct Hshape as [_ (fin & Hex & _)]. intros H.
    eapply exec_body_is_obj; [exact Hex | eapply nth_error_In; eauto].
  Qed.

  (* ---- forward look-up ---------------------------------------------------------------------- *)
  Lemma at_0 : nth_error p 0 = Some IAcquire.
  Proof. destruct Hshape as [Hp _]. rewrite Hp. reflexivity. Qed.
  Lemma at_1 : nth_error p 1 = Some (IJumpIfInst r).
  Proof. destruct Hshape as [Hp _]. rewrite Hp. reflexivity. Qed.
  Lemma at_2 : nth_error p 2 = Some (if nw then INewLocal else INewAssign).
  Proof. destruct Hshape as [Hp _]. rewrite Hp. unfold prog_of. destruct nw; reflexivity. Qed.
  Lemma at_load : nw = false -> nth_error p 3 = Some ILoadSelf.
  Proof. destruct Hshape as [Hp _]. rewrite Hp. intros Hn. unfold prog_of. rewrite Hn. reflexivity. Qed.
  Lemma at_body j : j < length body -> nth_error p (off + j) = nth_error body j.
  Proof.
    destruct Hshape as [Hp _]. rewrite Hp. intros Hj. unfold prog_of, offs.
    destruct nw; cbn [plus nth_error]; apply nth_error_app1; exact Hj.
  Qed.
  Lemma at_publish : nw = true -> nth_error p (off + length body) = Some IPublishSelf.
  Proof.
    destruct Hshape as [Hp _]. rewrite Hp. intros Hn. unfold prog_of, offs. rewrite Hn.
    cbn [plus nth_error]. rewrite nth_error_app2 by lia. rewrite Nat.sub_diag. reflexivity.
  Qed.
  Lemma at_release : nth_error p r = Some IRelease.
  Proof.
    destruct Hshape as [Hp _]. rewrite Hp. unfold prog_of.
    change (4 + length body) with (S (S (S (S (length body))))).
    destruct nw; rewrite !nth_error_S; rewrite nth_error_app2 by lia.
    - replace (S (length body) - length body) with 1 by lia. reflexivity.
    - rewrite Nat.sub_diag. reflexivity.
  Qed.

  (* ---- backward look-up --------------------------------------------------------------------- *)
  Lemma instr_at k i :
    nth_error p k = Some i ->
    (k = 0 /\ i = IAcquire) \/ (k = 1 /\ i = IJumpIfInst r)
    \/ (k = 2 /\ nw = false /\ i = INewAssign) \/ (k = 2 /\ nw = true /\ i = INewLocal)
    \/ (k = 3 /\ nw = false /\ i = ILoadSelf)
    \/ (exists j, k = off + j /\ j < length body /\ nth_error body j = Some i /\ is_obj i = true)
    \/ (k = r - 1 /\ nw = true /\ i = IPublishSelf)
    \/ (k = r /\ i = IRelease) \/ (k = r + 1 /\ i = IReturn).
  Proof.
    pose proof Hshape as [Hp _]. pose proof body_is_obj as Hbo.
    rewrite Hp. unfold prog_of, offs. intros H.
    destruct k as [|[|k2]]; cbn [nth_error] in H.
    - left. split; congruence.
    - right; left. split; congruence.
    - destruct nw.
      + destruct k2 as [|j]; cbn [nth_error] in H.
        * do 3 right; left. repeat split; congruence.
        * apply nth_error_app_tail in H. destruct H as [[Hj Hb]|[Hj Hb]].
          -- do 5 right; left. exists j. repeat split; auto. eapply Hbo; eauto.
          -- destruct (j - length body) as [|[|[|q]]] eqn:D; cbn [nth_error] in Hb.
             ++ do 6 right; left. repeat split; [lia|congruence].
             ++ do 7 right; left. split; [lia|congruence].
             ++ do 8 right. split; [lia|congruence].
             ++ destruct q; discriminate.
      + destruct k2 as [|[|j]]; cbn [nth_error] in H.
        * do 2 right; left. repeat split; congruence.
        * do 4 right; left. repeat split; congruence.
        * apply nth_error_app_tail in H. destruct H as [[Hj Hb]|[Hj Hb]].
          -- do 5 right; left. exists j. repeat split; auto. eapply Hbo; eauto.
          -- destruct (j - length body) as [|[|q]] eqn:D; cbn [nth_error] in Hb.
             ++ do 7 right; left. split; [lia|congruence].
             ++ do 8 right. split; [lia|congruence].
             ++ destruct q; discriminate.
  Qed.

  (* ---- every effective step moves the stepping thread's pc strictly forward ----------------- *)
  Ltac moved th :=
    eexists th, _; cbn;
    (split; [reflexivity|split; [reflexivity|split; [cbn; lia|assumption]]]).

  Lemma step_cases st t :
    (step p st t = st /\
     (nth_error (threads st) t = None \/
      exists th, nth_error (threads st) t = Some th /\
                 (length p <= pc th \/ (pc th = 0 /\ lock st <> None))))
    \/ (exists th th', nth_error (threads st) t = Some th /\
                       threads (step p st t) = upd (threads st) t th' /\
                       pc th < pc th' /\ pc th < length p).
  Proof.
    unfold step. destruct (nth_error (threads st) t) as [th|] eqn:Hth; [|left; auto].
    destruct (nth_error p (pc th)) as [i|] eqn:Hi.
    2:{ left; split; auto. right. exists th; split; auto. left. apply nth_error_None; auto. }
    assert (Hlt : pc th < length p) by (apply nth_error_Some; congruence).
    apply instr_at in Hi.
    destruct Hi as [[Hk ->]|[[Hk ->]|[(Hk & Hn & ->)|[(Hk & Hn & ->)|[(Hk & Hn & ->)
                   |[(j & Hk & Hj & Hb & Ho)|[(Hk & Hn & ->)|[[Hk ->]|[Hk ->]]]]]]]]].
    - cbn [exec_instr]. destruct (lock st) as [t1|] eqn:Hl.
      + left; split; auto. right. exists th; split; auto. right; split; [auto|congruence].
      + right. moved th.
    - cbn [exec_instr]. destruct (inst st); right; moved th.
    - right. moved th.
    - right. moved th.
    - right. moved th.
    - right. destruct i; try discriminate; cbn [exec_instr]; unfold step_obj;
        destruct (self th) as [o|]; try destruct (nth_error (heap st) o) as [ob|];
        try (match goal with |- context [exec_obj ?i ?ob] => destruct (exec_obj i ob) end);
        moved th.
    - cbn [exec_instr]. destruct (self th) as [o|]; right; moved th.
    - cbn [exec_instr]. destruct (lock st); right; moved th.
    - right. moved th.
  Qed.

  (* ---- the invariant ------------------------------------------------------------------------ *)
  (* inside the with-block: after the acquire, up to and including the release *)
  Definition in_cs (k : nat) : Prop := 1 <= k <= r.

  Definition lock_excl (st : state) : Prop :=
    forall t th, nth_error (threads st) t = Some th -> in_cs (pc th) -> lock st = Some t.

  Definition lock_owned (st : state) : Prop :=
    forall t, lock st = Some t ->
              exists th, nth_error (threads st) t = Some th /\ in_cs (pc th).

  (* A: nothing allocated yet *)
  Definition phaseA (st : state) : Prop :=
    inst st = None /\ heap st = [] /\
    forall t th, nth_error (threads st) t = Some th -> pc th <= 2 /\ ret th = None.

  (* B: one thread (the lock holder) is initialising the one object; its progress through the
     body determines the object: running the REST of the body yields a fully initialised one.
     In the publish-first shape the shared variable already designates the object (and the lock is
     what keeps the others away from it); in the publish-last shape it is still None. *)
  Definition holder_ok (st : state) (th : thread) : Prop :=
    ret th = None /\
    ((nw = false /\ pc th = 3 /\ heap st = [fresh_obj]) \/
     exists j ob fin, pc th = off + j /\ j <= length body /\ self th = Some 0 /\ heap st = [ob] /\
                      exec_body (skipn j body) ob = Some fin /\ obj_fullyb expected fin = true).

  Definition phaseB (st : state) : Prop :=
    inst st = (if nw then None else Some 0) /\
    exists t th, nth_error (threads st) t = Some th /\ holder_ok st th /\
      forall t' th', t' <> t -> nth_error (threads st) t' = Some th' ->
                     pc th' = 0 /\ ret th' = None.

  (* C: published and fully initialised; nobody is between the `if` and the release *)
  Definition phaseC (st : state) : Prop :=
    inst st = Some 0 /\
    (exists ob, heap st = [ob] /\ obj_fullyb expected ob = true) /\
    forall t th, nth_error (threads st) t = Some th ->
      (pc th <= 1 \/ r <= pc th) /\ pc th <= r + 2 /\
      (forall o, ret th = Some o -> o = 0 /\ r + 2 <= pc th) /\ (r + 2 <= pc th -> ret th = Some 0).

  Definition Inv (st : state) : Prop :=
    lock_excl st /\ lock_owned st /\ (phaseA st \/ phaseB st \/ phaseC st).

  Lemma excl_upd st lk' ins' hp' t th th' :
    lock_excl st -> nth_error (threads st) t = Some th ->
    (in_cs (pc th') -> lk' = Some t) ->
    (forall t', t' <> t -> lock st = Some t' -> lk' = Some t') ->
    lock_excl (mkState lk' ins' hp' (upd (threads st) t th')).
  Proof.
    intros HL1 Hth H1 H2 t' th'' H' Hcs. cbn [threads lock] in *.
    apply nth_error_upd_inv in H'. destruct H' as [[-> ->]|[Hne H']]; [auto|].
    apply H2; [assumption|]. eapply HL1; eauto.
  Qed.

  Lemma owned_upd st lk' ins' hp' t th th' :
    lock_owned st -> nth_error (threads st) t = Some th ->
    (lk' = Some t -> in_cs (pc th')) ->
    (forall t', t' <> t -> lk' = Some t' -> lock st = Some t') ->
    lock_owned (mkState lk' ins' hp' (upd (threads st) t th')).
  Proof.
    intros HL2 Hth H1 H2 t' Hl. cbn [threads lock] in *.
    destruct (Nat.eq_dec t' t) as [->|Hne].
    - exists th'. split; [eapply nth_error_upd_same; eauto | auto].
    - destruct (HL2 t' (H2 t' Hne Hl)) as (th'' & H'' & Hcs).
      exists th''. split; [rewrite nth_error_upd_other; assumption | assumption].
  Qed.

  Lemma init_inv n : Inv (init n).
  Proof.
    assert (H0 : forall t th, nth_error (threads (init n)) t = Some th -> th = thread0).
    { intros t th H. cbn [threads init] in H. apply nth_error_In in H. eapply repeat_spec; exact H. }
    split; [|split].
    - intros t th H Hcs. apply H0 in H. subst th. unfold in_cs in Hcs. cbn in Hcs. lia.
    - intros t H. discriminate.
    - left. split; [reflexivity|split; [reflexivity|]]. intros t th H. apply H0 in H. subst th.
      cbn. split; [lia|reflexivity].
  Qed.

  (* the two lock clauses after a step of thread t, in the three situations that occur *)
  Ltac locks_same HL1 HL2 Hth Hlk :=   (* lock unchanged, t stays inside the with-block *)
    split; [apply (excl_upd _ _ _ _ _ _ _ HL1 Hth); [intros _; exact Hlk | intros ? _ H; exact H]
           |split; [apply (owned_upd _ _ _ _ _ _ _ HL2 Hth);
                    [intros _; unfold in_cs; cbn; lia | intros ? _ H; exact H]|]].
  Ltac locks_acquire HL1 HL2 Hth Hl :=  (* lock None -> Some t *)
    split; [apply (excl_upd _ _ _ _ _ _ _ HL1 Hth); [intros _; reflexivity | intros ? _ H; congruence]
           |split; [apply (owned_upd _ _ _ _ _ _ _ HL2 Hth);
                    [intros _; unfold in_cs; cbn; lia | intros ? ? H; congruence]|]].
  Ltac locks_release HL1 HL2 Hth Hlk := (* lock Some t -> None *)
    split; [apply (excl_upd _ _ _ _ _ _ _ HL1 Hth);
            [unfold in_cs; cbn; lia | intros ? ? H; congruence]
           |split; [apply (owned_upd _ _ _ _ _ _ _ HL2 Hth); intros; discriminate|]].

  Lemma step_inv st t : Inv st -> Inv (step p st t).
  Proof.
    intros HInv. pose proof HInv as (HL1 & HL2 & Hph).
    unfold step.
    destruct (nth_error (threads st) t) as [th|] eqn:Hth; [|exact HInv].
    destruct (nth_error p (pc th)) as [i|] eqn:Hi; [|exact HInv].
    pose proof length_p as Hlen. pose proof off_bounds as Hob.
    destruct Hph as [(HiN & Hhp & Hall)
                    |[(HiS & tH & thH & HtH & (HretH & HpcH) & Hoth)
                     |(HiS & (ob & Hhp & Hfull) & Hall)]].
    - (* ---------- phase A ---------- *)
      destruct (Hall t th Hth) as [Hpc Hret].
      destruct (pc th) as [|[|[|q]]] eqn:Hpc'; [| | |lia].
      + (* IAcquire *)
        rewrite at_0 in Hi. injection Hi as <-. cbn [exec_instr].
        destruct (lock st) as [t1|] eqn:Hl; [exact HInv|].
        locks_acquire HL1 HL2 Hth Hl.
        left. split; [assumption|split; [assumption|]]. cbn [threads].
        intros t' th' H'. apply nth_error_upd_inv in H'. destruct H' as [[-> ->]|[Hne H']].
        * cbn; rewrite Hpc'; split; [lia|assumption].
        * eauto.
      + (* IJumpIfInst: falls through *)
        rewrite at_1 in Hi. injection Hi as <-. cbn [exec_instr].
        rewrite HiN. unfold set_thread.
        assert (Hcs : in_cs (pc th)) by (unfold in_cs; rewrite Hpc'; lia).
        assert (Hlk : lock st = Some t) by (eapply HL1; eauto).
        locks_same HL1 HL2 Hth Hlk.
        left. split; [assumption|split; [assumption|]]. cbn [threads].
        intros t' th' H'. apply nth_error_upd_inv in H'. destruct H' as [[-> ->]|[Hne H']].
        * cbn; rewrite Hpc'; split; [lia|assumption].
        * eauto.
      + (* the allocation: INewAssign (publish first) / INewLocal (publish last) *)
        rewrite at_2 in Hi. injection Hi as <-.
        assert (Hcs : in_cs (pc th)) by (unfold in_cs; rewrite Hpc'; lia).
        assert (Hlk : lock st = Some t) by (eapply HL1; eauto).
        assert (Hothers : forall t' th', t' <> t -> nth_error (threads st) t' = Some th' ->
                                         pc th' = 0 /\ ret th' = None).
        { intros t' th' Hne H'.
          destruct (Hall t' th' H') as [Hpc2 Hret2]. split; [|assumption].
          destruct (pc th') as [|k] eqn:Hk; [reflexivity|].
          assert (Hcs' : in_cs (pc th')) by (unfold in_cs; rewrite Hk; lia).
          specialize (HL1 t' th' H' Hcs'). congruence. }
        destruct off_cases as [[Hnw Hoff]|[Hnw Hoff]]; rewrite Hnw; cbn [exec_instr];
          rewrite Hhp; cbn [length app].
        * (* INewLocal *)
          locks_same HL1 HL2 Hth Hlk.
          right; left. split; [rewrite Hnw; exact HiN|]. cbn [threads heap].
          eexists t, _. split; [eapply nth_error_upd_same; eauto|]. split.
          -- split; [assumption|]. right. destruct Hshape as [_ (fin & Hex & Hfull)].
             exists 0, fresh_obj, fin. cbn [pc self skipn]. rewrite Hpc'.
             repeat split; auto; lia.
          -- intros t' th' Hne H'. rewrite nth_error_upd_other in H' by assumption. eauto.
        * (* INewAssign *)
          locks_same HL1 HL2 Hth Hlk.
          right; left. split; [rewrite Hnw; reflexivity|]. cbn [threads heap].
          exists t, (advance th). split; [eapply nth_error_upd_same; eauto|]. split.
          -- split; [assumption|]. left. cbn; rewrite Hpc'; auto.
          -- intros t' th' Hne H'. rewrite nth_error_upd_other in H' by assumption. eauto.
    - (* ---------- phase B ---------- *)
      assert (HcsH : in_cs (pc thH)).
      { unfold in_cs. destruct HpcH as [(_ & -> & _)|(j & ob & fin & -> & Hj & _)]; lia. }
      assert (HlkH : lock st = Some tH) by (eapply HL1; eauto).
      destruct (Nat.eq_dec t tH) as [->|Hne].
      2:{ (* a waiting thread: blocked on the acquire *)
          destruct (Hoth t th Hne Hth) as [Hpc0 _]. rewrite Hpc0, at_0 in Hi.
          injection Hi as <-. cbn [exec_instr]. rewrite HlkH. exact HInv. }
      rewrite HtH in Hth. injection Hth as <-. rename HtH into Hth.
      destruct HpcH as [(Hnw & Hpc & Hhp)|(j & ob & fin & Hpc & Hj & Hself & Hhp & Hex & Hfull)].
      + (* ILoadSelf (publish-first shape only) *)
        rewrite Hpc, (at_load Hnw) in Hi. injection Hi as <-. cbn [exec_instr]. unfold set_thread.
        rewrite Hnw in HiS. rewrite HiS.
        assert (Hoff : off = 4) by (rewrite Hnw; reflexivity).
        locks_same HL1 HL2 Hth HlkH.
        right; left. split; [rewrite Hnw; reflexivity|]. cbn [threads heap].
        eexists tH, _. split; [eapply nth_error_upd_same; eauto|]. split.
        * split; [assumption|]. right. destruct Hshape as [_ (fin & Hex & Hfull)].
          exists 0, fresh_obj, fin. cbn [pc self skipn]. rewrite Hpc.
          repeat split; auto; lia.
        * intros t' th' Hne H'. rewrite nth_error_upd_other in H' by assumption. eauto.
      + destruct (j <? length body) eqn:Ej.
        * (* a statement of default_initialization *)
          apply Nat.ltb_lt in Ej. rewrite Hpc, (at_body j Ej) in Hi.
          rewrite (skipn_nth_cons _ _ _ Hi) in Hex. cbn [exec_body] in Hex.
          destruct (exec_obj i ob) as [ob'|] eqn:Eob; [|discriminate].
          rewrite (exec_instr_obj _ _ _ _ _ _ _ Eob). unfold step_obj.
          rewrite Hself, Hhp. cbn [nth_error]. rewrite Eob. cbn [upd].
          locks_same HL1 HL2 Hth HlkH.
          right; left. split; [assumption|]. cbn [threads heap].
          exists tH, (advance thH). split; [eapply nth_error_upd_same; eauto|]. split.
          -- split; [assumption|]. right. exists (S j), ob', fin. cbn [pc self advance].
             rewrite Hpc. repeat split; auto; lia.
          -- intros t' th' Hne H'. rewrite nth_error_upd_other in H' by assumption. eauto.
        * (* the initialisation is complete *)
          apply Nat.ltb_ge in Ej. assert (j = length body) by lia. subst j.
          rewrite skipn_all in Hex. cbn [exec_body] in Hex. injection Hex as <-.
          destruct off_cases as [[Hnw Hoff]|[Hnw Hoff]].
          -- (* IPublishSelf: the finished object becomes visible; still inside the with-block *)
             rewrite Hpc, (at_publish Hnw) in Hi. injection Hi as <-. cbn [exec_instr].
             rewrite Hself.
             locks_same HL1 HL2 Hth HlkH.
             right; right. split; [reflexivity|]. cbn [threads heap]. split; [eauto|].
             intros t' th' H'. apply nth_error_upd_inv in H'. destruct H' as [[-> ->]|[Hne H']].
             ++ cbn [pc ret advance]. rewrite HretH. repeat split; try lia; discriminate.
             ++ destruct (Hoth t' th' Hne H') as [-> ->]. repeat split; try lia; discriminate.
          -- (* IRelease *)
             assert (Hr : pc thH = r) by lia.
             rewrite Hr, at_release in Hi. injection Hi as <-. cbn [exec_instr]. rewrite HlkH.
             rewrite Hnw in HiS.
             locks_release HL1 HL2 Hth HlkH.
             right; right. split; [assumption|]. cbn [threads heap]. split; [eauto|].
             intros t' th' H'. apply nth_error_upd_inv in H'. destruct H' as [[-> ->]|[Hne H']].
             ++ cbn [pc ret advance]. rewrite HretH. repeat split; try lia; discriminate.
             ++ destruct (Hoth t' th' Hne H') as [-> ->]. repeat split; try lia; discriminate.
    - (* ---------- phase C ---------- *)
      destruct (Hall t th Hth) as (Hpc & Hpc2 & Hret & Hfin).
      apply instr_at in Hi.
      destruct Hi as [[Hk ->]|[[Hk ->]|[(Hk & Hn & ->)|[(Hk & Hn & ->)|[(Hk & Hn & ->)
                     |[(j & Hk & Hj & Hb & Ho)|[(Hk & Hn & ->)|[[Hk ->]|[Hk ->]]]]]]]]];
        try lia; cbn [exec_instr].
      + (* IAcquire *)
        destruct (lock st) as [t1|] eqn:Hl; [exact HInv|].
        locks_acquire HL1 HL2 Hth Hl.
        right; right. split; [first [assumption|reflexivity]|]. cbn [threads heap]. split; [eauto|].
        intros t' th' H'. apply nth_error_upd_inv in H'. destruct H' as [[-> ->]|[Hne H']].
        * cbn [pc ret advance]. split; [lia|split; [lia|split; [intros o Ho'; destruct (Hret o Ho'); lia | intros; lia]]].
        * eauto.
      + (* IJumpIfInst: jumps to the release *)
        rewrite HiS. unfold set_thread.
        assert (Hcs : in_cs (pc th)) by (unfold in_cs; lia).
        assert (Hlk : lock st = Some t) by (eapply HL1; eauto).
        locks_same HL1 HL2 Hth Hlk.
        right; right. split; [first [assumption|reflexivity]|]. cbn [threads heap]. split; [eauto|].
        intros t' th' H'. apply nth_error_upd_inv in H'. destruct H' as [[-> ->]|[Hne H']].
        * cbn [pc ret]. split; [lia|split; [lia|split; [intros o Ho'; destruct (Hret o Ho'); lia | intros; lia]]].
        * eauto.
      + (* IRelease *)
        assert (Hcs : in_cs (pc th)) by (unfold in_cs; lia).
        assert (Hlk : lock st = Some t) by (eapply HL1; eauto).
        rewrite Hlk.
        locks_release HL1 HL2 Hth Hlk.
        right; right. split; [first [assumption|reflexivity]|]. cbn [threads heap]. split; [eauto|].
        intros t' th' H'. apply nth_error_upd_inv in H'. destruct H' as [[-> ->]|[Hne H']].
        * cbn [pc ret advance]. split; [lia|split; [lia|split; [intros o Ho'; destruct (Hret o Ho'); lia | intros; lia]]].
        * eauto.
      + (* IReturn *)
        unfold set_thread. rewrite HiS, Hlen.
        split; [|split].
        * apply (excl_upd _ _ _ _ _ _ _ HL1 Hth); [unfold in_cs; cbn; lia | intros ? _ H; exact H].
        * apply (owned_upd _ _ _ _ _ _ _ HL2 Hth); [|intros ? _ H; exact H].
          intros Hl. destruct (HL2 t Hl) as (th1 & H1 & Hcs1).
          rewrite Hth in H1. injection H1 as <-. unfold in_cs in Hcs1. lia.
        * right; right. split; [first [assumption|reflexivity]|]. cbn [threads heap]. split; [eauto|].
          intros t' th' H'. apply nth_error_upd_inv in H'. destruct H' as [[-> ->]|[Hne H']].
          -- cbn [pc ret]. split; [lia|split; [lia|split; [intros o Ho'; injection Ho' as <-; lia | intros; reflexivity]]].
          -- eauto.
  Qed.
  Lemma run_from_inv sched : forall st, Inv st -> Inv (run_from p st sched).
  Proof.
    unfold run_from. induction sched as [|t sched IH]; intros st H; cbn [fold_left]; auto.
    apply IH. apply step_inv. assumption.
  Qed.

  Lemma run_inv n sched : Inv (run p n sched).
  Proof. apply run_from_inv. apply init_inv. Qed.

  (* ---- consequences of the invariant --------------------------------------------------------- *)
  Lemma inv_returned st t o :
    Inv st -> returned st t = Some o -> o = 0 /\ fully_initialised expected st 0.
  Proof.
    intros (_ & _ & Hph) H. unfold returned in H.
    destruct (nth_error (threads st) t) as [th|] eqn:Hth; [|discriminate].
    destruct Hph as [(_ & _ & Hall)
                    |[(_ & tH & thH & HtH & (HretH & _) & Hoth)
                     |(_ & (ob & Hhp & Hfull) & Hall)]].
    - destruct (Hall t th Hth) as [_ Hr]. congruence.
    - destruct (Nat.eq_dec t tH) as [->|Hne].
      + rewrite HtH in Hth. injection Hth as <-. congruence.
      + destruct (Hoth t th Hne Hth) as [_ Hr]. congruence.
    - destruct (Hall t th Hth) as (_ & _ & Hr & _). split; [apply (Hr o H)|].
      apply fully_initialisedb_spec. unfold fully_initialisedb. rewrite Hhp. exact Hfull.
  Qed.

  Lemma inv_heap st : Inv st -> length (heap st) <= 1.
  Proof.
    intros (_ & _ & Hph).
    destruct Hph as [(_ & -> & _)
                    |[(_ & tH & thH & _ & (_ & [(_ & _ & ->)|(j & ob & fin & _ & _ & _ & -> & _)]) & _)
                     |(_ & (ob & -> & _) & _)]]; cbn; lia.
  Qed.

  Lemma inv_inst st o : Inv st -> inst st = Some o -> o = 0.
  Proof.
    intros (_ & _ & [(H & _)|[(H & _)|(H & _)]]) Ho; try congruence.
    destruct nw; congruence.
  Qed.

  (* the shared variable is assigned by INewAssign / IPublishSelf only, never reset (any program) *)
  Lemma step_inst_mono q st t : inst st <> None -> inst (step q st t) <> None.
  Proof.
    intros H. unfold step. destruct (nth_error (threads st) t) as [th|]; [|assumption].
    destruct (nth_error q (pc th)) as [i|]; [|assumption].
    destruct i; cbn [exec_instr]; unfold step_obj, set_thread;
      repeat match goal with
             | |- context [match ?x with _ => _ end] => destruct x
             end; cbn [inst]; auto; discriminate.
  Qed.

  Lemma run_from_inst_mono q sched : forall st,
    inst st <> None -> inst (run_from q st sched) <> None.
  Proof.
    unfold run_from. induction sched as [|t sched IH]; intros st H; cbn [fold_left]; auto.
    apply IH. apply step_inst_mono. assumption.
  Qed.

  (* ---- progress under fair schedules ----------------------------------------------------------- *)
  Fixpoint todo (l : list thread) : nat :=
    match l with [] => 0 | th :: l' => (length p - pc th) + todo l' end.

  Lemma todo_upd_lt l : forall t th th',
    nth_error l t = Some th -> pc th < pc th' -> pc th < length p ->
    todo (upd l t th') < todo l.
  Proof.
    induction l as [|a l IH]; intros [|t] th th' H H1 H2; simpl in *; try discriminate.
    - injection H as ->. lia.
    - specialize (IH t th th' H H1 H2). lia.
  Qed.

  Lemma todo_pos l : 0 < todo l -> exists t th, nth_error l t = Some th /\ pc th < length p.
  Proof.
    induction l as [|a l IH]; simpl; intros H; [lia|].
    destruct (Nat.ltb (pc a) (length p)) eqn:E.
    - apply Nat.ltb_lt in E. exists 0, a. auto.
    - apply Nat.ltb_ge in E. destruct IH as (t & th & H1 & H2); [lia|]. exists (S t), th. auto.
  Qed.

  Lemma todo_zero l t th : todo l = 0 -> nth_error l t = Some th -> length p <= pc th.
  Proof.
    revert t; induction l as [|a l IH]; intros [|t] H H'; simpl in *; try discriminate.
    - injection H' as ->. lia.
    - eapply IH; eauto. lia.
  Qed.

  Definition mu (st : state) : nat := todo (threads st).

  Lemma step_mu st t : step p st t = st \/ mu (step p st t) < mu st.
  Proof.
    destruct (step_cases st t) as [[H _]|(th & th' & Hth & Hthr & H1 & H2)]; [left; assumption|].
    right. unfold mu. rewrite Hthr. eapply todo_upd_lt; eauto.
  Qed.

  Lemma step_nthreads st t : length (threads (step p st t)) = length (threads st).
  Proof.
    destruct (step_cases st t) as [[-> _]|(th & th' & _ & -> & _)]; [reflexivity|].
    apply upd_length.
  Qed.

  Lemma run_from_mu_le sched : forall st, mu (run_from p st sched) <= mu st.
  Proof.
    unfold run_from. induction sched as [|t sched IH]; intros st; cbn [fold_left]; [lia|].
    destruct (step_mu st t) as [E|E]; [rewrite E; apply IH|].
    specialize (IH (step p st t)). lia.
  Qed.

  (* some thread is enabled as long as somebody has not finished *)
  Lemma inv_enabled st :
    Inv st -> 0 < mu st ->
    exists t0, t0 < length (threads st) /\ mu (step p st t0) < mu st.
  Proof.
    intros (HL1 & HL2 & _) Hpos. apply todo_pos in Hpos. destruct Hpos as (t & th & Hth & Hlt).
    pose proof length_p as Hlen.
    destruct (lock st) as [t1|] eqn:Hl.
    - (* the holder can move *)
      destruct (HL2 t1 Hl) as (th1 & Hth1 & Hcs1). unfold in_cs in Hcs1.
      exists t1. split; [apply nth_error_Some; congruence|].
      destruct (step_cases st t1) as [[_ [H|(th2 & H2 & [H|[H _]])]]|(th2 & th' & H2 & Hthr & H3 & H4)].
      + congruence.
      + rewrite Hth1 in H2. injection H2 as <-. lia.
      + rewrite Hth1 in H2. injection H2 as <-. lia.
      + unfold mu. rewrite Hthr. eapply todo_upd_lt; eauto.
    - exists t. split; [apply nth_error_Some; congruence|].
      destruct (step_cases st t) as [[_ [H|(th2 & H2 & [H|[_ H]])]]|(th2 & th' & H2 & Hthr & H3 & H4)].
      + congruence.
      + rewrite Hth in H2. injection H2 as <-. lia.
      + congruence.
      + unfold mu. rewrite Hthr. eapply todo_upd_lt; eauto.
  Qed.

  (* a block of the schedule in which the enabled thread t0 occurs makes progress *)
  Lemma block_progress blk : forall st t0,
    In t0 blk -> mu (step p st t0) < mu st -> mu (run_from p st blk) < mu st.
  Proof.
    induction blk as [|a blk IH]; intros st t0 Hin Hlt; [contradiction|].
    unfold run_from; cbn [fold_left]. fold (run_from p (step p st a) blk).
    destruct (step_mu st a) as [E|E].
    - destruct Hin as [->|Hin].
      + rewrite E in Hlt. lia.
      + rewrite E. eapply IH; eauto.
    - pose proof (run_from_mu_le blk (step p st a)). lia.
  Qed.

  Definition fair_block (n : nat) (blk : list tid) : Prop := forall t, t < n -> In t blk.

  Lemma run_from_nthreads sched : forall st,
    length (threads (run_from p st sched)) = length (threads st).
  Proof.
    unfold run_from. induction sched as [|t sched IH]; intros st; cbn [fold_left]; auto.
    rewrite IH. apply step_nthreads.
  Qed.

  Lemma fair_blocks_mu blks : forall st,
    Inv st -> Forall (fair_block (length (threads st))) blks ->
    mu (run_from p st (concat blks)) <= mu st - length blks.
  Proof.
    induction blks as [|blk blks IH]; intros st HI HF; cbn [concat length]; [cbn; lia|].
    unfold run_from. rewrite fold_left_app. fold (run_from p st blk).
    fold (run_from p (run_from p st blk) (concat blks)).
    inversion HF as [|? ? Hblk HF']; subst.
    pose proof (run_from_inv blk st HI) as HI'.
    assert (HF'' : Forall (fair_block (length (threads (run_from p st blk)))) blks)
      by (rewrite run_from_nthreads; assumption).
    specialize (IH _ HI' HF'').
    destruct (Nat.eq_dec (mu st) 0) as [Hz|Hnz].
    - pose proof (run_from_mu_le blk st). lia.
    - destruct (inv_enabled st HI) as (t0 & Ht0 & Hlt); [lia|].
      pose proof (block_progress blk st t0 (Hblk t0 Ht0) Hlt). lia.
  Qed.

  Lemma inv_done st t :
    Inv st -> mu st = 0 -> t < length (threads st) -> returned st t = Some 0.
  Proof.
    intros (_ & _ & Hph) Hmu Ht. unfold returned, mu in *.
    destruct (nth_error (threads st) t) as [th|] eqn:Hth.
    2:{ apply nth_error_None in Hth. lia. }
    pose proof (todo_zero _ _ _ Hmu Hth) as Hpc. pose proof length_p as Hlen.
    destruct Hph as [(_ & _ & Hall)
                    |[(_ & tH & thH & HtH & (_ & HpcH) & Hoth)
                     |(_ & _ & Hall)]].
    - destruct (Hall t th Hth) as [Hp _]. lia.
    - pose proof (todo_zero _ _ _ Hmu HtH) as HpcH'.
      pose proof off_bounds as Hob.
      destruct HpcH as [(_ & Hp & _)|(j & ob & fin & Hp & Hj & _)]; lia.
    - destruct (Hall t th Hth) as (_ & _ & _ & Hfin). apply Hfin. lia.
  Qed.

  Lemma mu_init n : mu (init n) = n * length p.
  Proof. unfold mu. cbn [threads init]. induction n as [|n IH]; cbn in *; lia. Qed.

  Lemma generic_no_deadlock n blks t :
    Forall (fair_block n) blks -> n * length p <= length blks -> t < n ->
    returned (run p n (concat blks)) t = Some 0.
  Proof.
    intros HF Hk Ht. unfold run.
    assert (Hn : length (threads (init n)) = n) by (cbn; apply repeat_length).
    pose proof (fair_blocks_mu blks (init n) (init_inv n)) as Hmu.
    rewrite Hn, mu_init in Hmu. specialize (Hmu HF).
    apply inv_done.
    - apply run_from_inv, init_inv.
    - lia.
    - rewrite run_from_nthreads, Hn. assumption.
  Qed.

  (* ---- a result, once returned, is kept ------------------------------------------------------- *)
  Lemma inv_ret st t th o :
    Inv st -> nth_error (threads st) t = Some th -> ret th = Some o ->
    phaseC st /\ o = 0 /\ r + 2 <= pc th.
  Proof.
    intros (_ & _ & Hph) Hth H.
    destruct Hph as [(_ & _ & Hall)
                    |[(_ & tH & thH & HtH & (HretH & _) & Hoth)
                     |HC]].
    - destruct (Hall t th Hth) as [_ Hr]. congruence.
    - destruct (Nat.eq_dec t tH) as [->|Hne].
      + rewrite HtH in Hth. injection Hth as <-. congruence.
      + destruct (Hoth t th Hne Hth) as [_ Hr]. congruence.
    - split; [exact HC|]. destruct HC as (_ & _ & Hall).
      destruct (Hall t th Hth) as (_ & _ & Hr & _). apply (Hr o H).
  Qed.

  Lemma step_returned_stable st a t o :
    Inv st -> returned st t = Some o -> returned (step p st a) t = Some o.
  Proof.
    intros HI H. unfold returned in *.
    destruct (nth_error (threads st) t) as [th|] eqn:Hth; [|discriminate].
    destruct (step_cases st a) as [[-> _]|(tha & th' & Ha & -> & _ & Hlt)];
      [rewrite Hth; assumption|].
    destruct (Nat.eq_dec t a) as [->|Hne].
    - exfalso. rewrite Hth in Ha. injection Ha as <-. pose proof length_p as Hlen.
      destruct (inv_ret st a th o HI Hth H) as (_ & _ & Hpc). lia.
    - rewrite nth_error_upd_other by assumption. rewrite Hth. assumption.
  Qed.

  Lemma run_from_returned_stable sched : forall st t o,
    Inv st -> returned st t = Some o -> returned (run_from p st sched) t = Some o.
  Proof.
    unfold run_from. induction sched as [|a sched IH]; intros st t o HI H; cbn [fold_left]; auto.
    apply IH; [apply step_inv; assumption | apply step_returned_stable; assumption].
  Qed.

End Generic.

(* =============================================================================================== *)
(* Any program accepted by [well_locked] -- either shape *)
Section WellLocked.
  Variable e : list nat.
  Variable p : list instr.
  Hypothesis Hwl : well_locked e p = true.

  Lemma wl_inv n sched :
    exists nw body, shape e nw p body /\ Inv e nw body (run p n sched).
  Proof.
    destruct (well_locked_shape _ _ Hwl) as (nw & body & Hs).
    exists nw, body. split; [assumption|]. apply run_inv. assumption.
  Qed.

  Theorem wl_init_safe : forall n sched t o,
    returned (run p n sched) t = Some o -> fully_initialised e (run p n sched) o.
  Proof.
    intros n sched t o H. destruct (wl_inv n sched) as (nw & body & Hs & HI).
    destruct (inv_returned _ _ _ _ _ _ HI H) as [-> Hf]. exact Hf.
  Qed.

  Theorem wl_same_instance : forall n sched t1 t2 o1 o2,
    returned (run p n sched) t1 = Some o1 -> returned (run p n sched) t2 = Some o2 -> o1 = o2.
  Proof.
    intros n sched t1 t2 o1 o2 H1 H2. destruct (wl_inv n sched) as (nw & body & Hs & HI).
    destruct (inv_returned _ _ _ _ _ _ HI H1) as [-> _].
    destruct (inv_returned _ _ _ _ _ _ HI H2) as [-> _]. reflexivity.
  Qed.

  Theorem wl_single_init : forall n sched, length (heap (run p n sched)) <= 1.
  Proof.
    intros n sched. destruct (wl_inv n sched) as (nw & body & Hs & HI). eapply inv_heap; eauto.
  Qed.

  Theorem wl_never_replaced : forall n sched sched' o,
    inst (run p n sched) = Some o -> inst (run p n (sched ++ sched')) = Some o.
  Proof.
    intros n sched sched' o H.
    destruct (wl_inv n sched) as (nw & body & Hs & HI).
    destruct (wl_inv n (sched ++ sched')) as (nw' & body' & Hs' & HI').
    pose proof (inv_inst _ _ _ _ Hs _ _ HI H) as Ho. subst o.
    assert (Hne : inst (run p n (sched ++ sched')) <> None).
    { unfold run, run_from. rewrite fold_left_app.
      apply (run_from_inst_mono p sched' (fold_left (step p) sched (init n))).
      unfold run, run_from in H. rewrite H. discriminate. }
    destruct (inst (run p n (sched ++ sched'))) as [o'|] eqn:E; [|congruence].
    f_equal. exact (inv_inst _ _ _ _ Hs' _ _ HI' E).
  Qed.

  Theorem wl_returned_stable : forall n sched sched' t o,
    returned (run p n sched) t = Some o -> returned (run p n (sched ++ sched')) t = Some o.
  Proof.
    intros n sched sched' t o H.
    destruct (well_locked_shape _ _ Hwl) as (nw & body & Hs).
    unfold run, run_from. rewrite fold_left_app.
    apply (run_from_returned_stable _ _ _ _ Hs sched'); [|exact H].
    apply (run_inv _ _ _ _ Hs n sched).
  Qed.

  Theorem wl_no_deadlock_fair : forall n blks t,
    Forall (fair_block n) blks -> n * length p <= length blks -> t < n ->
    returned (run p n (concat blks)) t = Some 0.
  Proof.
    intros n blks t HF Hk Ht.
    destruct (well_locked_shape _ _ Hwl) as (nw & body & Hs).
    eapply generic_no_deadlock; eauto.
  Qed.
End WellLocked.
Print Assumptions wl_init_safe.
Print Assumptions wl_same_instance.
Print Assumptions wl_single_init.
Print Assumptions wl_never_replaced.
Print Assumptions wl_no_deadlock_fair.

(* =============================================================================================== *)
(* the generated program *)
Notation prog := get_default_instance_prog.

(* THE obligation on the generated program (fails when the lock is removed, see below) *)
Lemma prog_well_locked : well_locked expected_kws prog = true.
Proof. vm_compute. reflexivity. Qed.

Lemma prog_inv n sched :
  exists nw body, shape expected_kws nw prog body /\ Inv expected_kws nw body (run prog n sched).
Proof. exact (wl_inv _ _ prog_well_locked n sched). Qed.

(* every thread that has returned works with a completely initialised lexer *)
Theorem C20_init_safe : forall n sched t o,
  returned (run prog n sched) t = Some o ->
  fully_initialised expected_kws (run prog n sched) o.
Proof. exact (wl_init_safe _ _ prog_well_locked). Qed.
Print Assumptions C20_init_safe.

Theorem C20_same_instance : forall n sched t1 t2 o1 o2,
  returned (run prog n sched) t1 = Some o1 ->
  returned (run prog n sched) t2 = Some o2 -> o1 = o2.
Proof. exact (wl_same_instance _ _ prog_well_locked). Qed.
Print Assumptions C20_same_instance.

(* the heap is append-only (INewAssign / INewLocal are the only instructions that extend it), so its
   length is the number of objects ever allocated *)
Theorem C20_single_init : forall n sched, length (heap (run prog n sched)) <= 1.
Proof. exact (wl_single_init _ _ prog_well_locked). Qed.
Print Assumptions C20_single_init.

(* an instance once published is never replaced: at any later time the shared variable still
   holds the same object *)
Theorem C20_never_replaced : forall n sched sched' o,
  inst (run prog n sched) = Some o -> inst (run prog n (sched ++ sched')) = Some o.
Proof. exact (wl_never_replaced _ _ prog_well_locked). Qed.
Print Assumptions C20_never_replaced.

(* a thread that has returned keeps its result, and that object stays fully initialised *)
Theorem C20_returned_stable : forall n sched sched' t o,
  returned (run prog n sched) t = Some o ->
  returned (run prog n (sched ++ sched')) t = Some o.
Proof. exact (wl_returned_stable _ _ prog_well_locked). Qed.
Print Assumptions C20_returned_stable.

Corollary C20_init_safe_later : forall n sched sched' t o,
  returned (run prog n sched) t = Some o ->
  fully_initialised expected_kws (run prog n (sched ++ sched')) o.
Proof.
  intros n sched sched' t o H. apply (C20_init_safe n (sched ++ sched') t o).
  apply C20_returned_stable. exact H.
Qed.
Print Assumptions C20_init_safe_later.

(* ---- no deadlock ---------------------------------------------------------------------------------
   Progress for every schedule that is a concatenation of at least n * |prog| "fair blocks" (a
   block = any list of thread ids in which every thread 0..n-1 occurs at least once, in any
   order, with any repetitions): every thread has returned the instance.  Round-robin is the
   special case block = [0;...;n-1].
   `_partial`: (1) the bound n * |prog| blocks is not tight; (2) nothing is said about schedules
   that are unfair (a thread never scheduled again while holding the lock blocks everybody --
   that is a property of any lock, not a defect). *)
Theorem C20_no_deadlock_fair : forall n blks t,
  Forall (fair_block n) blks -> n * length prog <= length blks -> t < n ->
  returned (run prog n (concat blks)) t = Some 0.
Proof. exact (wl_no_deadlock_fair _ _ prog_well_locked). Qed.
Print Assumptions C20_no_deadlock_fair.

Theorem C20_no_deadlock_partial : forall n k t,
  n * length prog <= k -> t < n ->
  returned (run prog n (round_robin n k)) t = Some 0.
Proof.
  intros n k t Hk Ht. unfold round_robin. apply C20_no_deadlock_fair; auto.
  - apply Forall_forall. intros blk Hin. apply repeat_spec in Hin. subst blk.
    intros t' Ht'. apply in_seq. lia.
  - rewrite repeat_length. assumption.
Qed.
Print Assumptions C20_no_deadlock_partial.

(* ---- the heap is append-only, for every program: [length (heap _)] counts allocations ---------- *)
Lemma step_heap_mono q st t : length (heap st) <= length (heap (step q st t)).
Proof.
  unfold step. destruct (nth_error (threads st) t) as [th|]; [|lia].
  destruct (nth_error q (pc th)) as [i|]; [|lia].
  destruct i; cbn [exec_instr]; unfold step_obj, set_thread;
    repeat match goal with
           | |- context [match ?x with _ => _ end] => destruct x
           end; cbn [heap]; rewrite ?upd_length, ?app_length; cbn [length]; lia.
Qed.

(* =============================================================================================== *)
(* Reference programs of both shapes over the body of the generated program.  The generated
   program IS one of them (which one depends on the source); the theorems above hold for both, the
   refutations below are about their unprotected variants. *)
Definition gen_body : list instr := filter is_obj prog.
Definition old_prog : list instr := prog_of false gen_body.   (* publish, then initialise *)
Definition new_prog : list instr := prog_of true gen_body.    (* initialise, then publish *)

Lemma filter_is_obj_body l : forall ob fin, exec_body l ob = Some fin -> filter is_obj l = l.
Proof.
  induction l as [|a l IH]; intros ob fin H; [reflexivity|].
  cbn [exec_body] in H. destruct (exec_obj a ob) as [ob'|] eqn:E; [|discriminate].
  cbn [filter]. rewrite (exec_obj_is_obj _ _ _ E). f_equal. eapply IH; eauto.
Qed.

Lemma shape_body e nw p body : shape e nw p body -> filter is_obj p = body.
Proof.
  intros [-> (fin & Hex & _)]. pose proof (filter_is_obj_body _ _ _ Hex) as Hf.
  unfold prog_of. destruct nw; cbn [filter is_obj]; rewrite filter_app; cbn [filter is_obj];
    rewrite Hf, app_nil_r; reflexivity.
Qed.

Lemma prog_is_old_or_new : prog = old_prog \/ prog = new_prog.
Proof.
  destruct (well_locked_shape _ _ prog_well_locked) as (nw & body & Hs).
  pose proof (shape_body _ _ _ _ Hs) as Hb. destruct Hs as [Hp _].
  unfold old_prog, new_prog, gen_body. rewrite Hb.
  destruct nw; [right|left]; exact Hp.
Qed.

Lemma gen_body_ok :
  exists fin, exec_body gen_body fresh_obj = Some fin /\ obj_fullyb expected_kws fin = true.
Proof.
  destruct (well_locked_shape _ _ prog_well_locked) as (nw & body & Hs).
  unfold gen_body. rewrite (shape_body _ _ _ _ Hs). destruct Hs as [_ H]. exact H.
Qed.

Lemma old_prog_well_locked : well_locked expected_kws old_prog = true.
Proof. vm_compute. reflexivity. Qed.
Lemma new_prog_well_locked : well_locked expected_kws new_prog = true.
Proof. vm_compute. reflexivity. Qed.
Example old_prog_shape : shape_of expected_kws old_prog = Some false.
Proof. vm_compute. reflexivity. Qed.
Example new_prog_shape : shape_of expected_kws new_prog = Some true.
Proof. vm_compute. reflexivity. Qed.

(* both reference programs enjoy all the theorems, whichever one the source currently is *)
Theorem C20_both_shapes_safe : forall p, p = old_prog \/ p = new_prog ->
  (forall n sched t o, returned (run p n sched) t = Some o ->
                       fully_initialised expected_kws (run p n sched) o)
  /\ (forall n sched t1 t2 o1 o2, returned (run p n sched) t1 = Some o1 ->
                                  returned (run p n sched) t2 = Some o2 -> o1 = o2)
  /\ (forall n sched, length (heap (run p n sched)) <= 1)
  /\ (forall n sched sched' o, inst (run p n sched) = Some o ->
                               inst (run p n (sched ++ sched')) = Some o)
  /\ (forall n blks t, Forall (fair_block n) blks -> n * length p <= length blks -> t < n ->
                       returned (run p n (concat blks)) t = Some 0).
Proof.
  intros p Hp.
  assert (Hwl : well_locked expected_kws p = true)
    by (destruct Hp as [->| ->]; [exact old_prog_well_locked|exact new_prog_well_locked]).
  repeat split.
  - exact (wl_init_safe _ _ Hwl).
  - exact (wl_same_instance _ _ Hwl).
  - exact (wl_single_init _ _ Hwl).
  - exact (wl_never_replaced _ _ Hwl).
  - exact (wl_no_deadlock_fair _ _ Hwl).
Qed.
Print Assumptions C20_both_shapes_safe.

(* =============================================================================================== *)
(* The publish-last shape WITHOUT the lock: every thread that finds None builds its own object in
   its own local and publishes it when it is complete.  Nothing half-built is ever reachable from
   the shared variable, so [init_safe] holds for every thread count and schedule -- the lock is
   not needed for THAT; it is needed for [same_instance] / [single_init] (refuted below). *)
Section UnlockedNew.
  Variable expected : list nat.
  Variable body : list instr.
  Hypothesis Hbody :
    exists fin, exec_body body fresh_obj = Some fin /\ obj_fullyb expected fin = true.

  Notation nb := (length body).

  (* 0 IJumpIfInst; 1 INewLocal; 2+j body; 2+nb IPublishSelf; 3+nb IReturn;  |uprog| = 4+nb *)
  Definition uprog : list instr :=
    IJumpIfInst (3 + nb) :: INewLocal :: body ++ [IPublishSelf; IReturn].

  Lemma ubody_is_obj j i : nth_error body j = Some i -> is_obj i = true.
  Proof.
    destruct Hbody as (fin & Hex & _). intros H.
    eapply exec_body_is_obj; [exact Hex | eapply nth_error_In; eauto].
  Qed.

  Lemma uinstr_at k i :
    nth_error uprog k = Some i ->
    (k = 0 /\ i = IJumpIfInst (3 + nb)) \/ (k = 1 /\ i = INewLocal)
    \/ (exists j, k = 2 + j /\ j < nb /\ nth_error body j = Some i /\ is_obj i = true)
    \/ (k = 2 + nb /\ i = IPublishSelf) \/ (k = 3 + nb /\ i = IReturn).
  Proof.
    unfold uprog. intros H. destruct k as [|[|j]]; cbn [nth_error] in H.
    - left. split; congruence.
    - right; left. split; congruence.
    - apply nth_error_app_tail in H. destruct H as [[Hj Hb]|[Hj Hb]].
      + do 2 right; left. exists j. repeat split; auto. eapply ubody_is_obj; eauto.
      + destruct (j - nb) as [|[|q]] eqn:D; cbn [nth_error] in Hb.
        * do 3 right; left. split; [lia|congruence].
        * do 4 right. split; [lia|congruence].
        * destruct q; discriminate.
  Qed.

  Lemma ulength : length uprog = 4 + nb.
  Proof. unfold uprog. cbn [length]. rewrite app_length. cbn [length]. lia. Qed.

  Definition fullobj (st : state) (o : objid) : Prop :=
    exists ob, nth_error (heap st) o = Some ob /\ obj_fullyb expected ob = true.

  (* o is the local of a thread that has completed (and published) it *)
  Definition done (st : state) (o : objid) : Prop :=
    exists t th, nth_error (threads st) t = Some th /\ self th = Some o /\ 2 + nb < pc th.

  Record UInv (st : state) : Prop := mkUInv {
    u_nolocal : forall t th, nth_error (threads st) t = Some th -> pc th <= 1 -> self th = None;
    u_alloc : forall t th o, nth_error (threads st) t = Some th -> self th = Some o ->
                             o < length (heap st);
    u_distinct : forall t1 t2 th1 th2 o, t1 <> t2 ->
        nth_error (threads st) t1 = Some th1 -> nth_error (threads st) t2 = Some th2 ->
        self th1 = Some o -> self th2 = Some o -> False;
    u_building : forall t th, nth_error (threads st) t = Some th -> 2 <= pc th <= 2 + nb ->
        exists o ob fin, self th = Some o /\ nth_error (heap st) o = Some ob /\
                         exec_body (skipn (pc th - 2) body) ob = Some fin /\
                         obj_fullyb expected fin = true;
    u_built : forall t th o, nth_error (threads st) t = Some th -> 2 + nb < pc th ->
                             self th = Some o -> fullobj st o;
    u_inst : forall o, inst st = Some o -> done st o;
    u_ret : forall t th o, nth_error (threads st) t = Some th -> ret th = Some o -> done st o }.

  Lemma uinit_inv n : UInv (init n).
  Proof.
    assert (H0 : forall t th, nth_error (threads (init n)) t = Some th -> th = thread0).
    { intros t th H. cbn [threads init] in H. apply nth_error_In in H. eapply repeat_spec; exact H. }
    constructor.
    - intros t th H _. apply H0 in H. subst th. reflexivity.
    - intros t th o H Hs. apply H0 in H. subst th. discriminate.
    - intros t1 t2 th1 th2 o _ H1 _ Hs _. apply H0 in H1. subst th1. discriminate.
    - intros t th H Hpc. apply H0 in H. subst th. cbn in Hpc. lia.
    - intros t th o H Hpc. apply H0 in H. subst th. cbn in Hpc. lia.
    - intros o H. discriminate.
    - intros t th o H Hr. apply H0 in H. subst th. discriminate.
  Qed.

  (* [done] survives every update of one thread that keeps a completed thread completed *)
  Lemma done_upd st lk' ins' hp' t th th' o :
    nth_error (threads st) t = Some th ->
    (2 + nb < pc th -> self th' = self th /\ 2 + nb < pc th') ->
    done st o -> done (mkState lk' ins' hp' (upd (threads st) t th')) o.
  Proof.
    intros Hth Hk (t1 & th1 & H1 & Hs1 & Hp1). unfold done. cbn [threads].
    destruct (Nat.eq_dec t1 t) as [->|Hne].
    - rewrite Hth in H1. injection H1 as <-. destruct (Hk Hp1) as [Hs' Hp'].
      exists t, th'. split; [eapply nth_error_upd_same; eauto|]. split; [congruence|assumption].
    - exists t1, th1. split; [rewrite nth_error_upd_other; assumption|]. split; assumption.
  Qed.

  Lemma nth_error_app_keep {A} (l : list A) x o y :
    nth_error l o = Some y -> nth_error (l ++ [x]) o = Some y.
  Proof.
    intros H. rewrite nth_error_app1; [assumption|]. apply nth_error_Some. congruence.
  Qed.

  Lemma ustep_inv st t : UInv st -> UInv (step uprog st t).
  Proof.
    intros HI. unfold step.
    destruct (nth_error (threads st) t) as [th|] eqn:Hth; [|exact HI].
    destruct (nth_error uprog (pc th)) as [i|] eqn:Hi; [|exact HI].
    pose proof ulength as Hlen.
    apply uinstr_at in Hi.
    destruct Hi as [[Hk ->]|[[Hk ->]|[(j & Hk & Hj & Hb & Ho)|[[Hk ->]|[Hk ->]]]]].
    - (* IJumpIfInst *)
      cbn [exec_instr]. unfold set_thread.
      assert (Hs0 : self th = None) by (apply (u_nolocal _ HI t th Hth); lia).
      assert (G : forall pc', (pc' = 1 \/ pc' = 3 + nb) ->
                  UInv (mkState (lock st) (inst st) (heap st)
                                (upd (threads st) t (mkThread pc' (self th) (ret th))))).
      { intros pc' Hpc'. constructor; unfold fullobj; cbn [threads heap inst].
        - intros t' th' H' Hp. apply nth_error_upd_inv in H'. destruct H' as [[-> ->]|[Hne H']].
          + exact Hs0.
          + eapply (u_nolocal _ HI); eauto.
        - intros t' th' o H' Hs. apply nth_error_upd_inv in H'. destruct H' as [[-> ->]|[Hne H']].
          + cbn [self] in Hs. congruence.
          + eapply (u_alloc _ HI); eauto.
        - intros t1 t2 th1 th2 o Hne H1 H2 Hs1 Hs2.
          apply nth_error_upd_inv in H1. apply nth_error_upd_inv in H2.
          destruct H1 as [[-> ->]|[Hn1 H1]]; [cbn [self] in Hs1; congruence|].
          destruct H2 as [[-> ->]|[Hn2 H2]]; [cbn [self] in Hs2; congruence|].
          eapply (u_distinct _ HI t1 t2); eauto.
        - intros t' th' H' Hp. apply nth_error_upd_inv in H'. destruct H' as [[-> ->]|[Hne H']].
          + cbn [pc] in Hp. lia.
          + eapply (u_building _ HI); eauto.
        - intros t' th' o H' Hp Hs. apply nth_error_upd_inv in H'. destruct H' as [[-> ->]|[Hne H']].
          + cbn [self] in Hs. congruence.
          + eapply (u_built _ HI); eauto.
        - intros o Hio. apply (done_upd _ _ _ _ _ _ _ _ Hth); [intros; lia|].
          apply (u_inst _ HI); assumption.
        - intros t' th' o H' Hr. apply (done_upd _ _ _ _ _ _ _ _ Hth); [intros; lia|].
          apply nth_error_upd_inv in H'. destruct H' as [[-> ->]|[Hne H']].
          + cbn [ret] in Hr. eapply (u_ret _ HI); eauto.
          + eapply (u_ret _ HI); eauto. }
      destruct (inst st); apply G; [right; reflexivity | left; cbn [advance]; lia].
    - (* INewLocal *)
      cbn [exec_instr].
      constructor; unfold fullobj; cbn [threads heap inst].
      + intros t' th' H' Hp. apply nth_error_upd_inv in H'. destruct H' as [[-> ->]|[Hne H']].
        * cbn [pc] in Hp. lia.
        * eapply (u_nolocal _ HI); eauto.
      + intros t' th' o H' Hs. rewrite app_length. cbn [length].
        apply nth_error_upd_inv in H'. destruct H' as [[-> ->]|[Hne H']].
        * cbn [self] in Hs. injection Hs as <-. lia.
        * pose proof (u_alloc _ HI _ _ _ H' Hs). lia.
      + intros t1 t2 th1 th2 o Hne H1 H2 Hs1 Hs2.
        apply nth_error_upd_inv in H1. apply nth_error_upd_inv in H2.
        destruct H1 as [[-> ->]|[Hn1 H1]]; destruct H2 as [[-> ->]|[Hn2 H2]].
        * congruence.
        * cbn [self] in Hs1. injection Hs1 as <-. pose proof (u_alloc _ HI _ _ _ H2 Hs2). lia.
        * cbn [self] in Hs2. injection Hs2 as <-. pose proof (u_alloc _ HI _ _ _ H1 Hs1). lia.
        * eapply (u_distinct _ HI t1 t2); eauto.
      + intros t' th' H' Hp. apply nth_error_upd_inv in H'. destruct H' as [[-> ->]|[Hne H']].
        * destruct Hbody as (fin & Hex & Hfull).
          exists (length (heap st)), fresh_obj, fin. cbn [pc self]. rewrite Hk. cbn [Nat.sub skipn].
          repeat split; auto. rewrite nth_error_app2 by lia. rewrite Nat.sub_diag. reflexivity.
        * destruct (u_building _ HI _ _ H' Hp) as (o & ob & fin & Hs & Hn & Hex & Hfull).
          exists o, ob, fin. repeat split; auto. apply nth_error_app_keep. assumption.
      + intros t' th' o H' Hp Hs. apply nth_error_upd_inv in H'. destruct H' as [[-> ->]|[Hne H']].
        * cbn [pc] in Hp. lia.
        * destruct (u_built _ HI _ _ _ H' Hp Hs) as (ob & Hn & Hfull).
          exists ob. split; [apply nth_error_app_keep; assumption|assumption].
      + intros o Hio. apply (done_upd _ _ _ _ _ _ _ _ Hth); [intros; lia|].
        apply (u_inst _ HI); assumption.
      + intros t' th' o H' Hr. apply (done_upd _ _ _ _ _ _ _ _ Hth); [intros; lia|].
        apply nth_error_upd_inv in H'. destruct H' as [[-> ->]|[Hne H']].
        * cbn [ret] in Hr. eapply (u_ret _ HI); eauto.
        * eapply (u_ret _ HI); eauto.
    - (* a statement of default_initialization, on the thread's own unpublished object *)
      destruct (u_building _ HI _ _ Hth ltac:(lia)) as (o & ob & fin & Hs & Hn & Hex & Hfull).
      replace (pc th - 2) with j in Hex by lia.
      rewrite (skipn_nth_cons _ _ _ Hb) in Hex. cbn [exec_body] in Hex.
      destruct (exec_obj i ob) as [ob'|] eqn:Eob; [|discriminate].
      rewrite (exec_instr_obj _ _ _ _ _ _ _ Eob). unfold step_obj. rewrite Hs, Hn, Eob.
      constructor; unfold fullobj; cbn [threads heap inst].
      + intros t' th' H' Hp. apply nth_error_upd_inv in H'. destruct H' as [[-> ->]|[Hne H']].
        * cbn [pc advance] in Hp. lia.
        * eapply (u_nolocal _ HI); eauto.
      + intros t' th' o' H' Hs'. rewrite upd_length.
        apply nth_error_upd_inv in H'. destruct H' as [[-> ->]|[Hne H']].
        * cbn [self advance] in Hs'. eapply (u_alloc _ HI); eauto.
        * eapply (u_alloc _ HI); eauto.
      + intros t1 t2 th1 th2 o' Hne H1 H2 Hs1 Hs2.
        apply nth_error_upd_inv in H1. apply nth_error_upd_inv in H2.
        destruct H1 as [[-> ->]|[Hn1 H1]]; destruct H2 as [[-> ->]|[Hn2 H2]].
        * congruence.
        * cbn [self advance] in Hs1. eapply (u_distinct _ HI t t2); eauto.
        * cbn [self advance] in Hs2. eapply (u_distinct _ HI t1 t); eauto.
        * eapply (u_distinct _ HI t1 t2); eauto.
      + intros t' th' H' Hp. apply nth_error_upd_inv in H'. destruct H' as [[-> ->]|[Hne H']].
        * exists o, ob', fin. cbn [pc self advance]. replace (S (pc th) - 2) with (S j) by lia.
          repeat split; auto. eapply nth_error_upd_same; eauto.
        * destruct (u_building _ HI _ _ H' Hp) as (o' & ob2 & fin2 & Hs2 & Hn2 & Hex2 & Hfull2).
          exists o', ob2, fin2. repeat split; auto.
          rewrite nth_error_upd_other; [assumption|].
          intros ->. eapply (u_distinct _ HI t' t); eauto.
      + intros t' th' o' H' Hp Hs'. apply nth_error_upd_inv in H'. destruct H' as [[-> ->]|[Hne H']].
        * cbn [pc advance] in Hp. lia.
        * destruct (u_built _ HI _ _ _ H' Hp Hs') as (ob2 & Hn2 & Hfull2).
          exists ob2. split; [|assumption]. rewrite nth_error_upd_other; [assumption|].
          intros ->. eapply (u_distinct _ HI t' t); eauto.
      + intros o' Hio. apply (done_upd _ _ _ _ _ _ _ _ Hth); [intros; lia|].
        apply (u_inst _ HI); assumption.
      + intros t' th' o' H' Hr. apply (done_upd _ _ _ _ _ _ _ _ Hth); [intros; lia|].
        apply nth_error_upd_inv in H'. destruct H' as [[-> ->]|[Hne H']].
        * cbn [ret advance] in Hr. eapply (u_ret _ HI); eauto.
        * eapply (u_ret _ HI); eauto.
    - (* IPublishSelf: the object is complete *)
      destruct (u_building _ HI _ _ Hth ltac:(lia)) as (o & ob & fin & Hs & Hn & Hex & Hfull).
      replace (pc th - 2) with nb in Hex by lia.
      rewrite skipn_all in Hex. cbn [exec_body] in Hex. injection Hex as <-.
      cbn [exec_instr]. rewrite Hs.
      assert (Hdone : done (mkState (lock st) (Some o) (heap st) (upd (threads st) t (advance th))) o).
      { exists t, (advance th). cbn [threads pc self advance].
        split; [eapply nth_error_upd_same; eauto|]. split; [assumption|lia]. }
      constructor; unfold fullobj; cbn [threads heap inst].
      + intros t' th' H' Hp. apply nth_error_upd_inv in H'. destruct H' as [[-> ->]|[Hne H']].
        * cbn [pc advance] in Hp. lia.
        * eapply (u_nolocal _ HI); eauto.
      + intros t' th' o' H' Hs'.
        apply nth_error_upd_inv in H'. destruct H' as [[-> ->]|[Hne H']].
        * cbn [self advance] in Hs'. eapply (u_alloc _ HI); eauto.
        * eapply (u_alloc _ HI); eauto.
      + intros t1 t2 th1 th2 o' Hne H1 H2 Hs1 Hs2.
        apply nth_error_upd_inv in H1. apply nth_error_upd_inv in H2.
        destruct H1 as [[-> ->]|[Hn1 H1]]; destruct H2 as [[-> ->]|[Hn2 H2]].
        * congruence.
        * cbn [self advance] in Hs1. eapply (u_distinct _ HI t t2); eauto.
        * cbn [self advance] in Hs2. eapply (u_distinct _ HI t1 t); eauto.
        * eapply (u_distinct _ HI t1 t2); eauto.
      + intros t' th' H' Hp. apply nth_error_upd_inv in H'. destruct H' as [[-> ->]|[Hne H']].
        * cbn [pc advance] in Hp. lia.
        * eapply (u_building _ HI); eauto.
      + intros t' th' o' H' Hp Hs'. apply nth_error_upd_inv in H'. destruct H' as [[-> ->]|[Hne H']].
        * cbn [self advance] in Hs'. assert (o' = o) by congruence. subst o'.
          exists ob. split; assumption.
        * eapply (u_built _ HI); eauto.
      + intros o' Hio. injection Hio as <-. exact Hdone.
      + intros t' th' o' H' Hr. apply (done_upd _ _ _ _ _ _ _ _ Hth); [intros; lia|].
        apply nth_error_upd_inv in H'. destruct H' as [[-> ->]|[Hne H']].
        * cbn [ret advance] in Hr. eapply (u_ret _ HI); eauto.
        * eapply (u_ret _ HI); eauto.
    - (* IReturn *)
      cbn [exec_instr]. unfold set_thread. rewrite Hlen.
      constructor; unfold fullobj; cbn [threads heap inst].
      + intros t' th' H' Hp. apply nth_error_upd_inv in H'. destruct H' as [[-> ->]|[Hne H']].
        * cbn [pc] in Hp. lia.
        * eapply (u_nolocal _ HI); eauto.
      + intros t' th' o' H' Hs'.
        apply nth_error_upd_inv in H'. destruct H' as [[-> ->]|[Hne H']].
        * cbn [self] in Hs'. eapply (u_alloc _ HI); eauto.
        * eapply (u_alloc _ HI); eauto.
      + intros t1 t2 th1 th2 o' Hne H1 H2 Hs1 Hs2.
        apply nth_error_upd_inv in H1. apply nth_error_upd_inv in H2.
        destruct H1 as [[-> ->]|[Hn1 H1]]; destruct H2 as [[-> ->]|[Hn2 H2]].
        * congruence.
        * cbn [self] in Hs1. eapply (u_distinct _ HI t t2); eauto.
        * cbn [self] in Hs2. eapply (u_distinct _ HI t1 t); eauto.
        * eapply (u_distinct _ HI t1 t2); eauto.
      + intros t' th' H' Hp. apply nth_error_upd_inv in H'. destruct H' as [[-> ->]|[Hne H']].
        * cbn [pc] in Hp. lia.
        * eapply (u_building _ HI); eauto.
      + intros t' th' o' H' Hp Hs'. apply nth_error_upd_inv in H'. destruct H' as [[-> ->]|[Hne H']].
        * cbn [self] in Hs'. eapply (u_built _ HI t th); eauto. lia.
        * eapply (u_built _ HI); eauto.
      + intros o' Hio. apply (done_upd _ _ _ _ _ _ _ _ Hth); [intros; cbn [pc self]; split; [reflexivity|lia]|].
        apply (u_inst _ HI); assumption.
      + intros t' th' o' H' Hr.
        apply (done_upd _ _ _ _ _ _ _ _ Hth); [intros; cbn [pc self]; split; [reflexivity|lia]|].
        apply nth_error_upd_inv in H'. destruct H' as [[-> ->]|[Hne H']].
        * cbn [ret] in Hr. apply (u_inst _ HI); assumption.
        * eapply (u_ret _ HI); eauto.
  Qed.

  Lemma urun_inv n sched : UInv (run uprog n sched).
  Proof.
    unfold run, run_from. generalize (uinit_inv n). generalize (init n).
    induction sched as [|t sched IH]; intros st H; cbn [fold_left]; auto.
    apply IH. apply ustep_inv. assumption.
  Qed.

  (* without any lock: whoever returns holds a completely initialised lexer *)
  Theorem unlocked_new_init_safe : forall n sched t o,
    returned (run uprog n sched) t = Some o -> fully_initialised expected (run uprog n sched) o.
  Proof.
    intros n sched t o H. pose proof (urun_inv n sched) as HI. unfold returned in H.
    destruct (nth_error (threads (run uprog n sched)) t) as [th|] eqn:Hth; [|discriminate].
    destruct (u_ret _ HI _ _ _ Hth H) as (t1 & th1 & H1 & Hs1 & Hp1).
    destruct (u_built _ HI _ _ _ H1 Hp1 Hs1) as (ob & Hn & Hfull).
    apply fully_initialisedb_spec. unfold fully_initialisedb. rewrite Hn. exact Hfull.
  Qed.

  (* ... and what the shared variable designates is complete at every moment *)
  Theorem unlocked_new_inst_complete : forall n sched o,
    inst (run uprog n sched) = Some o -> fully_initialised expected (run uprog n sched) o.
  Proof.
    intros n sched o H. pose proof (urun_inv n sched) as HI.
    destruct (u_inst _ HI _ H) as (t1 & th1 & H1 & Hs1 & Hp1).
    destruct (u_built _ HI _ _ _ H1 Hp1 Hs1) as (ob & Hn & Hfull).
    apply fully_initialisedb_spec. unfold fully_initialisedb. rewrite Hn. exact Hfull.
  Qed.
End UnlockedNew.
Print Assumptions unlocked_new_init_safe.

(* =============================================================================================== *)
(* Refutations: the same statements are FALSE for the unprotected variants. *)

Definition is_lock_instr (i : instr) : bool :=
  match i with IAcquire | IRelease => true | _ => false end.

(* no `with cls._lock:`.  (The jump target moves up by one because the IAcquire in front of it is
   gone; it now designates the IReturn.) *)
Definition unlocked_of (p : list instr) : list instr :=
  map (fun i => match i with IJumpIfInst tg => IJumpIfInst (tg - 1) | _ => i end)
      (filter (fun i => negb (is_lock_instr i)) p).

(* the lock is dropped right after the assignment:
     with cls._lock:
         if cls._default_instance is None: cls._default_instance = cls()
     cls._default_instance.default_initialization()
     return cls._default_instance *)
Definition early_release_of (p : list instr) : list instr :=
  match p with
  | a :: IJumpIfInst _ :: nw :: rest =>
      a :: IJumpIfInst 3 :: nw :: IRelease
        :: filter (fun i => match i with IRelease => false | _ => true end) rest
  | _ => p
  end.

(* ---- publish-then-initialise (the historic program when the source has that shape) ----------- *)
Definition unlocked_prog : list instr := unlocked_of old_prog.
Definition early_release_prog : list instr := early_release_of old_prog.
(* ---- initialise-then-publish ------------------------------------------------------------------ *)
Definition unlocked_new_prog : list instr := unlocked_of new_prog.

Eval vm_compute in unlocked_prog.
Eval vm_compute in early_release_prog.
Eval vm_compute in unlocked_new_prog.

(* the proof obligation fails for all of them *)
Example unlocked_not_well_locked : well_locked expected_kws unlocked_prog = false.
Proof. vm_compute. reflexivity. Qed.
Example early_release_not_well_locked : well_locked expected_kws early_release_prog = false.
Proof. vm_compute. reflexivity. Qed.
Example unlocked_new_not_well_locked : well_locked expected_kws unlocked_new_prog = false.
Proof. vm_compute. reflexivity. Qed.

(* A: test, allocate+publish;  B: test (sees the instance), return -> B holds a Lexer without
   _SQL_REGEX/_keywords *)
Theorem C20_unlocked_refuted :
  exists sched t o,
    returned (run unlocked_prog 2 sched) t = Some o /\
    ~ fully_initialised expected_kws (run unlocked_prog 2 sched) o.
Proof.
  exists [0; 0; 1; 1], 1, 0. split; [vm_compute; reflexivity|].
  intros H. apply fully_initialisedb_spec in H. vm_compute in H. discriminate.
Qed.
Print Assumptions C20_unlocked_refuted.

Eval vm_compute in run unlocked_prog 2 [0; 0; 1; 1].

(* also: two objects get allocated (A and B both see None) and the two threads end up with
   different instances *)
Theorem C20_unlocked_two_instances_refuted :
  exists sched o1 o2,
    returned (run unlocked_prog 2 sched) 0 = Some o1 /\
    returned (run unlocked_prog 2 sched) 1 = Some o2 /\ o1 <> o2 /\
    length (heap (run unlocked_prog 2 sched)) = 2.
Proof.
  exists ([0; 1; 0] ++ repeat 0 (length unlocked_prog) ++ [1; 0] ++ repeat 1 (length unlocked_prog)).
  vm_compute. eexists _, _. repeat split; discriminate.
Qed.
Print Assumptions C20_unlocked_two_instances_refuted.

(* A runs everything but its return; B enters, finds the instance, leaves the lock and re-runs
   clear(); A returns an object whose lists have just been emptied *)
Theorem C20_early_release_refuted :
  exists sched t o,
    returned (run early_release_prog 2 sched) t = Some o /\
    ~ fully_initialised expected_kws (run early_release_prog 2 sched) o.
Proof.
  exists (repeat 0 (length early_release_prog - 1) ++ [1; 1; 1; 1; 1; 0]), 0, 0.
  split; [vm_compute; reflexivity|].
  intros H. apply fully_initialisedb_spec in H. vm_compute in H. discriminate.
Qed.
Print Assumptions C20_early_release_refuted.

Eval vm_compute in
  run early_release_prog 2 (repeat 0 (length early_release_prog - 1) ++ [1; 1; 1; 1; 1; 0]).

(* ---- the publish-last shape without the lock ---------------------------------------------------
   Both threads see None, both build an object, both publish: two Lexer objects, the two threads
   hold different instances, and the instance published first is REPLACED -- the lock is what
   gives single initialisation ... *)
Theorem C20_unlocked_new_two_instances_refuted :
  exists sched o1 o2,
    returned (run unlocked_new_prog 2 sched) 0 = Some o1 /\
    returned (run unlocked_new_prog 2 sched) 1 = Some o2 /\ o1 <> o2 /\
    length (heap (run unlocked_new_prog 2 sched)) = 2.
Proof.
  exists ([0; 1] ++ repeat 0 (length unlocked_new_prog) ++ repeat 1 (length unlocked_new_prog)).
  vm_compute. eexists _, _. repeat split; discriminate.
Qed.
Print Assumptions C20_unlocked_new_two_instances_refuted.

Theorem C20_unlocked_new_replaced_refuted :
  exists sched sched' o o',
    inst (run unlocked_new_prog 2 sched) = Some o /\
    inst (run unlocked_new_prog 2 (sched ++ sched')) = Some o' /\ o <> o'.
Proof.
  exists ([0; 1] ++ repeat 0 (length unlocked_new_prog)), (repeat 1 (length unlocked_new_prog)).
  vm_compute. eexists _, _. repeat split; discriminate.
Qed.
Print Assumptions C20_unlocked_new_replaced_refuted.

Eval vm_compute in
  run unlocked_new_prog 2 ([0; 1] ++ repeat 0 (length unlocked_new_prog) ++ repeat 1 (length unlocked_new_prog)).

(* ... but NOT what keeps half-built objects away from the callers: without the lock every thread
   that returns still holds a completely initialised lexer, for every thread count and schedule *)
Lemma unlocked_new_prog_eq : unlocked_new_prog = uprog gen_body.
Proof.
  destruct gen_body_ok as (fin & Hex & _).
  assert (Hf : forall l ob fin', exec_body l ob = Some fin' ->
               map (fun i => match i with IJumpIfInst tg => IJumpIfInst (tg - 1) | _ => i end)
                   (filter (fun i => negb (is_lock_instr i)) l) = l).
  { induction l as [|a l IH]; intros ob fin' H; [reflexivity|].
    cbn [exec_body] in H. destruct (exec_obj a ob) as [ob'|] eqn:E; [|discriminate].
    pose proof (exec_obj_is_obj _ _ _ E) as Ha.
    destruct a; try discriminate; cbn [filter is_lock_instr negb map]; f_equal; eapply IH; eauto. }
  unfold unlocked_new_prog, unlocked_of, new_prog, prog_of, uprog.
  cbn [filter is_lock_instr negb map]. rewrite filter_app, map_app. rewrite (Hf _ _ _ Hex).
  cbn [filter is_lock_instr negb map app]. do 2 f_equal.
Qed.

Theorem C20_unlocked_new_init_safe : forall n sched t o,
  returned (run unlocked_new_prog n sched) t = Some o ->
  fully_initialised expected_kws (run unlocked_new_prog n sched) o.
Proof.
  rewrite unlocked_new_prog_eq. exact (unlocked_new_init_safe _ _ gen_body_ok).
Qed.
Print Assumptions C20_unlocked_new_init_safe.

Theorem C20_unlocked_new_inst_complete : forall n sched o,
  inst (run unlocked_new_prog n sched) = Some o ->
  fully_initialised expected_kws (run unlocked_new_prog n sched) o.
Proof.
  rewrite unlocked_new_prog_eq. exact (unlocked_new_inst_complete _ _ gen_body_ok).
Qed.
Print Assumptions C20_unlocked_new_inst_complete.

(* the hypothesis of C20_unlocked_new_init_safe is satisfiable: both threads return (different!)
   completely initialised objects *)
Example C20_ex_unlocked_new :
  let st := run unlocked_new_prog 2
                ([0; 1] ++ repeat 0 (length unlocked_new_prog) ++ repeat 1 (length unlocked_new_prog)) in
  returned st 0 = Some 0 /\ returned st 1 = Some 1
  /\ fully_initialisedb expected_kws st 0 = true /\ fully_initialisedb expected_kws st 1 = true.
Proof. vm_compute. repeat split. Qed.

(* =============================================================================================== *)
(* Examples: the hypotheses of the theorems are satisfiable; sample runs *)

(* thread 0 gets the lock and is pre-empted in the middle of the initialisation; 1 and 2 block *)
Eval vm_compute in run prog 3 [0; 0; 0; 0; 0; 0; 0; 1; 2; 1; 2; 0; 1].
(* round-robin, 3 threads, 21 rounds: everybody has returned object 0 *)
Eval vm_compute in run prog 3 (round_robin 3 21).
(* thread 1 wins, finishes; 0 and 2 come later and take the fast path *)
Eval vm_compute in run prog 3 (repeat 1 (length prog) ++ [0; 2; 0; 2; 2; 0; 0; 2; 2; 2; 2]).

Example C20_ex_returned :
  returned (run prog 3 (repeat 1 (length prog) ++ [0; 2; 0; 2; 2; 0; 0; 2; 2; 2; 2])) 2 = Some 0
  /\ returned (run prog 3 (repeat 1 (length prog) ++ [0; 2; 0; 2; 2; 0; 0; 2; 2; 2; 2])) 1 = Some 0
  /\ fully_initialisedb expected_kws (run prog 3 (repeat 1 (length prog) ++ [0; 2; 0; 2; 2; 0; 0; 2; 2; 2; 2])) 0 = true.
Proof. vm_compute. repeat split. Qed.

(* in the middle of the initialisation nobody has returned -- the theorems are not vacuous.
   Publish-first shape: the PUBLISHED object is not yet fully initialised (the lock is all that
   protects the other threads); publish-last shape: nothing is published yet. *)
Example C20_ex_midway_old :
  let st := run old_prog 3 [0; 0; 0; 0; 0; 0; 0; 1; 2; 1; 2; 0; 1] in
  inst st = Some 0 /\ fully_initialisedb expected_kws st 0 = false
  /\ returned st 0 = None /\ returned st 1 = None /\ lock st = Some 0.
Proof. vm_compute. repeat split. Qed.

Example C20_ex_midway_new :
  let st := run new_prog 3 [0; 0; 0; 0; 0; 0; 0; 1; 2; 1; 2; 0; 1] in
  inst st = None /\ length (heap st) = 1 /\ fully_initialisedb expected_kws st 0 = false
  /\ returned st 0 = None /\ returned st 1 = None /\ lock st = Some 0.
Proof. vm_compute. repeat split. Qed.

Example C20_ex_midway :
  let st := run prog 3 [0; 0; 0; 0; 0; 0; 0; 1; 2; 1; 2; 0; 1] in
  length (heap st) = 1 /\ fully_initialisedb expected_kws st 0 = false
  /\ returned st 0 = None /\ returned st 1 = None /\ lock st = Some 0.
Proof. vm_compute. repeat split. Qed.

Example C20_ex_round_robin :
  map (returned (run prog 4 (round_robin 4 (4 * length prog)))) [0; 1; 2; 3]
  = [Some 0; Some 0; Some 0; Some 0].
Proof. vm_compute. reflexivity. Qed.

Example C20_ex_round_robin_both :
  map (returned (run old_prog 4 (round_robin 4 (4 * length old_prog)))) [0; 1; 2; 3]
  = [Some 0; Some 0; Some 0; Some 0]
  /\ map (returned (run new_prog 4 (round_robin 4 (4 * length new_prog)))) [0; 1; 2; 3]
     = [Some 0; Some 0; Some 0; Some 0].
Proof. vm_compute. split; reflexivity. Qed.
