(* Facts about the model of the command line front end (Sys/CliDefs.v) over the REGENERATED tables
   Gen/CliTab.v (create_parser / main of sqlparse/cli.py) and Gen/OptTab.v (validate_options /
   build_filter_stack).  The proofs use the generated tables only through boolean checks decided by
   vm_compute (doc_table_ok, flags_ok, positional_ok, the open specs); the lemmas about argparse are generic
   in the table. *)
From Coq Require Import ZArith Lia String.
From SqlModel Require Import Base PyStr Utf8 Utf8Facts.
From SqlModel.Filters Require Import OptDefs OptFacts.
From SqlModel.Sys Require Import CliTypes CliDefs.
From SqlModel.Gen Require OptTab CliTab CaseTabs.
Local Open Scope N_scope.

Notation cfg := OptTab.icfg (only parsing).
Notation AB := CliTab.cli_allow_abbrev (only parsing).
Notation AR := CliTab.cli_args (only parsing).

(* ---- the code-point constants are the strings they claim to be ----------------------------------- *)
Example cli_names_spelled :
  k_filename = tx "filename" /\ k_outfile = tx "outfile" /\ k_encoding = tx "encoding" /\
  s_dashdash = tx "--" /\ w_upper = tx "upper" /\ w_lower = tx "lower" /\ w_capitalize = tx "capitalize" /\
  w_python = tx "python" /\ w_php = tx "php" /\
  n_utf8 = [tx "utf-8"; tx "utf8"; tx "UTF-8"] /\ n_latin1 = [tx "latin-1"; tx "latin1"; tx "iso-8859-1"] /\
  fam_file = tx "f.sql".
Proof. repeat split; reflexivity. Qed.

Example doc_flags_spelled :
  map (fun e : list text * text * vkind => fst e) doc_flags =
  [ ([tx "-k"; tx "--keywords"], tx "keyword_case");
    ([tx "-i"; tx "--identifiers"], tx "identifier_case");
    ([tx "-l"; tx "--language"], tx "output_format");
    ([tx "--strip-comments"], tx "strip_comments");
    ([tx "-r"; tx "--reindent"], tx "reindent");
    ([tx "--indent_width"], tx "indent_width");
    ([tx "--indent_after_first"], tx "indent_after_first");
    ([tx "--indent_columns"], tx "indent_columns");
    ([tx "-a"; tx "--reindent_aligned"], tx "reindent_aligned");
    ([tx "-s"; tx "--use_space_around_operators"], tx "use_space_around_operators");
    ([tx "--wrap_after"], tx "wrap_after");
    ([tx "--comma_first"], tx "comma_first");
    ([tx "--compact"], tx "compact");
    ([tx "--encoding"], tx "encoding");
    ([tx "-o"; tx "--outfile"], tx "outfile") ].
Proof. reflexivity. Qed.

(* ---- the table checks (recomputed against the regenerated Gen/CliTab.v) ---------------------------- *)
Lemma doc_table_ok_now : doc_table_ok AR = true.
Proof. vm_compute. reflexivity. Qed.

Lemma flags_ok_now : flags_ok AR = true.
Proof. vm_compute. reflexivity. Qed.

Lemma positional_ok_now : positional_ok AR = true.
Proof. vm_compute. reflexivity. Qed.

(* every option the documented flags set (the file plumbing --encoding / -o aside) is a key that
   validate_options / build_filter_stack read (Gen/OptTab.option_keys) *)
Example cli_doc_options_are_format_options :
  forallb (fun e : list text * text * vkind =>
             let o := snd (fst e) in
             text_eqb o k_encoding || text_eqb o k_outfile || existsb (text_eqb o) OptTab.option_keys) doc_flags = true.
Proof. vm_compute. reflexivity. Qed.

(* the keys format reads that no flag of the command line can set: they always keep their default *)
Example cli_options_without_flag :
  filter (fun k => negb (existsb (fun e : list text * text * vkind => text_eqb (snd (fst e)) k) doc_flags)) OptTab.option_keys
  = [tx "strip_whitespace"; tx "truncate_strings"; tx "truncate_char"; tx "indent_tabs"; tx "indent_char"; tx "right_margin"].
Proof. vm_compute. reflexivity. Qed.

(* ---- small facts ------------------------------------------------------------------------------------ *)
Lemma texts_eqb_eq a b : texts_eqb a b = true -> a = b.
Proof.
  revert b. induction a as [|x a IH]; intros [|y b] H; cbn [texts_eqb] in H; try discriminate; [reflexivity|].
  apply andb_true_iff in H. destruct H as [H1 H2]. apply text_eqb_eq in H1. subst y. f_equal. apply IH. exact H2.
Qed.

Lemma no_eq_app x v : no_eq (x ++ 61 :: v) = false.
Proof.
  induction x as [|c x IH]; cbn [no_eq app forallb]; [reflexivity|].
  fold (no_eq (x ++ 61 :: v)). rewrite IH. apply andb_false_r.
Qed.

Lemma split_eq_app x v : no_eq x = true -> split_eq (x ++ 61 :: v) = Some (x, v).
Proof.
  induction x as [|c x IH]; intros H; cbn [app split_eq].
  - reflexivity.
  - cbn [no_eq forallb] in H. apply andb_true_iff in H. destruct H as [Hc Hx].
    apply negb_true_iff in Hc. rewrite Hc. fold (no_eq x) in Hx. rewrite (IH Hx). reflexivity.
Qed.

Lemma assoc_flag_some l s a : assoc_flag l s = Some a -> In (s, a) l.
Proof.
  induction l as [|[f b] l IH]; cbn [assoc_flag]; [discriminate|].
  destruct (text_eqb f s) eqn:E.
  - intros H. injection H as ->. apply text_eqb_eq in E. subst f. left. reflexivity.
  - intros H. right. apply IH. exact H.
Qed.

Lemma assoc_flag_noeq l x v :
  forallb (fun fa : text * cli_arg => no_eq (fst fa)) l = true -> assoc_flag l (x ++ 61 :: v) = None.
Proof.
  induction l as [|[f b] l IH]; intros H; cbn [assoc_flag]; [reflexivity|].
  cbn [forallb fst] in H. apply andb_true_iff in H. destruct H as [Hf Hl].
  destruct (text_eqb f (x ++ 61 :: v)) eqn:E.
  - apply text_eqb_eq in E. subst f. rewrite no_eq_app in Hf. discriminate.
  - apply IH. exact Hl.
Qed.

(* ---- generic facts about the argparse model ------------------------------------------------------- *)
Section Generic.
  Variable c : int_cfg.
  Variable ab : bool.
  Variable A : list cli_arg.
  Hypothesis HA : flags_ok A = true.

  Lemma flags_ok_in f a :
    In (f, a) (all_flags A) -> no_eq f = true /\ flag_shape f = true /\ text_eqb f s_dashdash = false.
  Proof.
    intros Hin. unfold flags_ok in HA. rewrite forallb_forall in HA. specialize (HA (f, a) Hin).
    cbn [fst] in HA. apply andb_true_iff in HA. destruct HA as [H12 H3].
    apply andb_true_iff in H12. destruct H12 as [H1 H2]. apply negb_true_iff in H3. auto.
  Qed.

  Lemma flags_all_noeq : forallb (fun fa : text * cli_arg => no_eq (fst fa)) (all_flags A) = true.
  Proof.
    apply forallb_forall. intros [f a] Hin. cbn [fst]. apply (flags_ok_in f a Hin).
  Qed.

  Lemma find_flag_in fl a : find_flag A fl = Some a -> In (fl, a) (all_flags A).
  Proof. apply assoc_flag_some. Qed.

  Lemma classify_exact fl a : find_flag A fl = Some a -> classify c ab A fl = KOpt a fl None.
  Proof.
    intros H. destruct (flags_ok_in fl a (find_flag_in fl a H)) as (_ & Hs & _).
    destruct fl as [|c1 [|c2 r]]; cbn [flag_shape] in Hs; try discriminate.
    unfold classify. rewrite Hs. cbn [negb]. rewrite H. reflexivity.
  Qed.

  Lemma classify_eqform fl v a :
    find_flag A fl = Some a -> classify c ab A (fl ++ 61 :: v) = KOpt a fl (Some v).
  Proof.
    intros H. destruct (flags_ok_in fl a (find_flag_in fl a H)) as (Hn & Hs & _).
    assert (Hnone : find_flag A (fl ++ 61 :: v) = None) by (apply assoc_flag_noeq, flags_all_noeq).
    assert (Hsp : split_eq (fl ++ 61 :: v) = Some (fl, v)) by (apply split_eq_app; exact Hn).
    destruct fl as [|c1 [|c2 r]]; cbn [flag_shape] in Hs; try discriminate.
    unfold classify. cbn [app] in *. rewrite Hs. cbn [negb]. rewrite Hnone, Hsp, H. reflexivity.
  Qed.

  Lemma cluster_value a o e : takes_value a = true -> cluster A a o e = ([], TVal a e).
  Proof. intros H. destruct e; cbn [cluster]; rewrite H; reflexivity. Qed.

  Lemma run_sep a fl v rest st : takes_value a = true ->
    run c A ((fl, KOpt a fl None) :: (v, KArg) :: rest) st
    = (ns2 <= take_store c a false v (ps_ns st) ;;; run c A rest (st_ns st ns2)).
  Proof. intros H. cbn [run]. rewrite H. cbn [take_flags cbind]. reflexivity. Qed.

  Lemma run_eq a s fl v rest st : takes_value a = true ->
    run c A ((s, KOpt a fl (Some v)) :: rest) st
    = (ns2 <= take_store c a true v (ps_ns st) ;;; run c A rest (st_ns st ns2)).
  Proof. intros H. cbn [run]. rewrite (cluster_value a fl v H). cbn [take_flags cbind]. reflexivity. Qed.

  Lemma run_flag a fl rest st : ca_action a = ActStoreTrue ->
    run c A ((fl, KOpt a fl None) :: rest) st
    = run c A rest (st_ns st (oset (ps_ns st) (ca_dest a) (PBool true))).
  Proof.
    intros H. cbn [run]. unfold takes_value. rewrite H. cbn [app take_flags cbind].
    unfold take_flag. rewrite H. cbn [cbind]. reflexivity.
  Qed.

  Definition head_not_dd (l : list (text * klass)) : Prop :=
    match l with (_, KDD) :: _ => False | _ => True end.

  Lemma run_positional p f rest st :
    ps_pending st = Some p -> type_is p TyNone = true -> no_choices p = true -> head_not_dd rest ->
    run c A ((f, KArg) :: rest) st
    = run c A rest {| ps_ns := oset (ps_ns st) (ca_dest p) (PStr f); ps_pending := None; ps_extras := ps_extras st |}.
  Proof.
    intros Hp Ht Hc Hh. cbn [run]. rewrite Hp.
    unfold st_positional, take_store, store_value, convert, choice_ok.
    cbn [andb]. unfold type_is in Ht. unfold no_choices in Hc.
    destruct (ca_type p); try discriminate. destruct (ca_choices p); try discriminate.
    cbn [cbind]. destruct rest as [|[s k] rest']; [reflexivity|].
    destruct k; try reflexivity. cbn [head_not_dd] in Hh. contradiction.
  Qed.

  Lemma classify_all_app l1 l2 :
    forallb (fun s => negb (text_eqb s s_dashdash)) l1 = true ->
    classify_all c ab A (l1 ++ l2) = map (fun s => (s, classify c ab A s)) l1 ++ classify_all c ab A l2.
  Proof.
    induction l1 as [|s l1 IH]; intros H; cbn [app map classify_all]; [reflexivity|].
    cbn [forallb] in H. apply andb_true_iff in H. destruct H as [Hs Hl].
    apply negb_true_iff in Hs. rewrite Hs. rewrite (IH Hl). reflexivity.
  Qed.
End Generic.

(* ---- the documented table against the current parser ------------------------------------------------ *)
Definition cl (l : list text) : list (text * klass) := map (fun s => (s, classify cfg AB AR s)) l.

Lemma doc_lookup_sound l fl o k :
  doc_lookup l fl = Some (o, k) -> exists fs, In (fs, o, k) l /\ existsb (text_eqb fl) fs = true.
Proof.
  induction l as [|[[fs o'] k'] l IH]; cbn [doc_lookup]; [discriminate|].
  destruct (existsb (text_eqb fl) fs) eqn:E.
  - intros H. injection H as -> ->. exists fs. split; [left; reflexivity | exact E].
  - intros H. destruct (IH H) as (fs' & Hin & He). exists fs'. split; [right; exact Hin | exact He].
Qed.

Lemma doc_entry fl o k :
  doc_lookup doc_flags fl = Some (o, k) ->
  exists a, find_flag AR fl = Some a /\ ca_dest a = o /\ kind_matches a k = true.
Proof.
  intros H. destruct (doc_lookup_sound _ _ _ _ H) as (fs & Hin & He).
  pose proof doc_table_ok_now as T. unfold doc_table_ok in T. rewrite forallb_forall in T.
  specialize (T _ Hin). cbn beta iota in T. rewrite forallb_forall in T.
  apply existsb_exists in He. destruct He as (fl' & Hin' & Heq). apply text_eqb_eq in Heq. subst fl'.
  specialize (T _ Hin'). destruct (find_flag AR fl) as [a|]; [|discriminate].
  apply andb_true_iff in T. destruct T as [Td Tk]. apply text_eqb_eq in Td.
  exists a. auto.
Qed.

Lemma kind_takes_value a k : kind_matches a k = true -> k <> VFlag -> takes_value a = true.
Proof.
  destruct k; cbn [kind_matches]; intros H Hk; try congruence;
    repeat (apply andb_true_iff in H; destruct H as [H ?]); assumption.
Qed.

(* what a `store` action makes of the value string is what the documented kind says *)
Lemma store_value_kind a k ex v val :
  kind_matches a k = true -> (ex && text_eqb v s_dashdash)%bool = false -> kind_value k v = Some val ->
  store_value cfg a ex v = COk val.
Proof.
  intros Hk Hex Hv. unfold store_value. rewrite Hex. unfold convert, choice_ok.
  destruct k as [|cs| | |]; cbn [kind_matches kind_value] in Hk, Hv.
  - discriminate.
  - apply andb_true_iff in Hk. destruct Hk as [Hk Hc]. apply andb_true_iff in Hk. destruct Hk as [_ Ht].
    unfold type_is in Ht. destruct (ca_type a); try discriminate.
    destruct (ca_choices a) as [cs'|]; [|discriminate]. apply texts_eqb_eq in Hc. subst cs'.
    destruct (existsb (text_eqb v) cs) eqn:E; [|discriminate]. injection Hv as <-. reflexivity.
  - apply andb_true_iff in Hk. destruct Hk as [Hk Hc]. apply andb_true_iff in Hk. destruct Hk as [_ Ht].
    unfold type_is in Ht. destruct (ca_type a); try discriminate.
    unfold no_choices in Hc. destruct (ca_choices a); [discriminate|].
    destruct (int_of_str cfg v) as [z|]; [|discriminate]. injection Hv as <-. reflexivity.
  - apply andb_true_iff in Hk. destruct Hk as [Hk Hc]. apply andb_true_iff in Hk. destruct Hk as [_ Ht].
    unfold type_is in Ht. destruct (ca_type a); try discriminate.
    unfold no_choices in Hc. destruct (ca_choices a); [discriminate|].
    injection Hv as <-. reflexivity.
  - apply andb_true_iff in Hk. destruct Hk as [Hk Hc]. apply andb_true_iff in Hk. destruct Hk as [_ Ht].
    unfold type_is in Ht. destruct (ca_type a); try discriminate.
    unfold no_choices in Hc. destruct (ca_choices a); [discriminate|].
    injection Hv as <-. reflexivity.
Qed.

(* the classified form of the argument strings of a documented use *)
Inductive use_shape (u : use) (o : text) (val : pval) : list (text * klass) -> Prop :=
| ShFlag a : ca_dest a = o -> ca_action a = ActStoreTrue -> val = PBool true ->
    use_shape u o val [(u_flag u, KOpt a (u_flag u) None)]
| ShSep a v : ca_dest a = o -> takes_value a = true -> store_value cfg a false v = COk val ->
    use_shape u o val [(u_flag u, KOpt a (u_flag u) None); (v, KArg)]
| ShEq a v s : ca_dest a = o -> takes_value a = true -> store_value cfg a true v = COk val ->
    use_shape u o val [(s, KOpt a (u_flag u) (Some v))].

Lemma is_arg_spec v : is_arg v = true -> text_eqb v s_dashdash = false /\ classify cfg AB AR v = KArg.
Proof.
  unfold is_arg. intros H. apply andb_true_iff in H. destruct H as [H1 H2].
  apply negb_true_iff in H1. split; [exact H1|].
  destruct (classify cfg AB AR v); try discriminate. reflexivity.
Qed.

Lemma cl_use u o val : use_value u = Some (o, val) -> use_shape u o val (cl (render_use u)).
Proof.
  unfold use_value, render_use, cl. destruct u as [fl uv uf]. cbn [u_flag u_val u_form].
  destruct (doc_lookup doc_flags fl) as [[o' k]|] eqn:D; [|discriminate].
  destruct (doc_entry _ _ _ D) as (a & Hf & Hd & Hk).
  destruct uv as [v|]; destruct uf.
  - (* flag value *)
    destruct (is_arg v) eqn:Ia; [|discriminate].
    destruct (kind_value k v) as [val'|] eqn:Kv; cbn [option_map]; [|discriminate].
    intros H. injection H as <- <-.
    destruct (is_arg_spec v Ia) as [Hdd Hc]. cbn [map].
    rewrite (classify_exact cfg AB AR flags_ok_now fl a Hf), Hc.
    apply (ShSep {| u_flag := fl; u_val := Some v; u_form := FSep |} o' val' a v Hd).
    + apply (kind_takes_value a k Hk). intros ->. discriminate.
    + apply (store_value_kind a k false v val' Hk); [reflexivity | exact Kv].
  - (* flag=value *)
    destruct (text_eqb v s_dashdash) eqn:Hdd; [discriminate|].
    destruct (kind_value k v) as [val'|] eqn:Kv; cbn [option_map]; [|discriminate].
    intros H. injection H as <- <-. cbn [map].
    rewrite (classify_eqform cfg AB AR flags_ok_now fl v a Hf).
    apply (ShEq {| u_flag := fl; u_val := Some v; u_form := FEq |} o' val' a v (fl ++ 61 :: v) Hd).
    + apply (kind_takes_value a k Hk). intros ->. discriminate.
    + apply (store_value_kind a k true v val' Hk); [rewrite Hdd; reflexivity | exact Kv].
  - (* flag *)
    destruct k; try discriminate. intros H. injection H as <- <-. cbn [map].
    rewrite (classify_exact cfg AB AR flags_ok_now fl a Hf).
    apply (ShFlag {| u_flag := fl; u_val := None; u_form := FSep |} o' (PBool true) a Hd); [|reflexivity].
    cbn [kind_matches] in Hk. destruct (ca_action a); try discriminate. reflexivity.
  - discriminate.
Qed.

Lemma run_use u o val rest st :
  use_value u = Some (o, val) ->
  run cfg AR (cl (render_use u) ++ rest) st = run cfg AR rest (st_ns st (oset (ps_ns st) o val)).
Proof.
  intros H. destruct (cl_use u o val H) as [a Hd Ha Hv | a v Hd Ht Hs | a v s Hd Ht Hs]; cbn [app].
  - rewrite (run_flag cfg AR a _ rest st Ha). rewrite Hd, Hv. reflexivity.
  - rewrite (run_sep cfg AR a _ v rest st Ht). unfold take_store. rewrite Hs. cbn [cbind]. rewrite Hd. reflexivity.
  - rewrite (run_eq cfg AR a s _ v rest st Ht). unfold take_store. rewrite Hs. cbn [cbind]. rewrite Hd. reflexivity.
Qed.

Lemma valid_use_value u : valid_use u = true -> exists o val, use_value u = Some (o, val).
Proof. unfold valid_use. destruct (use_value u) as [[o val]|]; [eauto | discriminate]. Qed.

Lemma st_ns_ns st a b : st_ns (st_ns st a) b = st_ns st b.
Proof. reflexivity. Qed.

Lemma cl_app l1 l2 : cl (l1 ++ l2) = cl l1 ++ cl l2.
Proof. apply map_app. Qed.

Lemma run_uses us : forall rest st, forallb valid_use us = true ->
  run cfg AR (cl (render us) ++ rest) st = run cfg AR rest (st_ns st (apply_uses us (ps_ns st))).
Proof.
  induction us as [|u us IH]; intros rest st H.
  - cbn [render flat_map cl map app apply_uses fold_left]. destruct st; reflexivity.
  - cbn [forallb] in H. apply andb_true_iff in H. destruct H as [Hu Hus].
    destruct (valid_use_value u Hu) as (o & val & Huv).
    unfold render. cbn [flat_map]. fold (render us). rewrite cl_app, <- app_assoc.
    rewrite (run_use u o val _ st Huv). rewrite (IH rest _ Hus). cbn [st_ns ps_ns ps_pending ps_extras].
    rewrite st_ns_ns. unfold apply_uses. cbn [fold_left].
    replace (apply_use (ps_ns st) u) with (oset (ps_ns st) o val) by (unfold apply_use; rewrite Huv; reflexivity).
    reflexivity.
Qed.

(* none of the rendered strings is '--', none is ambiguous, the first is not the '--' marker *)
Definition not_dd (s : text) : bool := negb (text_eqb s s_dashdash).

Lemma flag_not_dd fl a : find_flag AR fl = Some a -> text_eqb fl s_dashdash = false.
Proof. intros H. apply (flags_ok_in AR flags_ok_now fl a (find_flag_in AR fl a H)). Qed.

Lemma eqform_not_dd x v : text_eqb (x ++ 61 :: v) s_dashdash = false.
Proof.
  destruct (text_eqb (x ++ 61 :: v) s_dashdash) eqn:E; [|reflexivity].
  apply text_eqb_eq in E. pose proof (no_eq_app x v) as N. rewrite E in N. discriminate.
Qed.

Lemma render_use_not_dd u : valid_use u = true -> forallb not_dd (render_use u) = true.
Proof.
  intros Hu. unfold valid_use, use_value in Hu. unfold render_use. destruct u as [fl uv uf]. cbn [u_flag u_val u_form] in *.
  destruct (doc_lookup doc_flags fl) as [[o k]|] eqn:D; [|discriminate].
  destruct (doc_entry _ _ _ D) as (a & Hf & _ & _). pose proof (flag_not_dd fl a Hf) as Hfl.
  destruct uv as [v|]; destruct uf; cbn [forallb]; unfold not_dd.
  - destruct (is_arg v) eqn:Ia; [|discriminate]. destruct (is_arg_spec v Ia) as [Hdd _].
    rewrite Hfl, Hdd. reflexivity.
  - rewrite eqform_not_dd. reflexivity.
  - rewrite Hfl. reflexivity.
  - rewrite Hfl. reflexivity.
Qed.

Lemma render_not_dd us : forallb valid_use us = true -> forallb not_dd (render us) = true.
Proof.
  induction us as [|u us IH]; intros H; [reflexivity|].
  cbn [forallb] in H. apply andb_true_iff in H. destruct H as [Hu Hus].
  unfold render. cbn [flat_map]. rewrite forallb_app. rewrite (render_use_not_dd u Hu). apply IH. exact Hus.
Qed.

Lemma use_not_ambig u : valid_use u = true -> existsb is_ambig (cl (render_use u)) = false.
Proof.
  intros Hu. destruct (valid_use_value u Hu) as (o & val & Huv).
  destruct (cl_use u o val Huv); reflexivity.
Qed.

Lemma uses_not_ambig us : forallb valid_use us = true -> existsb is_ambig (cl (render us)) = false.
Proof.
  induction us as [|u us IH]; intros H; [reflexivity|].
  cbn [forallb] in H. apply andb_true_iff in H. destruct H as [Hu Hus].
  unfold render. cbn [flat_map]. fold (render us). rewrite cl_app, existsb_app.
  rewrite (use_not_ambig u Hu), (IH Hus). reflexivity.
Qed.

Lemma uses_head_not_dd us : forallb valid_use us = true -> head_not_dd (cl (render us)).
Proof.
  destruct us as [|u us]; intros H; [exact I|].
  cbn [forallb] in H. apply andb_true_iff in H. destruct H as [Hu _].
  destruct (valid_use_value u Hu) as (o & val & Huv).
  unfold render. cbn [flat_map]. rewrite cl_app.
  destruct (cl_use u o val Huv); exact I.
Qed.

(* ---- cli_options_spec ----------------------------------------------------------------------------- *)
(* For every command line made of documented uses of flags (any spelling, `flag value` or `flag=value`,
   repeats allowed) around one file name, parse_args succeeds and the namespace is the default namespace
   with option := documented value for every use in order and filename := the file name. *)
Theorem cli_options_spec : forall us1 us2 f,
  forallb valid_use us1 = true -> forallb valid_use us2 = true -> is_filename f = true ->
  cli_parse (render us1 ++ f :: render us2)
  = COk (apply_uses us2 (oset (apply_uses us1 (ns_default CliTab.cli_args)) k_filename (PStr f))).
Proof.
  intros us1 us2 f H1 H2 Hf. unfold is_filename in Hf. destruct (is_arg_spec f Hf) as [Hfdd Hfc].
  unfold cli_parse, parse_argv.
  assert (Hcl : classify_all cfg AB AR (render us1 ++ f :: render us2)
                = cl (render us1) ++ (f, KArg) :: cl (render us2)).
  { rewrite (classify_all_app cfg AB AR (render us1) (f :: render us2) (render_not_dd us1 H1)).
    fold (cl (render us1)). f_equal.
    change (f :: render us2) with ([f] ++ render us2).
    rewrite (classify_all_app cfg AB AR [f] (render us2)).
    - cbn [map app]. rewrite Hfc. f_equal.
      rewrite <- (app_nil_r (render us2)).
      rewrite (classify_all_app cfg AB AR (render us2) [] (render_not_dd us2 H2)).
      cbn [classify_all]. rewrite app_nil_r. unfold cl. rewrite app_nil_r. reflexivity.
    - cbn [forallb]. rewrite Hfdd. reflexivity. }
  rewrite Hcl.
  assert (Hamb : existsb is_ambig (cl (render us1) ++ (f, KArg) :: cl (render us2)) = false).
  { rewrite existsb_app. rewrite (uses_not_ambig us1 H1). cbn [existsb is_ambig snd orb].
    apply (uses_not_ambig us2 H2). }
  rewrite Hamb.
  pose proof positional_ok_now as P. unfold positional_ok in P.
  destruct (first_positional AR) as [p|] eqn:Ep; [|discriminate].
  apply andb_true_iff in P. destruct P as [P Ptv]. apply andb_true_iff in P. destruct P as [P Pc].
  apply andb_true_iff in P. destruct P as [Pd Pt]. apply text_eqb_eq in Pd.
  rewrite (run_uses us1 _ _ H1). unfold st_ns at 1. cbn [ps_ns ps_pending ps_extras].
  match goal with
  | |- context [run _ _ ((f, KArg) :: _) ?st0] =>
      rewrite (run_positional cfg AR p f (cl (render us2)) st0 eq_refl Pt Pc (uses_head_not_dd us2 H2))
  end.
  cbn [ps_ns ps_extras]. rewrite Pd.
  rewrite <- (app_nil_r (cl (render us2))). rewrite (run_uses us2 [] _ H2).
  unfold st_ns. cbn [run ps_ns ps_pending ps_extras cbind]. reflexivity.
Qed.

(* the value of every key of the resulting namespace *)
Fixpoint meant (us : list use) (k : text) (d : option pval) : option pval :=
  match us with
  | [] => d
  | u :: r => meant r k (match use_value u with
                         | Some (o, v) => if text_eqb o k then Some v else d
                         | None => d
                         end)
  end.

Lemma ofind_apply_uses us : forall ns k, ofind (apply_uses us ns) k = meant us k (ofind ns k).
Proof.
  induction us as [|u us IH]; intros ns k; [reflexivity|].
  unfold apply_uses. cbn [fold_left meant]. fold (apply_uses us (apply_use ns u)). rewrite IH.
  unfold apply_use. destruct (use_value u) as [[o v]|]; [|reflexivity].
  rewrite ofind_oset. reflexivity.
Qed.

Corollary cli_options_lookup : forall us1 us2 f k,
  forallb valid_use us1 = true -> forallb valid_use us2 = true -> is_filename f = true ->
  exists ns, cli_parse (render us1 ++ f :: render us2) = COk ns /\
    ofind ns k = meant us2 k (if text_eqb k_filename k then Some (PStr f)
                              else meant us1 k (ofind (ns_default CliTab.cli_args) k)).
Proof.
  intros us1 us2 f k H1 H2 Hf. eexists. split; [apply (cli_options_spec us1 us2 f H1 H2 Hf)|].
  rewrite ofind_apply_uses, ofind_oset, ofind_apply_uses. reflexivity.
Qed.

(* one documented use of a flag: its option gets the documented value, every other key keeps its default *)
Corollary cli_flag_lookup : forall u o val f k,
  use_value u = Some (o, val) -> is_filename f = true ->
  exists ns, cli_parse (render_use u ++ [f]) = COk ns /\
    ofind ns k = if text_eqb k_filename k then Some (PStr f)
                 else if text_eqb o k then Some val else ofind (ns_default CliTab.cli_args) k.
Proof.
  intros u o val f k Hu Hf.
  assert (Hv : forallb valid_use [u] = true) by (cbn [forallb]; unfold valid_use; rewrite Hu; reflexivity).
  destruct (cli_options_lookup [u] [] f k Hv eq_refl Hf) as (ns & Hp & Hl).
  exists ns. split.
  - unfold render in Hp. cbn [flat_map] in Hp. rewrite app_nil_r in Hp. exact Hp.
  - rewrite Hl. cbn [meant]. rewrite Hu. reflexivity.
Qed.

(* ---- the defaults ----------------------------------------------------------------------------------- *)
(* the namespace when no flag is given (file name aside) *)
Example cli_default_namespace :
  ns_default CliTab.cli_args =
  [ (tx "filename", PNone); (tx "outfile", PNone); (tx "keyword_case", PNone); (tx "identifier_case", PNone);
    (tx "output_format", PNone); (tx "strip_comments", PBool false); (tx "reindent", PBool false);
    (tx "indent_width", PInt 2); (tx "indent_after_first", PBool false); (tx "indent_columns", PBool false);
    (tx "reindent_aligned", PBool false); (tx "use_space_around_operators", PBool false);
    (tx "wrap_after", PInt 0); (tx "comma_first", PBool false); (tx "compact", PBool false);
    (tx "encoding", PStr (tx "utf-8")) ].
Proof. vm_compute. reflexivity. Qed.

(* options not given mean "off": the dictionary the command line passes when no flag is used builds exactly
   the filter stack of format(sql) without options (whatever the file name) *)
Theorem cli_defaults_off : forall f,
  (match OptTab.validate_options (oset (ns_default CliTab.cli_args) k_filename (PStr f)) with
   | OOk vo => stack_of (format_kwargs vo)
   | OErr e => OErr e
   end) = stack_of [].
Proof. intros f. vm_compute. reflexivity. Qed.

(* and key by key: on every option validate_options / build_filter_stack read, the validated command-line
   dictionary either agrees with the validated empty dictionary or holds a falsy value (None / False) where the
   empty one has no entry (`options.get(key)` is then None) *)
Theorem cli_defaults_keys : forall f,
  match OptTab.validate_options (oset (ns_default CliTab.cli_args) k_filename (PStr f)), OptTab.validate_options [] with
  | OOk a, OOk b => forallb (fun k => match ofind a k, ofind b k with
                                      | Some x, Some y => py_eq x y
                                      | Some x, None => negb (py_truthy x)
                                      | None, None => true
                                      | None, Some _ => false
                                      end) OptTab.option_keys = true
  | _, _ => False
  end.
Proof. intros f. vm_compute. reflexivity. Qed.

(* ---- a finite family: the filter stack of the command line = the filter stack of the meant keywords --- *)
Example family_size : N.of_nat (length family) = 1536.
Proof. vm_compute. reflexivity. Qed.

Example family_valid : forallb (forallb valid_use) family = true.
Proof. vm_compute. reflexivity. Qed.

Lemma map_eq_in {X Y} (g h : X -> Y) l : map g l = map h l -> forall x, In x l -> g x = h x.
Proof.
  induction l as [|y l IH]; intros H x Hin; [contradiction|].
  cbn [map] in H. injection H as H0 H1. destruct Hin as [->|Hin]; [exact H0 | exact (IH H1 x Hin)].
Qed.

Lemma family_eq :
  map (fun us => cli_stack (render us ++ [fam_file])) family = map (fun us => COk (stack_of (meant_dict us))) family.
Proof. vm_compute. reflexivity. Qed.

(* for each of the 2^8 x 6 command lines of the family, format() called the way main() calls it builds the
   same filter stack as format(sql, **keywords the flags stand for) *)
Theorem cli_semantics_family : forall us, In us family ->
  cli_stack (render us ++ [fam_file]) = COk (stack_of (meant_dict us)).
Proof. exact (map_eq_in _ _ family family_eq). Qed.

(* ---- the open sites of main() in the current source -------------------------------------------------- *)
Lemma open_encodings_now :
  os_enc CliTab.cli_stdin_open = EncArgs /\ os_enc CliTab.cli_file_open = EncArgs /\
  os_enc CliTab.cli_out_open = EncArgs.
Proof. repeat split; reflexivity. Qed.

Lemma unl_no_cr s : no_cr s = true -> unl s = s.
Proof.
  induction s as [|c s IH]; intros H; [reflexivity|].
  cbn [no_cr forallb] in H. apply andb_true_iff in H. destruct H as [Hc Hs]. apply negb_true_iff in Hc.
  cbn [unl]. rewrite Hc. f_equal. apply IH. exact Hs.
Qed.

Lemma translate_nl_no_cr m s : no_cr s = true -> translate_nl m s = s.
Proof. intros H. destruct m; cbn [translate_nl]; [apply unl_no_cr; exact H | reflexivity]. Qed.

Lemma cc_roundtrip c s bs :
  (forall x, c = KOther x -> forall t b, xc_enc x t = Some b -> xc_dec x b = Ok t) ->
  cc_encode c s = Some bs -> cc_decode c bs = Ok s.
Proof.
  intros Hlaw H. destruct c as [| |x]; cbn [cc_encode cc_decode] in *.
  - apply utf8_roundtrip. exact H.
  - apply latin1_roundtrip. exact H.
  - apply (Hlaw x eq_refl). exact H.
Qed.

Section Writes.
  Variable lookup : text -> option xcodec.
  Variable format : text -> opts -> res text.
  Variable fs_read : text -> option (list N).
  Variable fs_can_write : text -> bool.
  Variable stdin : list N.

  Notation MAIN := (cli_main lookup format fs_read fs_can_write stdin).

  (* the bytes main() reads for the file name f *)
  Definition input_bytes (f : text) : option (list N) :=
    if text_eqb f CliTab.cli_stdin_marker then Some stdin else fs_read f.

  (* the newline mode of the open site that serves f *)
  Definition input_nl (f : text) : nl_mode :=
    os_nl (if text_eqb f CliTab.cli_stdin_marker then CliTab.cli_stdin_open else CliTab.cli_file_open).

  (* the text main() hands to format *)
  Lemma read_input_ok ns f e c bytes s :
    oget ns k_filename PNone = PStr f -> oget ns k_encoding PNone = PStr e -> resolve lookup e = Some c ->
    input_bytes f = Some bytes -> cc_decode c bytes = Ok s ->
    read_input lookup fs_read stdin cur_config ns = inr (translate_nl (input_nl f) s).
  Proof.
    intros Hf He Hc Hb Hd. unfold read_input, input_bytes, input_nl in *. rewrite Hf.
    cbn [cur_config cf_marker cf_stdin cf_file].
    destruct open_encodings_now as (E1 & E2 & _).
    destruct (text_eqb f CliTab.cli_stdin_marker) eqn:Em.
    - rewrite E1. cbn [enc_arg]. rewrite He. cbn [enc_value]. rewrite Hc. injection Hb as <-. rewrite Hd. reflexivity.
    - rewrite E2. cbn [enc_arg]. rewrite He. cbn [enc_value]. rewrite Hc, Hb, Hd. reflexivity.
  Qed.

  (* what main() does once the arguments are parsed, without any guard on the text: the text handed to format
     is the decoded input after the newline translation of the open mode *)
  Theorem cli_main_stdout_general : forall argv ns vo f e c bytes s out,
    cli_parse argv = COk ns ->
    oget ns k_filename PNone = PStr f -> oget ns k_encoding PNone = PStr e -> resolve lookup e = Some c ->
    input_bytes f = Some bytes -> cc_decode c bytes = Ok s ->
    py_truthy (oget ns k_outfile PNone) = false ->
    OptTab.validate_options ns = OOk vo ->
    format (translate_nl (input_nl f) s) vo = Ok out ->
    MAIN argv = {| cr_status := SReturn 0; cr_err := ENone; cr_stdout := out; cr_outfile := None |}.
  Proof.
    intros argv ns vo f e c bytes s out Hp Hf He Hc Hb Hd Ho Hv Hfmt.
    unfold cli_main, cli_main_with. cbn [cur_config cf_abbrev cf_args]. fold (cli_parse argv). rewrite Hp.
    unfold main_of_ns. fold cur_config. rewrite (read_input_ok ns f e c bytes s Hf He Hc Hb Hd).
    unfold open_output. rewrite Ho. unfold cli_validate. rewrite Hv, Hfmt. reflexivity.
  Qed.

  Theorem cli_main_outfile_general : forall argv ns vo f e c bytes s out p ob,
    cli_parse argv = COk ns ->
    oget ns k_filename PNone = PStr f -> oget ns k_encoding PNone = PStr e -> resolve lookup e = Some c ->
    input_bytes f = Some bytes -> cc_decode c bytes = Ok s ->
    oget ns k_outfile PNone = PStr p -> p <> [] -> fs_can_write p = true ->
    OptTab.validate_options ns = OOk vo ->
    format (translate_nl (input_nl f) s) vo = Ok out ->
    cc_encode c out = Some ob ->
    MAIN argv = {| cr_status := SReturn 0; cr_err := ENone; cr_stdout := []; cr_outfile := Some (p, ob) |}.
  Proof.
    intros argv ns vo f e c bytes s out p ob Hp Hf He Hc Hb Hd Ho Hne Hw Hv Hfmt Henc.
    unfold cli_main, cli_main_with. cbn [cur_config cf_abbrev cf_args]. fold (cli_parse argv). rewrite Hp.
    unfold main_of_ns. fold cur_config. rewrite (read_input_ok ns f e c bytes s Hf He Hc Hb Hd).
    unfold open_output. rewrite Ho.
    assert (Ht : py_truthy (PStr p) = true) by (destruct p; [contradiction | reflexivity]).
    rewrite Ht. cbn [cur_config cf_out]. destruct open_encodings_now as (_ & _ & E3). rewrite E3.
    cbn [enc_arg]. rewrite He. cbn [enc_value]. rewrite Hc, Hw.
    unfold cli_validate. rewrite Hv, Hfmt, Henc. reflexivity.
  Qed.

  (* ---- cli_writes_format: the C19 clause under its guards ------------------------------------------ *)
  (* The input (a file or stdin) holds the text s in the encoding e (utf-8, latin-1 or any codec with its own
     round-trip law); s contains no CR; the options are valid; the result of format is encodable.  Then the
     command exits with 0 and the chosen channel holds exactly format(s, options) - as text on stdout, encoded
     with e in the -o file.  `format` is arbitrary. *)
  Definition codec_law (c : ccodec) : Prop :=
    forall x, c = KOther x -> forall t b, xc_enc x t = Some b -> xc_dec x b = Ok t.

  Theorem cli_writes_format_stdout : forall argv ns vo f e c bytes s out,
    cli_parse argv = COk ns ->
    oget ns k_filename PNone = PStr f -> oget ns k_encoding PNone = PStr e -> resolve lookup e = Some c ->
    codec_law c -> input_bytes f = Some bytes -> cc_encode c s = Some bytes -> no_cr s = true ->
    py_truthy (oget ns k_outfile PNone) = false ->
    OptTab.validate_options ns = OOk vo -> format s vo = Ok out ->
    MAIN argv = {| cr_status := SReturn 0; cr_err := ENone; cr_stdout := out; cr_outfile := None |}.
  Proof.
    intros argv ns vo f e c bytes s out Hp Hf He Hc Hlaw Hb Hs Hcr Ho Hv Hfmt.
    apply (cli_main_stdout_general argv ns vo f e c bytes s out Hp Hf He Hc Hb (cc_roundtrip c s bytes Hlaw Hs) Ho Hv).
    rewrite (translate_nl_no_cr _ s Hcr). exact Hfmt.
  Qed.

  Theorem cli_writes_format_outfile : forall argv ns vo f e c bytes s out p ob,
    cli_parse argv = COk ns ->
    oget ns k_filename PNone = PStr f -> oget ns k_encoding PNone = PStr e -> resolve lookup e = Some c ->
    codec_law c -> input_bytes f = Some bytes -> cc_encode c s = Some bytes -> no_cr s = true ->
    oget ns k_outfile PNone = PStr p -> p <> [] -> fs_can_write p = true ->
    OptTab.validate_options ns = OOk vo -> format s vo = Ok out ->
    cc_encode c out = Some ob ->
    MAIN argv = {| cr_status := SReturn 0; cr_err := ENone; cr_stdout := []; cr_outfile := Some (p, ob) |}.
  Proof.
    intros argv ns vo f e c bytes s out p ob Hp Hf He Hc Hlaw Hb Hs Hcr Ho Hne Hw Hv Hfmt Henc.
    apply (cli_main_outfile_general argv ns vo f e c bytes s out p ob Hp Hf He Hc Hb
             (cc_roundtrip c s bytes Hlaw Hs) Ho Hne Hw Hv); [|exact Henc].
    rewrite (translate_nl_no_cr _ s Hcr). exact Hfmt.
  Qed.

  (* the four combinations input x output, spelled out *)
  Corollary cli_writes_file_stdout : forall argv ns vo f e c bytes s out,
    cli_parse argv = COk ns -> oget ns k_filename PNone = PStr f -> text_eqb f CliTab.cli_stdin_marker = false ->
    oget ns k_encoding PNone = PStr e -> resolve lookup e = Some c -> codec_law c ->
    fs_read f = Some bytes -> cc_encode c s = Some bytes -> no_cr s = true ->
    py_truthy (oget ns k_outfile PNone) = false ->
    OptTab.validate_options ns = OOk vo -> format s vo = Ok out ->
    MAIN argv = {| cr_status := SReturn 0; cr_err := ENone; cr_stdout := out; cr_outfile := None |}.
  Proof.
    intros argv ns vo f e c bytes s out Hp Hf Hm He Hc Hlaw Hb. apply (cli_writes_format_stdout argv ns vo f e c bytes s out Hp Hf He Hc Hlaw).
    unfold input_bytes. rewrite Hm. exact Hb.
  Qed.

  Corollary cli_writes_stdin_stdout : forall argv ns vo e c s out,
    cli_parse argv = COk ns -> oget ns k_filename PNone = PStr CliTab.cli_stdin_marker ->
    oget ns k_encoding PNone = PStr e -> resolve lookup e = Some c -> codec_law c ->
    cc_encode c s = Some stdin -> no_cr s = true ->
    py_truthy (oget ns k_outfile PNone) = false ->
    OptTab.validate_options ns = OOk vo -> format s vo = Ok out ->
    MAIN argv = {| cr_status := SReturn 0; cr_err := ENone; cr_stdout := out; cr_outfile := None |}.
  Proof.
    intros argv ns vo e c s out Hp Hf He Hc Hlaw. apply (cli_writes_format_stdout argv ns vo _ e c stdin s out Hp Hf He Hc Hlaw).
    unfold input_bytes. rewrite text_eqb_refl. reflexivity.
  Qed.

  Corollary cli_writes_file_outfile : forall argv ns vo f e c bytes s out p ob,
    cli_parse argv = COk ns -> oget ns k_filename PNone = PStr f -> text_eqb f CliTab.cli_stdin_marker = false ->
    oget ns k_encoding PNone = PStr e -> resolve lookup e = Some c -> codec_law c ->
    fs_read f = Some bytes -> cc_encode c s = Some bytes -> no_cr s = true ->
    oget ns k_outfile PNone = PStr p -> p <> [] -> fs_can_write p = true ->
    OptTab.validate_options ns = OOk vo -> format s vo = Ok out -> cc_encode c out = Some ob ->
    MAIN argv = {| cr_status := SReturn 0; cr_err := ENone; cr_stdout := []; cr_outfile := Some (p, ob) |}.
  Proof.
    intros argv ns vo f e c bytes s out p ob Hp Hf Hm He Hc Hlaw Hb.
    apply (cli_writes_format_outfile argv ns vo f e c bytes s out p ob Hp Hf He Hc Hlaw).
    unfold input_bytes. rewrite Hm. exact Hb.
  Qed.

  Corollary cli_writes_stdin_outfile : forall argv ns vo e c s out p ob,
    cli_parse argv = COk ns -> oget ns k_filename PNone = PStr CliTab.cli_stdin_marker ->
    oget ns k_encoding PNone = PStr e -> resolve lookup e = Some c -> codec_law c ->
    cc_encode c s = Some stdin -> no_cr s = true ->
    oget ns k_outfile PNone = PStr p -> p <> [] -> fs_can_write p = true ->
    OptTab.validate_options ns = OOk vo -> format s vo = Ok out -> cc_encode c out = Some ob ->
    MAIN argv = {| cr_status := SReturn 0; cr_err := ENone; cr_stdout := []; cr_outfile := Some (p, ob) |}.
  Proof.
    intros argv ns vo e c s out p ob Hp Hf He Hc Hlaw.
    apply (cli_writes_format_outfile argv ns vo _ e c stdin s out p ob Hp Hf He Hc Hlaw).
    unfold input_bytes. rewrite text_eqb_refl. reflexivity.
  Qed.
End Writes.

(* ---- the two halves together: a documented command line ------------------------------------------- *)
Lemma doc_options_not_filename :
  forallb (fun e : list text * text * vkind => negb (text_eqb (snd (fst e)) k_filename)) doc_flags = true.
Proof. vm_compute. reflexivity. Qed.

Lemma use_value_not_filename u o v : use_value u = Some (o, v) -> text_eqb o k_filename = false.
Proof.
  unfold use_value. destruct (doc_lookup doc_flags (u_flag u)) as [[o' k]|] eqn:D; [|discriminate].
  destruct (doc_lookup_sound _ _ _ _ D) as (fs & Hin & _).
  pose proof doc_options_not_filename as T. rewrite forallb_forall in T. specialize (T _ Hin).
  cbn [fst snd] in T. apply negb_true_iff in T.
  intros H. assert (o = o') as ->; [|exact T].
  destruct (u_val u) as [x|]; destruct (u_form u); try discriminate.
  - destruct (is_arg x); [|discriminate]. destruct (kind_value k x); cbn [option_map] in H; [|discriminate].
    injection H as <- _. reflexivity.
  - destruct (text_eqb x s_dashdash); [discriminate|]. destruct (kind_value k x); cbn [option_map] in H; [|discriminate].
    injection H as <- _. reflexivity.
  - destruct k; try discriminate. injection H as <- _. reflexivity.
Qed.

Lemma meant_filename us d : meant us k_filename d = d.
Proof.
  revert d. induction us as [|u us IH]; intros d; [reflexivity|].
  cbn [meant]. destruct (use_value u) as [[o v]|] eqn:E; [|apply IH].
  rewrite (use_value_not_filename u o v E). apply IH.
Qed.

(* sqlformat <documented flags> FILE|- <documented flags>: with the text s in the file / on stdin in the encoding
   the flags select, no CR in s, valid options and an encodable result, the command exits 0 and the channel
   the flags select (-o or stdout) holds format(s, options) - for every format function *)
Theorem cli_documented_writes : forall lookup format fs_read fs_can_write stdin us1 us2 f vo e c bytes s out,
  forallb valid_use us1 = true -> forallb valid_use us2 = true -> is_filename f = true ->
  let ns := apply_uses us2 (oset (apply_uses us1 (ns_default CliTab.cli_args)) k_filename (PStr f)) in
  oget ns k_encoding PNone = PStr e -> resolve lookup e = Some c -> codec_law c ->
  input_bytes fs_read stdin f = Some bytes -> cc_encode c s = Some bytes -> no_cr s = true ->
  OptTab.validate_options ns = OOk vo -> format s vo = Ok out ->
  match oget ns k_outfile PNone with
  | PStr (ch :: p) =>
      fs_can_write (ch :: p) = true -> forall ob, cc_encode c out = Some ob ->
      cli_main lookup format fs_read fs_can_write stdin (render us1 ++ f :: render us2)
      = {| cr_status := SReturn 0; cr_err := ENone; cr_stdout := []; cr_outfile := Some (ch :: p, ob) |}
  | v =>
      py_truthy v = false ->
      cli_main lookup format fs_read fs_can_write stdin (render us1 ++ f :: render us2)
      = {| cr_status := SReturn 0; cr_err := ENone; cr_stdout := out; cr_outfile := None |}
  end.
Proof.
  intros lookup format fs_read fs_can_write stdin us1 us2 f vo e c bytes s out H1 H2 Hf ns He Hc Hlaw Hb Hs Hcr Hv Hfmt.
  pose proof (cli_options_spec us1 us2 f H1 H2 Hf) as Hp. fold ns in Hp.
  assert (Hfn : oget ns k_filename PNone = PStr f).
  { unfold oget, ns. rewrite ofind_apply_uses, ofind_oset, text_eqb_refl. rewrite meant_filename. reflexivity. }
  destruct (oget ns k_outfile PNone) as [ | b | z | z | z | b | | [|ch p] | b ] eqn:Eo;
    try (intros Ht; apply (cli_writes_format_stdout lookup format fs_read fs_can_write stdin _ ns vo f e c bytes s out
                             Hp Hfn He Hc Hlaw Hb Hs Hcr); [rewrite Eo; exact Ht | exact Hv | exact Hfmt]).
  intros Hw ob Henc.
  apply (cli_writes_format_outfile lookup format fs_read fs_can_write stdin _ ns vo f e c bytes s out (ch :: p) ob
           Hp Hfn He Hc Hlaw Hb Hs Hcr Eo); [discriminate | exact Hw | exact Hv | exact Hfmt | exact Henc].
Qed.

(* ---- the hypotheses of cli_writes_format are satisfiable: concrete runs ------------------------------ *)
Ltac conj_compute := repeat match goal with |- _ /\ _ => split end; vm_compute; reflexivity.

Definition no_lookup : text -> option xcodec := fun _ => None.
Definition fmt_id : text -> opts -> res text := fun s _ => Ok s.
(* str.upper of the whole text (Gen/CaseTabs.v): a stand-in for a case-changing formatter *)
Definition fmt_upper : text -> opts -> res text := fun s _ => Ok (CaseTabs.upper s).
Definition fs_one (path content : list N) : text -> option (list N) :=
  fun p => if text_eqb p path then Some content else None.
Definition fs_any : text -> bool := fun _ => true.

(* sqlformat f.sql -r -k upper --encoding latin-1 -o out.sql   with f.sql = b"select \xe9" *)
Definition ex_argv : list text :=
  Eval vm_compute in [tx "f.sql"; tx "-r"; tx "-k"; tx "upper"; tx "--encoding"; tx "latin-1"; tx "-o"; tx "out.sql"].
Definition ex_text : text := Eval vm_compute in tx "select " ++ [233].
Definition ex_ns : opts := Eval vm_compute in match cli_parse ex_argv with COk ns => ns | _ => [] end.
Definition ex_vo : opts := Eval vm_compute in match OptTab.validate_options ex_ns with OOk vo => vo | OErr _ => [] end.

Example cli_writes_format_example :
  cli_parse ex_argv = COk ex_ns /\ oget ex_ns k_filename PNone = PStr (tx "f.sql") /\
  oget ex_ns k_encoding PNone = PStr (tx "latin-1") /\ resolve no_lookup (tx "latin-1") = Some KLatin1 /\
  cc_encode KLatin1 ex_text = Some ex_text /\ no_cr ex_text = true /\
  oget ex_ns k_outfile PNone = PStr (tx "out.sql") /\
  OptTab.validate_options ex_ns = OOk ex_vo /\ fmt_id ex_text ex_vo = Ok ex_text /\
  cli_main no_lookup fmt_id (fs_one (tx "f.sql") ex_text) fs_any [] ex_argv
  = {| cr_status := SReturn 0; cr_err := ENone; cr_stdout := []; cr_outfile := Some (tx "out.sql", ex_text) |}.
Proof. conj_compute. Qed.

(* ---- refutations: each guard is needed ----------------------------------------------------------------- *)
(* 1. a CR in the text (inside a string literal): with the universal-newline mode of the current open calls the
      text handed to format is not the decoded text.  Witness: f.sql / stdin = b"'a\r\nb'", format = identity:
      every other guard holds, the command succeeds and writes 'a\nb' instead of 'a\r\nb'. *)
Definition nl_text : text := [39; 97; 13; 10; 98; 39].
Definition nl_out : text := [39; 97; 10; 98; 39].

Theorem cli_newlines_refuted :
  utf8_encode nl_text = Some nl_text /\ fmt_id nl_text [] = Ok nl_text /\ nl_out <> nl_text /\
  cli_main no_lookup fmt_id (fs_one (tx "f.sql") nl_text) fs_any [] [tx "f.sql"]
  = {| cr_status := SReturn 0; cr_err := ENone; cr_stdout := nl_out; cr_outfile := None |} /\
  cli_main no_lookup fmt_id (fun _ => None) fs_any nl_text [tx "-"]
  = {| cr_status := SReturn 0; cr_err := ENone; cr_stdout := nl_out; cr_outfile := None |}.
Proof.
  split; [vm_compute; reflexivity|]. split; [reflexivity|]. split; [discriminate|].
  split; vm_compute; reflexivity.
Qed.

(* which newline mode the current source has (fails to check once the files are opened with newline='') *)
Theorem cli_newlines_current :
  nl_is_universal (os_nl CliTab.cli_file_open) = true /\ nl_is_universal (os_nl CliTab.cli_stdin_open) = true.
Proof. split; reflexivity. Qed.

(* with newline='' / '\n' at both sites the guard is not needed: the model then hands the decoded text over *)
Theorem cli_newlines_if_fixed : forall s, translate_nl NlNone s = s.
Proof. reflexivity. Qed.

(* 2. `--comma_first False` turns the option ON (type=bool is bool(str)): the documented reading of the word
      False is refuted; with -r the filter stack is the one of reindent=True, comma_first=True and differs from
      the one of reindent=True, comma_first=False. *)
Definition bf_stack_on : fstack :=
  Eval vm_compute in match stack_of [(o_reindent, PBool true); (o_comma_first, PBool true)] with OOk s => s | OErr _ => empty_stack end.
Definition bf_stack_off : fstack :=
  Eval vm_compute in match stack_of [(o_reindent, PBool true); (o_comma_first, PBool false)] with OOk s => s | OErr _ => empty_stack end.

Theorem cli_bool_flag_refuted :
  (exists ns, cli_parse [tx "f.sql"; tx "--comma_first"; tx "False"] = COk ns
              /\ ofind ns o_comma_first = Some (PBool true))
  /\ (exists ns, cli_parse [tx "f.sql"; tx "--compact"; tx "0"] = COk ns /\ ofind ns o_compact = Some (PBool true))
  /\ cli_stack [tx "f.sql"; tx "-r"; tx "--comma_first"; tx "False"] = COk (OOk bf_stack_on)
  /\ stack_of [(o_reindent, PBool true); (o_comma_first, PBool false)] = OOk bf_stack_off
  /\ stack_of [(o_reindent, PBool true); (o_comma_first, PBool true)] = OOk bf_stack_on
  /\ bf_stack_on <> bf_stack_off.
Proof.
  split; [eexists; split; vm_compute; reflexivity|].
  split; [eexists; split; vm_compute; reflexivity|].
  split; [vm_compute; reflexivity|]. split; [vm_compute; reflexivity|]. split; [vm_compute; reflexivity|].
  intros H. apply (f_equal fs_stmt) in H. vm_compute in H. discriminate H.
Qed.

(* only the empty string switches such an option off *)
Theorem cli_bool_flag_exact : forall v, is_arg v = true ->
  exists ns, cli_parse [tx "--comma_first"; v; tx "f.sql"] = COk ns
             /\ ofind ns o_comma_first = Some (PBool (match v with [] => false | _ => true end)).
Proof.
  intros v Hv.
  pose (u := {| u_flag := tx "--comma_first"; u_val := Some v; u_form := FSep |}).
  assert (Hd : doc_lookup doc_flags (tx "--comma_first") = Some (o_comma_first, VBoolStr)) by (vm_compute; reflexivity).
  assert (Hu : use_value u = Some (o_comma_first, PBool (match v with [] => false | _ => true end))).
  { unfold use_value, u. cbn [u_flag u_val u_form]. rewrite Hd. cbn iota beta. rewrite Hv. reflexivity. }
  assert (Hf : is_filename (tx "f.sql") = true) by (vm_compute; reflexivity).
  destruct (cli_flag_lookup u _ _ (tx "f.sql") o_comma_first Hu Hf) as (ns & Hp & Hl).
  exists ns. split; [exact Hp|]. rewrite Hl.
  assert (E1 : text_eqb k_filename o_comma_first = false) by (vm_compute; reflexivity).
  rewrite E1, text_eqb_refl. reflexivity.
Qed.

(* 3. an un-encodable result with -o: the file is opened with the INPUT encoding; upper-casing U+00FF gives
      U+0178, which Latin-1 cannot encode: UnicodeEncodeError escapes and the file is left empty.  Every
      other guard holds (no CR, valid options, decodable input, writable path); the same run to stdout is fine. *)
Definition ue_argv : list text := Eval vm_compute in [tx "f.sql"; tx "--encoding"; tx "latin-1"; tx "-o"; tx "out.sql"].
Definition ue_text : text := Eval vm_compute in tx "select " ++ [255].
Definition ue_out : text := Eval vm_compute in tx "SELECT " ++ [376].

Theorem cli_unencodable_refuted :
  cc_encode KLatin1 ue_text = Some ue_text /\ no_cr ue_text = true /\ fmt_upper ue_text [] = Ok ue_out /\
  cc_encode KLatin1 ue_out = None /\
  cli_main no_lookup fmt_upper (fs_one (tx "f.sql") ue_text) fs_any [] ue_argv
  = {| cr_status := SRaise XUnicodeEncodeError; cr_err := ENone; cr_stdout := [];
       cr_outfile := Some (tx "out.sql", []) |} /\
  cli_main no_lookup fmt_upper (fs_one (tx "f.sql") ue_text) fs_any [] [tx "f.sql"; tx "--encoding"; tx "latin-1"]
  = {| cr_status := SReturn 0; cr_err := ENone; cr_stdout := ue_out; cr_outfile := None |}.
Proof. conj_compute. Qed.

(* the output file is opened with args.encoding in the current source *)
Theorem cli_output_encoding_current : enc_src_is_args (os_enc CliTab.cli_out_open) = true.
Proof. reflexivity. Qed.

(* ---- the default of --encoding ---------------------------------------------------------------------------- *)
Definition sets (k : text) (u : use) : bool :=
  match use_value u with Some (o, _) => text_eqb o k | None => false end.

Lemma meant_untouched us k : forall d, existsb (sets k) us = false -> meant us k d = d.
Proof.
  induction us as [|u us IH]; intros d H; [reflexivity|].
  cbn [existsb] in H. apply orb_false_iff in H. destruct H as [Hu Hus].
  cbn [meant]. unfold sets in Hu. destruct (use_value u) as [[o v]|]; [rewrite Hu|]; apply IH; exact Hus.
Qed.

(* 'utf-8' is the default of --encoding; the three open sites (stdin, input file, output file) all take
   args.encoding; the name resolves to the UTF-8 codec; and a command line that does not use --encoding ends
   up with encoding = 'utf-8' in the namespace *)
Theorem cli_default_encoding_utf8 :
  CliTab.cli_default_encoding = tx "utf-8"
  /\ ofind (ns_default CliTab.cli_args) k_encoding = Some (PStr CliTab.cli_default_encoding)
  /\ os_enc CliTab.cli_stdin_open = EncArgs /\ os_enc CliTab.cli_file_open = EncArgs
  /\ os_enc CliTab.cli_out_open = EncArgs
  /\ (forall lookup, resolve lookup CliTab.cli_default_encoding = Some KUtf8)
  /\ (forall us1 us2 f,
        forallb valid_use us1 = true -> forallb valid_use us2 = true -> is_filename f = true ->
        existsb (sets k_encoding) us1 = false -> existsb (sets k_encoding) us2 = false ->
        exists ns, cli_parse (render us1 ++ f :: render us2) = COk ns
                   /\ oget ns k_encoding PNone = PStr (tx "utf-8")).
Proof.
  split; [vm_compute; reflexivity|]. split; [vm_compute; reflexivity|]. split; [reflexivity|].
  split; [reflexivity|]. split; [reflexivity|]. split; [intros lookup; vm_compute; reflexivity|].
  intros us1 us2 f H1 H2 Hf N1 N2.
  destruct (cli_options_lookup us1 us2 f k_encoding H1 H2 Hf) as (ns & Hp & Hl).
  exists ns. split; [exact Hp|]. unfold oget. rewrite Hl.
  assert (E1 : text_eqb k_filename k_encoding = false) by (vm_compute; reflexivity). rewrite E1.
  rewrite (meant_untouched us2 k_encoding _ N2), (meant_untouched us1 k_encoding _ N1).
  vm_compute. reflexivity.
Qed.

(* "Use "-" as FILE to read from stdin" (the parser's description) *)
Theorem cli_stdin_marker_dash : CliTab.cli_stdin_marker = tx "-".
Proof. vm_compute. reflexivity. Qed.

(* ---- an instance of cli_options_spec ------------------------------------------------------------------------ *)
Definition sp_us1 : list use :=
  Eval vm_compute in
  [ {| u_flag := tx "-k"; u_val := Some (tx "upper"); u_form := FSep |};
    {| u_flag := tx "--indent_width"; u_val := Some (tx "4"); u_form := FEq |};
    {| u_flag := tx "-a"; u_val := None; u_form := FSep |} ].
Definition sp_us2 : list use :=
  Eval vm_compute in
  [ {| u_flag := tx "--wrap_after"; u_val := Some (tx "-1"); u_form := FSep |};
    {| u_flag := tx "--keywords"; u_val := Some (tx "lower"); u_form := FEq |} ].
Definition sp_ns : opts :=
  Eval vm_compute in apply_uses sp_us2 (oset (apply_uses sp_us1 (ns_default CliTab.cli_args)) k_filename (PStr [45])).

Example cli_options_spec_example :
  forallb valid_use sp_us1 = true /\ forallb valid_use sp_us2 = true /\ is_filename (tx "-") = true /\
  render sp_us1 ++ tx "-" :: render sp_us2
  = [tx "-k"; tx "upper"; tx "--indent_width=4"; tx "-a"; tx "-"; tx "--wrap_after"; tx "-1"; tx "--keywords=lower"] /\
  cli_parse (render sp_us1 ++ tx "-" :: render sp_us2) = COk sp_ns /\
  ofind sp_ns o_keyword_case = Some (PStr (tx "lower")) /\ ofind sp_ns o_indent_width = Some (PInt 4%Z) /\
  ofind sp_ns o_reindent_aligned = Some (PBool true) /\ ofind sp_ns o_wrap_after = Some (PInt (-1)%Z) /\
  ofind sp_ns o_reindent = Some (PBool false) /\ ofind sp_ns k_filename = Some (PStr (tx "-")).
Proof. conj_compute. Qed.
