(* C15 - facts about the recursion-budget model of Sys/Budget.v. *)
From Coq Require Import List String NArith Arith Bool Lia.
From SqlModel Require Import Base PyStr Node Inv Passes Budget.
From SqlModel.Gen Require Import CaseTabs.
Import ListNotations.

(* ---- depth ---------------------------------------------------------------------------------- *)
Lemma depth_grp c v kids : depth (Grp c v kids) = S (depth_list kids).
Proof. reflexivity. Qed.

Lemma depth_list_cons k l : depth_list (k :: l) = Nat.max (depth k) (depth_list l).
Proof. reflexivity. Qed.

Lemma depth_list_leaves (toks : list tok) :
  depth_list (map (fun tk => Leaf (fst tk) (snd tk)) toks) = 0.
Proof. induction toks as [|tk toks IH]; [reflexivity|]. cbn [map]. rewrite depth_list_cons, IH. reflexivity. Qed.

(* an ungrouped statement, as the splitter yields it, has depth 1 *)
Lemma depth_statement_of toks : depth (statement_of toks) = 1.
Proof. unfold statement_of, mk_grp. rewrite depth_grp, depth_list_leaves. reflexivity. Qed.

Lemma depth_nest d : depth (nest d) = d.
Proof.
  induction d as [|d IH]; [reflexivity|].
  cbn [nest]. unfold mk_grp. rewrite depth_grp, !depth_list_cons, IH.
  change (depth (Leaf T_Punctuation [40%N])) with 0. change (depth (Leaf T_Punctuation [41%N])) with 0.
  change (depth_list []) with 0. lia.
Qed.

(* ---- mapM ------------------------------------------------------------------------------------ *)
Lemma mapM_cons {A B} (f : A -> res B) x l :
  mapM f (x :: l) = (y <- f x ;; r <- mapM f l ;; Ok (y :: r)).
Proof. reflexivity. Qed.

Lemma mapM_ok_map {A B} (f : A -> B) l : mapM (fun x => Ok (f x)) l = Ok (map f l).
Proof. induction l as [|x l IH]; [reflexivity|]. rewrite mapM_cons, IH. reflexivity. Qed.

Lemma mapM_transfer {A B} (f g : A -> res B) l r :
  (forall x y, In x l -> f x = Ok y -> g x = Ok y) -> mapM f l = Ok r -> mapM g l = Ok r.
Proof.
  revert r. induction l as [|x l IH]; intros r Hfg H; [exact H|].
  rewrite mapM_cons in *. destruct (f x) as [y|e] eqn:E; [|discriminate].
  rewrite (Hfg x y (or_introl eq_refl) E). cbn [bind] in *.
  destruct (mapM f l) as [r'|e] eqn:E2; [|discriminate].
  rewrite (IH r'); [exact H| |reflexivity]. intros x0 y0 Hin. apply Hfg. right. exact Hin.
Qed.

Lemma mapM_err_transfer {A B} (f g : A -> res B) l e :
  (forall x y, In x l -> f x = Ok y -> g x = Ok y) ->
  (forall x e, In x l -> f x = Err e -> e = RecursionError \/ g x = Err e) ->
  mapM f l = Err e -> e = RecursionError \/ mapM g l = Err e.
Proof.
  induction l as [|x l IH]; intros Hok Herr H; [discriminate|].
  rewrite mapM_cons in *. destruct (f x) as [y|e1] eqn:E.
  - rewrite (Hok x y (or_introl eq_refl) E). cbn [bind] in *.
    destruct (mapM f l) as [r'|e2] eqn:E2; [discriminate|]. injection H as <-.
    destruct IH as [->|IH'].
    + intros x0 y0 Hin. apply Hok. right. exact Hin.
    + intros x0 e0 Hin. apply Herr. right. exact Hin.
    + reflexivity.
    + left. reflexivity.
    + right. rewrite IH'. reflexivity.
  - cbn [bind] in H. injection H as <-.
    destruct (Herr x e1 (or_introl eq_refl) E) as [->|Hg]; [left; reflexivity|].
    right. rewrite Hg. reflexivity.
Qed.

Lemma mapM_in_ok {A B} (f : A -> res B) l r :
  mapM f l = Ok r -> forall y, In y r -> exists x, In x l /\ f x = Ok y.
Proof.
  revert r. induction l as [|x l IH]; intros r H y Hy.
  - injection H as <-. destruct Hy.
  - rewrite mapM_cons in H. destruct (f x) as [y0|] eqn:E; [|discriminate]. cbn [bind] in H.
    destruct (mapM f l) as [r'|] eqn:E2; [|discriminate]. injection H as <-.
    destruct Hy as [<-|Hy].
    + exists x. split; [left; reflexivity | exact E].
    + destruct (IH r' eq_refl y Hy) as (x0 & Hin & Hx0). exists x0. split; [right; exact Hin | exact Hx0].
Qed.

(* ---- flatten / str under a budget: they succeed exactly when the depth fits ------------------ *)
Lemma flatten_budget_spec n : forall L,
  flatten_budget L n = if depth n <=? L then Ok (flatten n) else Err RecursionError.
Proof.
  induction n as [ty v | c v kids IH] using node_ind'; intros L.
  - reflexivity.
  - rewrite depth_grp. destruct L as [|L']; [reflexivity|].
    cbn [flatten_budget flatten]. change (S (depth_list kids) <=? S L') with (depth_list kids <=? L').
    assert (Hm : mapM (fun k => flatten_budget L' k) kids =
                 if depth_list kids <=? L' then Ok (map flatten kids) else Err RecursionError).
    { induction IH as [|k kids Hk _ IHk]; [reflexivity|].
      rewrite mapM_cons, Hk, IHk, depth_list_cons. cbn [map].
      destruct (Nat.leb_spec (depth k) L') as [H1|H1];
        destruct (Nat.leb_spec (depth_list kids) L') as [H2|H2];
        destruct (Nat.leb_spec (Nat.max (depth k) (depth_list kids)) L') as [H3|H3];
        try reflexivity; lia. }
    rewrite Hm. destruct (depth_list kids <=? L'); [|reflexivity].
    cbn [bind]. rewrite flat_map_concat_map. reflexivity.
Qed.

Lemma flatten_values n : flat_map nvalue (flatten n) = text_of n.
Proof.
  induction n as [ty v | c v kids IH] using node_ind'.
  - cbn [flatten flat_map nvalue text_of]. apply app_nil_r.
  - cbn [flatten text_of]. induction IH as [|k kids Hk _ IHk]; [reflexivity|].
    cbn [flat_map]. rewrite flat_map_app, Hk, IHk. reflexivity.
Qed.

(* frames str(node) needs *)
Definition str_frames (n : node) : nat :=
  match n with Leaf _ _ => 0 | Grp _ _ _ => S (depth n) end.

Lemma text_of_budget_spec n L :
  text_of_budget L n = if str_frames n <=? L then Ok (text_of n) else Err RecursionError.
Proof.
  destruct n as [ty v | c v kids]; [reflexivity|].
  unfold text_of_budget, str_frames. destruct L as [|L']; [reflexivity|].
  rewrite flatten_budget_spec.
  change (S (depth (Grp c v kids)) <=? S L') with (depth (Grp c v kids) <=? L').
  destruct (depth (Grp c v kids) <=? L'); [|reflexivity].
  cbn [bind]. rewrite flatten_values. reflexivity.
Qed.

Lemma str_frames_le n : str_frames n <= S (depth n).
Proof. destruct n; cbn [str_frames]; lia. Qed.

Lemma text_of_budget_enough n L : S (depth n) <= L -> text_of_budget L n = Ok (text_of n).
Proof.
  intros H. rewrite text_of_budget_spec. pose proof (str_frames_le n) as Hs.
  destruct (Nat.leb_spec (str_frames n) L) as [_|H1]; [reflexivity | lia].
Qed.

(* str() of a depth-1 tree needs two frames *)
Lemma text_of_budget_flat n L : depth n <= 1 -> 2 <= L -> text_of_budget L n = Ok (text_of n).
Proof. intros Hd HL. apply text_of_budget_enough. lia. Qed.

Lemma text_of_budget_ok n L s : text_of_budget L n = Ok s -> s = text_of n.
Proof.
  rewrite text_of_budget_spec. destruct (str_frames n <=? L); [|discriminate]. intros H. injection H as <-. reflexivity.
Qed.

Lemma text_of_budget_err n L e : text_of_budget L n = Err e -> e = RecursionError.
Proof.
  rewrite text_of_budget_spec. destruct (str_frames n <=? L); [discriminate|]. intros H. injection H as <-. reflexivity.
Qed.

Lemma text_of_budget_mono n L L' s : L <= L' -> text_of_budget L n = Ok s -> text_of_budget L' n = Ok s.
Proof.
  intros HL. rewrite !text_of_budget_spec.
  destruct (Nat.leb_spec (str_frames n) L) as [H1|H1]; [|discriminate].
  destruct (Nat.leb_spec (str_frames n) L') as [H2|H2]; [auto | lia].
Qed.

(* str() of a tree deeper than the budget raises RecursionError *)
Lemma text_of_budget_deep d L : 0 < d -> L <= d -> text_of_budget L (nest d) = Err RecursionError.
Proof.
  intros Hd HL. rewrite text_of_budget_spec. destruct d as [|d]; [lia|].
  change (str_frames (nest (S d))) with (S (depth (nest (S d)))). rewrite depth_nest.
  destruct (Nat.leb_spec (S (S d)) L) as [H|H]; [lia | reflexivity].
Qed.

(* ---- the guard --------------------------------------------------------------------------------- *)
Lemma guarded_allowed {A} (r : res A) : allowed (guarded r).
Proof. destruct r as [a|e]; [exact I|]. destruct e; cbn [guarded allowed]; discriminate. Qed.

Lemma guarded_ok {A} (r : res A) v : guarded r = Ok v -> r = Ok v.
Proof. destruct r as [a|e]; [auto|]. destruct e; discriminate. Qed.

Lemma guarded_err {A} (r : res A) e :
  guarded r = Err e -> (e = SQLParseError /\ r = Err RecursionError) \/ (r = Err e /\ e <> RecursionError).
Proof.
  destruct r as [a|e0]; [discriminate|].
  destruct e0; cbn [guarded]; intros H; injection H as <-;
    try (right; split; [reflexivity | discriminate]).
  left. split; reflexivity.
Qed.

Lemma with_frames_ok {A} L c (k : nat -> res A) v :
  with_frames L c k = Ok v -> c <= L /\ k (L - c) = Ok v.
Proof. unfold with_frames. destruct (Nat.ltb_spec L c) as [H|H]; [discriminate|]. intros E. split; [lia | exact E]. Qed.

Lemma with_frames_enough {A} L c (k : nat -> res A) : c <= L -> with_frames L c k = k (L - c).
Proof. unfold with_frames. destruct (Nat.ltb_spec L c) as [H|H]; [lia | reflexivity]. Qed.

Lemma with_frames_err {A} L c (k : nat -> res A) e :
  with_frames L c k = Err e -> e = RecursionError \/ (c <= L /\ k (L - c) = Err e).
Proof.
  unfold with_frames. destruct (Nat.ltb_spec L c) as [H|H]; intros E.
  - injection E as <-. left. reflexivity.
  - right. split; [lia | exact E].
Qed.

(* ---- budgeted steps only ADD failures ---------------------------------------------------------- *)
Lemma step_budget_ok L p n n' : step_budget L p n = Ok n' -> p n = Ok n'.
Proof.
  unfold step_budget. destruct (p n) as [m|e]; [|discriminate]. cbn [bind].
  destruct (Nat.max (depth n) (depth m) + step_frames <=? L); [|discriminate]. auto.
Qed.

Lemma step_budget_err L p n e : step_budget L p n = Err e -> e = RecursionError \/ p n = Err e.
Proof.
  unfold step_budget. destruct (p n) as [m|e0]; cbn [bind].
  - destruct (Nat.max (depth n) (depth m) + step_frames <=? L); [discriminate|].
    intros H. injection H as <-. left. reflexivity.
  - intros H. right. exact H.
Qed.

Lemma step_budget_mono L L' p n n' : L <= L' -> step_budget L p n = Ok n' -> step_budget L' p n = Ok n'.
Proof.
  intros HL. unfold step_budget. destruct (p n) as [m|e]; [|discriminate]. cbn [bind].
  destruct (Nat.leb_spec (Nat.max (depth n) (depth m) + step_frames) L) as [H|H]; [|discriminate].
  destruct (Nat.leb_spec (Nat.max (depth n) (depth m) + step_frames) L') as [H2|H2]; [auto | lia].
Qed.

Lemma step_budget_enough L p n n' :
  p n = Ok n' -> Nat.max (depth n) (depth n') + step_frames <= L -> step_budget L p n = Ok n'.
Proof.
  intros Hp HL. unfold step_budget. rewrite Hp. cbn [bind].
  destruct (Nat.leb_spec (Nat.max (depth n) (depth n') + step_frames) L) as [H|H]; [reflexivity | lia].
Qed.

Lemma steps_budget_ok L ps : forall n n', steps_budget L ps n = Ok n' -> run_passes ps n = Ok n'.
Proof.
  induction ps as [|p ps IH]; intros n n' H; [exact H|].
  cbn [steps_budget run_passes] in *. destruct (step_budget L p n) as [m|e] eqn:E; [|discriminate].
  rewrite (step_budget_ok _ _ _ _ E). cbn [bind] in *. apply IH. exact H.
Qed.

Lemma steps_budget_err L ps : forall n e,
  steps_budget L ps n = Err e -> e = RecursionError \/ run_passes ps n = Err e.
Proof.
  induction ps as [|p ps IH]; intros n e H; [discriminate|].
  cbn [steps_budget run_passes] in *. destruct (step_budget L p n) as [m|e0] eqn:E.
  - rewrite (step_budget_ok _ _ _ _ E). cbn [bind] in *. apply IH. exact H.
  - cbn [bind] in H. injection H as <-. destruct (step_budget_err _ _ _ _ E) as [->|Hp]; [left; reflexivity|].
    right. rewrite Hp. reflexivity.
Qed.

Lemma steps_budget_mono L L' ps : L <= L' -> forall n n',
  steps_budget L ps n = Ok n' -> steps_budget L' ps n = Ok n'.
Proof.
  intros HL. induction ps as [|p ps IH]; intros n n' H; [exact H|].
  cbn [steps_budget] in *. destruct (step_budget L p n) as [m|e] eqn:E; [|discriminate].
  rewrite (step_budget_mono _ _ _ _ _ HL E). cbn [bind] in *. apply IH. exact H.
Qed.

(* a large enough budget does not bite *)
Lemma steps_budget_complete ps : forall n n', run_passes ps n = Ok n' ->
  exists L0, forall L, L0 <= L -> steps_budget L ps n = Ok n'.
Proof.
  induction ps as [|p ps IH]; intros n n' H.
  - exists 0. intros L _. exact H.
  - cbn [run_passes] in H. destruct (p n) as [m|e] eqn:E; [|discriminate]. cbn [bind] in H.
    destruct (IH m n' H) as [L1 HL1].
    exists (Nat.max L1 (Nat.max (depth n) (depth m) + step_frames)). intros L HL.
    cbn [steps_budget]. rewrite (step_budget_enough L p n m E); [|lia]. cbn [bind]. apply HL1. lia.
Qed.

Lemma group_budget_ok L n n' : group_budget L n = Ok n' -> group n = Ok n'.
Proof. unfold group_budget. intros H. apply with_frames_ok in H. destruct H as [_ H]. apply steps_budget_ok in H. exact H. Qed.

Lemma group_budget_err L n e : group_budget L n = Err e -> e = RecursionError \/ group n = Err e.
Proof.
  unfold group_budget. intros H. apply with_frames_err in H. destruct H as [->|[_ H]]; [left; reflexivity|].
  apply steps_budget_err in H. exact H.
Qed.

Lemma group_budget_mono L L' n n' : L <= L' -> group_budget L n = Ok n' -> group_budget L' n = Ok n'.
Proof.
  intros HL H. unfold group_budget in *. apply with_frames_ok in H. destruct H as [H1 H].
  rewrite with_frames_enough by lia. apply (steps_budget_mono (L - 1)); [lia | exact H].
Qed.

Lemma group_budget_complete n n' : group n = Ok n' -> exists L0, forall L, L0 <= L -> group_budget L n = Ok n'.
Proof.
  intros H. destruct (steps_budget_complete passes n n' H) as [L1 HL1].
  exists (S L1). intros L HL. unfold group_budget. rewrite with_frames_enough by lia. apply HL1. lia.
Qed.

(* ---- run(): the pipeline under the guard -------------------------------------------------------- *)
Section RunFacts.
  Variable lexf : text -> res (list tok).
  Variable procf : list tok -> list (list tok).
  Context {B : Type}.
  Variable per_b : nat -> node -> res B.
  Variable per_m : node -> res B.
  Hypothesis per_ok : forall l n b, per_b l n = Ok b -> per_m n = Ok b.
  Hypothesis per_err : forall l n e, per_b l n = Err e -> e = RecursionError \/ per_m n = Err e.

  Lemma run_budget_allowed L t : allowed (run_budget lexf procf L per_b t).
  Proof. apply guarded_allowed. Qed.

  Lemma run_budget_ok L t v : run_budget lexf procf L per_b t = Ok v ->
    pipeline_frames <= L /\ run_model lexf procf per_m t = Ok v.
  Proof.
    unfold run_budget, run_model. intros H. apply guarded_ok in H. apply with_frames_ok in H.
    destruct H as [HL H]. split; [exact HL|].
    destruct (lexf t) as [toks|e]; [|discriminate]. cbn [bind] in *.
    apply (mapM_transfer (fun s => per_b (L - pipeline_frames) (statement_of s))); [|exact H].
    intros x y _ Hx. apply (per_ok _ _ _ Hx).
  Qed.

  Lemma run_budget_err L t e : run_budget lexf procf L per_b t = Err e ->
    e = SQLParseError \/ run_model lexf procf per_m t = Err e.
  Proof.
    unfold run_budget, run_model. intros H. apply guarded_err in H.
    destruct H as [[-> _]|[H Hne]]; [left; reflexivity|]. right.
    apply with_frames_err in H. destruct H as [->|[_ H]]; [congruence|].
    destruct (lexf t) as [toks|e0]; [|exact H]. cbn [bind] in *.
    destruct (mapM_err_transfer (fun s => per_b (L - pipeline_frames) (statement_of s))
                (fun s => per_m (statement_of s)) (procf toks) e) as [->|Hm]; try assumption; try congruence.
    - intros x y _ Hx. apply (per_ok _ _ _ Hx).
    - intros x e1 _ Hx. apply (per_err _ _ _ Hx).
  Qed.

  Hypothesis per_mono : forall l l' n b, l <= l' -> per_b l n = Ok b -> per_b l' n = Ok b.

  Lemma run_budget_mono L L' t v : L <= L' ->
    run_budget lexf procf L per_b t = Ok v -> run_budget lexf procf L' per_b t = Ok v.
  Proof.
    intros HL H. unfold run_budget in *. apply guarded_ok in H. apply with_frames_ok in H.
    destruct H as [H1 H]. rewrite with_frames_enough by lia.
    destruct (lexf t) as [toks|e]; [|discriminate]. cbn [bind] in *.
    rewrite (mapM_transfer (fun s => per_b (L - pipeline_frames) (statement_of s))
               (fun s => per_b (L' - pipeline_frames) (statement_of s)) _ v); [reflexivity| |exact H].
    intros x y _ Hx. apply (per_mono (L - pipeline_frames)); [lia | exact Hx].
  Qed.

  Hypothesis per_complete : forall n b, per_m n = Ok b -> exists L0, forall l, L0 <= l -> per_b l n = Ok b.

  Lemma mapM_complete (l : list (list tok)) : forall r,
    mapM (fun s => per_m (statement_of s)) l = Ok r ->
    exists L0, forall L, L0 <= L -> mapM (fun s => per_b L (statement_of s)) l = Ok r.
  Proof.
    induction l as [|x l IH]; intros r H.
    - exists 0. intros L _. exact H.
    - rewrite mapM_cons in H. destruct (per_m (statement_of x)) as [y|] eqn:E; [|discriminate]. cbn [bind] in H.
      destruct (mapM (fun s => per_m (statement_of s)) l) as [r'|] eqn:E2; [|discriminate]. injection H as <-.
      destruct (per_complete _ _ E) as [L1 H1]. destruct (IH r' eq_refl) as [L2 H2].
      exists (Nat.max L1 L2). intros L HL. rewrite mapM_cons, H1 by lia. cbn [bind]. rewrite H2 by lia. reflexivity.
  Qed.

  Lemma run_budget_complete t v : run_model lexf procf per_m t = Ok v ->
    exists L0, forall L, L0 <= L -> run_budget lexf procf L per_b t = Ok v.
  Proof.
    unfold run_model, run_budget. intros H. destruct (lexf t) as [toks|e] eqn:El; [|discriminate]. cbn [bind] in H.
    destruct (mapM_complete _ _ H) as [L1 H1].
    exists (L1 + pipeline_frames). intros L HL. rewrite with_frames_enough by lia. cbn [bind].
    rewrite H1 by lia. reflexivity.
  Qed.
End RunFacts.

(* ---- the entry points ----------------------------------------------------------------------------- *)
Section EntryFacts.
  Variable lexf : text -> res (list tok).
  Variable procf : list tok -> list (list tok).

  (* parse / list(parsestream) *)
  Lemma parse_budget_allowed L t : entry_frames <= L -> allowed (parse_budget lexf procf L t).
  Proof. intros HL. unfold parse_budget. rewrite with_frames_enough by exact HL. apply guarded_allowed. Qed.

  Lemma parse_budget_ok L t v : parse_budget lexf procf L t = Ok v -> parse_model lexf procf t = Ok v.
  Proof.
    unfold parse_budget, parse_model. intros H. apply with_frames_ok in H. destruct H as [_ H].
    apply (run_budget_ok lexf procf (fun l n => group_budget l n) group) in H; [apply H|].
    intros l n b Hb. apply (group_budget_ok _ _ _ Hb).
  Qed.

  Lemma parse_budget_err L t e : entry_frames <= L -> parse_budget lexf procf L t = Err e ->
    e = SQLParseError \/ parse_model lexf procf t = Err e.
  Proof.
    unfold parse_budget, parse_model. intros HL H. rewrite with_frames_enough in H by exact HL.
    apply (run_budget_err lexf procf (fun l n => group_budget l n) group) in H; [exact H| |].
    - intros l n b Hb. apply (group_budget_ok _ _ _ Hb).
    - intros l n e0 Hb. apply (group_budget_err _ _ _ Hb).
  Qed.

  Lemma parse_budget_mono L L' t v : L <= L' ->
    parse_budget lexf procf L t = Ok v -> parse_budget lexf procf L' t = Ok v.
  Proof.
    intros HL H. unfold parse_budget in *. apply with_frames_ok in H. destruct H as [H1 H].
    rewrite with_frames_enough by lia.
    apply (run_budget_mono lexf procf (fun l n => group_budget l n)) with (L := L - entry_frames); [|lia|exact H].
    intros l l' n b Hl Hb. apply (group_budget_mono l l' n b Hl Hb).
  Qed.

  Lemma parse_budget_complete t v : parse_model lexf procf t = Ok v ->
    exists L0, forall L, L0 <= L -> parse_budget lexf procf L t = Ok v.
  Proof.
    unfold parse_model. intros H.
    destruct (run_budget_complete lexf procf (fun l n => group_budget l n) group) with (t := t) (v := v)
      as [L1 H1]; [|exact H|].
    - intros n b Hb. apply (group_budget_complete n b Hb).
    - exists (L1 + entry_frames). intros L HL. unfold parse_budget. rewrite with_frames_enough by lia.
      apply H1. lia.
  Qed.

  (* split: str(stmt) runs outside the guard, on statements that were never grouped *)
  Lemma run_flat_stmts L t stmts :
    run_budget lexf procf L (fun _ n => Ok n) t = Ok stmts ->
    pipeline_frames <= L /\ Forall (fun n => depth n = 1) stmts.
  Proof.
    intros H. unfold run_budget in H. apply guarded_ok in H. apply with_frames_ok in H.
    destruct H as [HL H]. split; [exact HL|].
    destruct (lexf t) as [toks|e]; [|discriminate]. cbn [bind] in H.
    rewrite (mapM_ok_map statement_of) in H. injection H as <-.
    apply Forall_forall. intros n Hn. apply in_map_iff in Hn. destruct Hn as (s & <- & _).
    apply depth_statement_of.
  Qed.

  Lemma mapM_str_flat L stmts : 2 <= L -> Forall (fun n => depth n = 1) stmts ->
    mapM (fun n => s <- text_of_budget L n ;; Ok (strip space_set s)) stmts
    = Ok (map (fun n => strip space_set (text_of n)) stmts).
  Proof.
    intros HL H. induction H as [|n stmts Hn _ IH]; [reflexivity|].
    rewrite mapM_cons, text_of_budget_flat by lia. cbn [bind]. rewrite IH. reflexivity.
  Qed.

  Lemma split_budget_allowed L t : entry_frames <= L -> allowed (split_budget lexf procf L t).
  Proof.
    intros HL. unfold split_budget. rewrite with_frames_enough by exact HL.
    destruct (run_budget lexf procf (L - entry_frames) (fun _ n => Ok n) t) as [stmts|e] eqn:E.
    - cbn [bind]. apply run_flat_stmts in E. destruct E as [HP Hd].
      rewrite mapM_str_flat; [exact I | unfold pipeline_frames in HP; lia | exact Hd].
    - cbn [bind]. pose proof (run_budget_allowed lexf procf (fun _ n => Ok n) (L - entry_frames) t) as Ha.
      rewrite E in Ha. exact Ha.
  Qed.

  Lemma split_budget_ok L t v : split_budget lexf procf L t = Ok v -> split_model lexf procf t = Ok v.
  Proof.
    unfold split_budget, split_model. intros H. apply with_frames_ok in H. destruct H as [_ H].
    destruct (run_budget lexf procf (L - entry_frames) (fun _ n => Ok n) t) as [stmts|e] eqn:E; [|discriminate].
    cbn [bind] in H. pose proof (run_flat_stmts _ _ _ E) as [HP Hd].
    apply (run_budget_ok lexf procf (fun _ n => Ok n) (fun n => Ok n)) in E; [|auto].
    destruct E as [_ E]. rewrite E. cbn [bind].
    rewrite mapM_str_flat in H; [exact H | unfold pipeline_frames in HP; lia | exact Hd].
  Qed.

  Lemma split_budget_err L t e : entry_frames <= L -> split_budget lexf procf L t = Err e ->
    e = SQLParseError \/ split_model lexf procf t = Err e.
  Proof.
    unfold split_budget, split_model. intros HL H. rewrite with_frames_enough in H by exact HL.
    destruct (run_budget lexf procf (L - entry_frames) (fun _ n => Ok n) t) as [stmts|e0] eqn:E.
    - cbn [bind] in H. apply run_flat_stmts in E. destruct E as [HP Hd].
      rewrite mapM_str_flat in H; [discriminate | unfold pipeline_frames in HP; lia | exact Hd].
    - cbn [bind] in H. injection H as <-.
      apply (run_budget_err lexf procf (fun _ n => Ok n) (fun n => Ok n)) in E; [|auto|intros; discriminate].
      destruct E as [->|E]; [left; reflexivity|]. right. rewrite E. reflexivity.
  Qed.

  Lemma split_budget_mono L L' t v : L <= L' ->
    split_budget lexf procf L t = Ok v -> split_budget lexf procf L' t = Ok v.
  Proof.
    intros HL H. unfold split_budget in *. apply with_frames_ok in H. destruct H as [H1 H].
    rewrite with_frames_enough by lia.
    destruct (run_budget lexf procf (L - entry_frames) (fun _ n => Ok n) t) as [stmts|e] eqn:E; [|discriminate].
    cbn [bind] in H. pose proof (run_flat_stmts _ _ _ E) as [HP Hd].
    rewrite (run_budget_mono lexf procf (fun _ n => Ok n)) with (L := L - entry_frames) (v := stmts);
      [|auto|lia|exact E].
    cbn [bind]. unfold pipeline_frames in HP.
    rewrite mapM_str_flat in H by (try exact Hd; lia). rewrite mapM_str_flat by (try exact Hd; lia). exact H.
  Qed.

  (* format: everything, including str(stmt), is under the guard *)
  Variable grouping : bool.
  Variable filters : list (node -> res node).
  Variable ser : text -> text.

  Lemma format_stmt_ok l n s :
    format_stmt_budget grouping filters ser l n = Ok s -> format_stmt_model grouping filters ser n = Ok s.
  Proof.
    unfold format_stmt_budget, format_stmt_model. intros H.
    destruct (if grouping then group_budget l n else Ok n) as [n1|e] eqn:E1; [|discriminate].
    assert (E1' : (if grouping then group n else Ok n) = Ok n1).
    { destruct grouping; [apply (group_budget_ok _ _ _ E1) | exact E1]. }
    rewrite E1'. cbn [bind] in *.
    destruct (steps_budget l filters n1) as [n2|e] eqn:E2; [|discriminate].
    rewrite (steps_budget_ok _ _ _ _ E2). cbn [bind] in *.
    destruct (text_of_budget l n2) as [s0|e] eqn:E3; [|discriminate]. cbn [bind] in H.
    apply text_of_budget_ok in E3. subst s0. exact H.
  Qed.

  Lemma format_stmt_err l n e :
    format_stmt_budget grouping filters ser l n = Err e ->
    e = RecursionError \/ format_stmt_model grouping filters ser n = Err e.
  Proof.
    unfold format_stmt_budget, format_stmt_model. intros H.
    destruct (if grouping then group_budget l n else Ok n) as [n1|e1] eqn:E1.
    - assert (E1' : (if grouping then group n else Ok n) = Ok n1).
      { destruct grouping; [apply (group_budget_ok _ _ _ E1) | exact E1]. }
      rewrite E1'. cbn [bind] in *.
      destruct (steps_budget l filters n1) as [n2|e2] eqn:E2.
      + rewrite (steps_budget_ok _ _ _ _ E2). cbn [bind] in *.
        destruct (text_of_budget l n2) as [s0|e3] eqn:E3; [discriminate|]. cbn [bind] in H.
        injection H as <-. left. apply (text_of_budget_err _ _ _ E3).
      + cbn [bind] in H. injection H as <-.
        destruct (steps_budget_err _ _ _ _ E2) as [->|Hr]; [left; reflexivity|]. right. rewrite Hr. reflexivity.
    - cbn [bind] in H. injection H as <-. destruct grouping; [|discriminate].
      destruct (group_budget_err _ _ _ E1) as [->|Hg]; [left; reflexivity|]. right. rewrite Hg. reflexivity.
  Qed.

  Lemma format_stmt_mono l l' n s : l <= l' ->
    format_stmt_budget grouping filters ser l n = Ok s -> format_stmt_budget grouping filters ser l' n = Ok s.
  Proof.
    intros Hl. unfold format_stmt_budget. intros H.
    destruct (if grouping then group_budget l n else Ok n) as [n1|e] eqn:E1; [|discriminate].
    assert (E1' : (if grouping then group_budget l' n else Ok n) = Ok n1).
    { destruct grouping; [apply (group_budget_mono l l' _ _ Hl E1) | exact E1]. }
    rewrite E1'. cbn [bind] in *.
    destruct (steps_budget l filters n1) as [n2|e] eqn:E2; [|discriminate].
    rewrite (steps_budget_mono l l' filters Hl _ _ E2). cbn [bind] in *.
    destruct (text_of_budget l n2) as [s0|e] eqn:E3; [|discriminate].
    rewrite (text_of_budget_mono _ _ _ _ Hl E3). exact H.
  Qed.

  Lemma format_stmt_complete n s : format_stmt_model grouping filters ser n = Ok s ->
    exists L0, forall l, L0 <= l -> format_stmt_budget grouping filters ser l n = Ok s.
  Proof.
    unfold format_stmt_model, format_stmt_budget. intros H.
    destruct (if grouping then group n else Ok n) as [n1|e] eqn:E1; [|discriminate]. cbn [bind] in H.
    destruct (run_passes filters n1) as [n2|e] eqn:E2; [|discriminate]. cbn [bind] in H.
    assert (Hg : exists L1, forall l, L1 <= l -> (if grouping then group_budget l n else Ok n) = Ok n1).
    { destruct grouping; [apply (group_budget_complete _ _ E1) | exists 0; intros; exact E1]. }
    destruct Hg as [L1 H1]. destruct (steps_budget_complete filters n1 n2 E2) as [L2 H2].
    exists (Nat.max (Nat.max L1 L2) (S (depth n2))). intros l Hl.
    rewrite H1 by lia. cbn [bind]. rewrite H2 by lia. cbn [bind].
    rewrite text_of_budget_enough by lia. exact H.
  Qed.

  Lemma format_budget_allowed L t : entry_frames <= L -> allowed (format_budget lexf procf grouping filters ser L t).
  Proof.
    intros HL. unfold format_budget. rewrite with_frames_enough by exact HL.
    pose proof (run_budget_allowed lexf procf (format_stmt_budget grouping filters ser) (L - entry_frames) t) as Ha.
    destruct (run_budget lexf procf (L - entry_frames) (format_stmt_budget grouping filters ser) t); [exact I | exact Ha].
  Qed.

  Lemma format_budget_ok L t v :
    format_budget lexf procf grouping filters ser L t = Ok v -> format_model lexf procf grouping filters ser t = Ok v.
  Proof.
    unfold format_budget, format_model. intros H. apply with_frames_ok in H. destruct H as [_ H].
    destruct (run_budget lexf procf (L - entry_frames) (format_stmt_budget grouping filters ser) t) as [parts|e] eqn:E;
      [|discriminate].
    apply (run_budget_ok lexf procf _ (format_stmt_model grouping filters ser)) in E; [|apply format_stmt_ok].
    destruct E as [_ E]. rewrite E. exact H.
  Qed.

  Lemma format_budget_err L t e : entry_frames <= L ->
    format_budget lexf procf grouping filters ser L t = Err e ->
    e = SQLParseError \/ format_model lexf procf grouping filters ser t = Err e.
  Proof.
    unfold format_budget, format_model. intros HL H. rewrite with_frames_enough in H by exact HL.
    destruct (run_budget lexf procf (L - entry_frames) (format_stmt_budget grouping filters ser) t) as [parts|e0] eqn:E;
      [discriminate|]. cbn [bind] in H. injection H as <-.
    apply (run_budget_err lexf procf _ (format_stmt_model grouping filters ser)) in E;
      [|apply format_stmt_ok|apply format_stmt_err].
    destruct E as [->|E]; [left; reflexivity|]. right. rewrite E. reflexivity.
  Qed.

  Lemma format_budget_mono L L' t v : L <= L' ->
    format_budget lexf procf grouping filters ser L t = Ok v ->
    format_budget lexf procf grouping filters ser L' t = Ok v.
  Proof.
    intros HL H. unfold format_budget in *. apply with_frames_ok in H. destruct H as [H1 H].
    rewrite with_frames_enough by lia.
    destruct (run_budget lexf procf (L - entry_frames) (format_stmt_budget grouping filters ser) t) as [parts|e] eqn:E;
      [|discriminate].
    rewrite (run_budget_mono lexf procf (format_stmt_budget grouping filters ser)) with (L := L - entry_frames) (v := parts);
      [exact H|apply format_stmt_mono|lia|exact E].
  Qed.

  Lemma format_budget_complete t v : format_model lexf procf grouping filters ser t = Ok v ->
    exists L0, forall L, L0 <= L -> format_budget lexf procf grouping filters ser L t = Ok v.
  Proof.
    unfold format_model. intros H.
    destruct (run_model lexf procf (format_stmt_model grouping filters ser) t) as [parts|e] eqn:E; [|discriminate].
    destruct (run_budget_complete lexf procf (format_stmt_budget grouping filters ser)
                (format_stmt_model grouping filters ser) format_stmt_complete t parts E) as [L1 H1].
    exists (L1 + entry_frames). intros L HL. unfold format_budget. rewrite with_frames_enough by lia.
    rewrite H1 by lia. exact H.
  Qed.
End EntryFacts.
