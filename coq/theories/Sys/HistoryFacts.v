(* C20 -- history independence: proofs about Sys/History.v, and the obligations on the generated
   inventory Gen/StateInv.v and on the generated program Gen/SingletonProg.v. *)
From Coq Require Import String.
From SqlModel Require Import Base.
From SqlModel.Sys Require Import Singleton History.
From SqlModel.Gen Require Import SingletonProg StateInv.
From SqlModel.Sys Require Import SingletonFacts.

(* ============================== obligations on generated data ================================== *)
(* THE obligation on the generated inventory: every persistent binding of the package is immutable,
   a never-written table, a token-type attribute created by _TokenType.__getattr__ (and every
   T.<path> the package mentions exists after import), or the lexer configuration written only by
   clear/set_SQL_REGEX/add_keywords/default_initialization/get_default_instance; and the probe
   workload changed none of them. *)
Lemma inventory_checked :
  inventory_ok bindings tokentype_uses tokentypes_created_by_workload
               attributes_created_by_workload defaults_changed_by_workload = true.
Proof. vm_compute. reflexivity. Qed.

Theorem C20_inventory : forallb state_ok bindings = true.
Proof.
  pose proof inventory_checked as H. unfold inventory_ok in H.
  repeat (apply andb_true_iff in H; destruct H as [H ?]). exact H.
Qed.
Print Assumptions C20_inventory.

Theorem C20_tokentypes_at_import :
  forallb (fun u => snd u) tokentype_uses = true /\ tokentypes_created_by_workload = [].
Proof.
  pose proof inventory_checked as H. unfold inventory_ok in H.
  repeat (apply andb_true_iff in H; destruct H as [H ?]).
  split; [assumption|]. destruct tokentypes_created_by_workload; [reflexivity|discriminate].
Qed.

(* the rule is not vacuous: a cache written by a call, a new Lexer field written by get_tokens, a
   configuration binding written from elsewhere are all rejected *)
Example state_ok_rejects_cache :
  state_ok (mkBinding "sqlparse.utils._cache" KConstTable ["sqlparse.utils.imt"%string] true SApi) = false.
Proof. reflexivity. Qed.
Example state_ok_rejects_new_field :
  state_ok (mkBinding "sqlparse.lexer.Lexer#_memo" KLexerConfig ["sqlparse.lexer.Lexer.get_tokens"%string] true SApi) = false.
Proof. reflexivity. Qed.
Example state_ok_rejects_foreign_writer :
  state_ok (mkBinding "sqlparse.lexer.Lexer#_keywords" KLexerConfig
                      ["sqlparse.lexer.Lexer.clear"; "sqlparse.lexer.Lexer.get_tokens"]%string true SApi) = false.
Proof. reflexivity. Qed.
Example state_ok_rejects_unstable :
  state_ok (mkBinding "sqlparse.keywords.KEYWORDS" KConstTable [] false SApi) = false.
Proof. reflexivity. Qed.

(* obligations on the generated program: default_initialization starts with clear(), and on the
   cleared configuration it installs rule list 0 and the expected dictionaries *)
Lemma body_clears_first : starts_with_clear (init_body get_default_instance_prog) = true.
Proof. vm_compute. reflexivity. Qed.

Lemma default_cfg_expected : default_cfg = mkCfg (Some default_rx) expected_kws.
Proof. vm_compute. reflexivity. Qed.

(* ============================== generic facts =================================================== *)
Lemma default_init_of_const p :
  starts_with_clear (init_body p) = true ->
  forall c c', default_init_of p c = default_init_of p c'.
Proof.
  unfold default_init_of. intros H c c'.
  destruct (init_body p) as [|i l]; [discriminate|].
  destruct i; try discriminate. cbn [fold_left exec_cfg]. reflexivity.
Qed.

Lemma default_init_const : forall c, default_init c = default_cfg.
Proof.
  intros c. unfold default_cfg, default_init.
  apply default_init_of_const. exact body_clears_first.
Qed.

Lemma eff_ensure st : eff (ensure st) = eff st.
Proof. destruct st as [[c|]]; reflexivity. Qed.

Lemma ensure_initialised st : lexer st <> None -> ensure st = st.
Proof. destruct st as [[c|]]; cbn [lexer ensure]; [reflexivity|congruence]. Qed.

Lemma apply_nonreconf st o : is_reconf o = false ->
  apply st o = if touches_lexer o then ensure st else st.
Proof. destruct o; intros H; try discriminate; reflexivity. Qed.

(* ============================== the theorems ==================================================== *)
(* a call (parse/split/format, valid or raising, complete or abandoned) and get_default_instance()
   leave an initialised persistent state exactly as it was *)
Theorem C20_calls_pure : forall st o,
  is_reconf o = false -> lexer st <> None -> apply st o = st.
Proof.
  intros st o Hr Hi. rewrite (apply_nonreconf st o Hr).
  destruct (touches_lexer o); [apply ensure_initialised; assumption|reflexivity].
Qed.
Print Assumptions C20_calls_pure.

(* ... and in ANY state (also before the first initialisation) they leave the configuration that
   calls work with unchanged; the only possible state change is None -> Some default_cfg *)
Theorem C20_calls_pure_eff : forall st o, is_reconf o = false -> eff (apply st o) = eff st.
Proof.
  intros st o Hr. rewrite (apply_nonreconf st o Hr).
  destruct (touches_lexer o); [apply eff_ensure|reflexivity].
Qed.

Theorem C20_first_call : forall st o,
  is_reconf o = false -> lexer st = None ->
  apply st o = (if touches_lexer o then mkP (Some default_cfg) else st).
Proof.
  intros st o Hr Hn. rewrite (apply_nonreconf st o Hr). unfold ensure. rewrite Hn. reflexivity.
Qed.

(* default_initialization() re-establishes the default configuration from ANY state *)
Theorem C20_reinit : forall st, lexer (apply st ODefaultInit) = Some default_cfg.
Proof. intros st. cbn [apply lexer]. rewrite default_init_const. reflexivity. Qed.
Print Assumptions C20_reinit.

Corollary C20_reinit_eff : forall st, eff (apply st ODefaultInit) = default_cfg.
Proof. intros st. unfold eff. rewrite C20_reinit. reflexivity. Qed.

(* invariant of a history, from any start state *)
Lemma run_hist_default : forall h st b,
  (b = true -> eff st = default_cfg) ->
  fold_left (fun b o => if is_reconf o then is_default_init o else b) h b = true ->
  eff (run_hist h st) = default_cfg.
Proof.
  induction h as [|o h IH]; intros st b Hb He; cbn [fold_left run_hist] in *.
  - apply Hb. exact He.
  - apply (IH (apply st o) (if is_reconf o then is_default_init o else b)); [|exact He].
    destruct (is_reconf o) eqn:Hr.
    + intros Hd. destruct o; try discriminate. apply C20_reinit_eff.
    + intros Hb'. rewrite (C20_calls_pure_eff st o Hr). apply Hb. exact Hb'.
Qed.

Theorem C20_history_state : forall h,
  ends_defaultb h = true -> eff (run_hist h fresh) = default_cfg.
Proof.
  intros h H. apply (run_hist_default h fresh true); [reflexivity|exact H].
Qed.

(* the same from an arbitrary state that works with the default configuration *)
Theorem C20_history_state_from : forall h st,
  eff st = default_cfg -> ends_defaultb h = true -> eff (run_hist h st) = default_cfg.
Proof. intros h st Hs H. apply (run_hist_default h st true); [intros _; exact Hs|exact H]. Qed.

(* and after a trailing default_initialization() from ANY state, whatever preceded it *)
Theorem C20_history_any_state : forall h st,
  ends_defaultb h = true -> existsb is_reconf h = true -> eff (run_hist h st) = default_cfg.
Proof.
  intros h st He Hx.
  assert (G : forall h st b, existsb is_reconf h = true ->
              fold_left (fun b o => if is_reconf o then is_default_init o else b) h b = true ->
              eff (run_hist h st) = default_cfg).
  { clear. induction h as [|o h IH]; intros st b Hx He; [discriminate|].
    cbn [existsb fold_left run_hist] in *.
    destruct (is_reconf o) eqn:Hr.
    - destruct (existsb is_reconf h) eqn:Hx'.
      + apply (IH _ _ eq_refl He).
      + apply (run_hist_default h (apply st o) (is_default_init o)); [|exact He].
        intros Hd. destruct o; try discriminate. apply C20_reinit_eff.
    - cbn [orb] in Hx. apply (IH _ _ Hx He). }
  apply (G h st true Hx He).
Qed.

Section Results.
  Variable R : Type.
  Variable sem : cfg -> op -> R.

  (* THE history theorem: whatever sequence of API operations preceded a call -- calls that
     returned, calls that raised, abandoned generators, reconfigurations followed by
     default_initialization() -- its result is the result in a fresh process *)
  Theorem C20_history : forall h call,
    ends_defaultb h = true -> result_after R sem h call = result_fresh R sem call.
  Proof.
    intros h call H. unfold result_after, result_fresh, result.
    rewrite (C20_history_state h H). reflexivity.
  Qed.

  (* calls of other threads interleaved (at call granularity) before or between: no effect, from any
     state -- no configuration operation in flight *)
  Theorem C20_concurrent_calls : forall st others call,
    forallb (fun o => negb (is_reconf o)) others = true ->
    result R sem (run_hist others st) call = result R sem st call.
  Proof.
    intros st others call. revert st. unfold result.
    induction others as [|o l IH]; intros st H; [reflexivity|].
    cbn [forallb] in H. apply andb_true_iff in H. destruct H as [Ho Hl].
    cbn [run_hist fold_left]. fold (run_hist l (apply st o)). rewrite (IH _ Hl).
    rewrite C20_calls_pure_eff; [reflexivity|]. destruct (is_reconf o); [discriminate|reflexivity].
  Qed.
End Results.
Print Assumptions C20_history.
Print Assumptions C20_concurrent_calls.

(* every configuration read made while other calls run (a generator reads _SQL_REGEX/_keywords
   lazily, token by token) sees the same configuration *)
Theorem C20_reads_stable : forall others st st',
  forallb (fun o => negb (is_reconf o)) others = true ->
  In st' (hist_states st others) -> eff st' = eff st.
Proof.
  induction others as [|o l IH]; intros st st' H Hin; [destruct Hin|].
  cbn [forallb] in H. apply andb_true_iff in H. destruct H as [Ho Hl].
  assert (Hr : is_reconf o = false) by (destruct (is_reconf o); [discriminate|reflexivity]).
  cbn [hist_states] in Hin. destruct Hin as [<-|Hin].
  - apply C20_calls_pure_eff; assumption.
  - rewrite (IH _ _ Hl Hin). apply C20_calls_pure_eff; assumption.
Qed.

(* the hypothesis "followed by default_initialization()" is necessary: clear() followed by nothing
   is visible to a call that reveals the configuration it reads *)
Theorem C20_history_needs_default :
  exists h call, ends_defaultb h = false /\
    result_after cfg (fun c _ => c) h call <> result_fresh cfg (fun c _ => c) call.
Proof.
  exists [OParse [115; 101; 108]%N; OClear], (OParse [115; 101; 108]%N). split; [reflexivity|].
  vm_compute. discriminate.
Qed.

(* ---- bridge to the thread machine: the lexer every racing first call gets has the default
   configuration, i.e. exactly the configuration [eff fresh] the history theorems speak about ---- *)
Theorem C20_first_calls_default_cfg : forall n sched t o,
  returned (run get_default_instance_prog n sched) t = Some o ->
  exists ob, nth_error (heap (run get_default_instance_prog n sched)) o = Some ob
             /\ cfg_of_obj ob = eff fresh.
Proof.
  intros n sched t o H. destruct (C20_init_safe n sched t o H) as (ob & Hn & Hr & Hk).
  exists ob. split; [exact Hn|]. unfold cfg_of_obj, eff. cbn [lexer fresh].
  rewrite Hr, Hk, default_cfg_expected. reflexivity.
Qed.
Print Assumptions C20_first_calls_default_cfg.

(* ============================== examples (hypotheses satisfiable) =============================== *)
Example ex_history_mixed :
  ends_defaultb [OParse [1]%N; OFormatInvalid 3; OAbandonedStream [2]%N 1; OClear; OParse [1]%N;
                 OAddKw 77; OSetRegex 5; ODefaultInit; OSplit [3]%N; OGetInstance] = true
  /\ run_hist [OParse [1]%N; OFormatInvalid 3; OAbandonedStream [2]%N 1; OClear; OParse [1]%N;
               OAddKw 77; OSetRegex 5; ODefaultInit; OSplit [3]%N; OGetInstance] fresh
     = mkP (Some default_cfg).
Proof. vm_compute. split; reflexivity. Qed.

Example ex_history_untouched :
  run_hist [OFormatInvalid 1; OAbandonedStream [1]%N 0] fresh = fresh.
Proof. reflexivity. Qed.

Example ex_not_default :
  ends_defaultb [ODefaultInit; OAddKw 77; OParse [1]%N] = false
  /\ eff (run_hist [ODefaultInit; OAddKw 77; OParse [1]%N] fresh) <> default_cfg.
Proof. split; [reflexivity|]. vm_compute. discriminate. Qed.
