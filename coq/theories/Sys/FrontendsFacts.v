(* Facts about the front-end model (Sys/Frontends.v): every input form that denotes the text s
   decodes to s, hence parse/split/format agree on all of them; the exact set of non-UTF-8 byte
   strings on which the unicode-escape fallback agrees with the documented Latin-1 reading. *)
From SqlModel Require Import Base PyStr Utf8 Utf8Facts Lexer.
From SqlModel.Sys Require Import FrontDefs Frontends.
From SqlModel.Gen Require Frontends.
From SqlModel.Inst Require Import Cur.
Local Open Scope N_scope.

(* ---- str and streams -------------------------------------------------------------------------- *)
Lemma decode_str fb s : decode_input_with fb (IStr s) = Ok s.
Proof. reflexivity. Qed.

Lemma decode_stream fb s : decode_input_with fb (IStream s) = Ok s.
Proof. reflexivity. Qed.

Lemma decode_other fb : decode_input_with fb IOther = Err TypeError.
Proof. reflexivity. Qed.

(* ---- UTF-8 bytes ------------------------------------------------------------------------------- *)
Lemma decode_utf8_noenc fb s bs :
  utf8_encode s = Some bs -> decode_input_with fb (IBytes bs None) = Ok s.
Proof.
  intros H. cbn [decode_input_with]. rewrite (utf8_roundtrip s bs H). reflexivity.
Qed.

Lemma decode_utf8_enc fb s bs :
  utf8_encode s = Some bs -> decode_input_with fb (IBytes bs (Some CUtf8)) = Ok s.
Proof. intros H. cbn [decode_input_with codec_decode]. exact (utf8_roundtrip s bs H). Qed.

(* the fallback is never consulted for bytes that are UTF-8, and the result is then the unique
   text whose UTF-8 encoding is bs *)
Lemma decode_noenc_utf8_inv fb bs s :
  utf8_decode bs = Ok s -> decode_input_with fb (IBytes bs None) = Ok s /\ utf8_encode s = Some bs.
Proof.
  intros H. split.
  - cbn [decode_input_with]. rewrite H. reflexivity.
  - apply utf8_decode_inj. exact H.
Qed.

(* ---- bytes with an encoding argument ---------------------------------------------------------- *)
(* the encoder matching a codec; for COther it is supplied by the caller together with its law *)
Definition encoder_of (c : codec) (oenc : list N -> option (list N)) : list N -> option (list N) :=
  match c with
  | CUtf8 => utf8_encode
  | CLatin1 => latin1_encode
  | COther _ => oenc
  end.

Definition roundtrips (c : codec) (oenc : list N -> option (list N)) (s bs : list N) : Prop :=
  encoder_of c oenc s = Some bs.

Section OtherCodec.
  (* any other codec: its encoder, its strict decoder, and the codec's own round-trip law *)
  Variable oenc : list N -> option (list N).
  Variable odec : list N -> res (list N).
  Hypothesis other_roundtrip : forall s bs, oenc s = Some bs -> odec bs = Ok s.

  Lemma decode_other_enc fb s bs :
    oenc s = Some bs -> decode_input_with fb (IBytes bs (Some (COther odec))) = Ok s.
  Proof. intros H. cbn [decode_input_with codec_decode]. apply other_roundtrip. exact H. Qed.
End OtherCodec.

Definition other_law (c : codec) (oenc : list N -> option (list N)) : Prop :=
  forall d, c = COther d -> forall s bs, oenc s = Some bs -> d bs = Ok s.

Lemma decode_bytes_enc fb c oenc s bs :
  other_law c oenc -> roundtrips c oenc s bs ->
  decode_input_with fb (IBytes bs (Some c)) = Ok s.
Proof.
  intros Hlaw H. destruct c as [| |d]; unfold roundtrips in H; cbn [encoder_of] in H.
  - apply decode_utf8_enc. exact H.
  - cbn [decode_input_with codec_decode]. apply latin1_roundtrip. exact H.
  - apply (decode_other_enc oenc d (Hlaw d eq_refl)). exact H.
Qed.

(* ---- the entry points ------------------------------------------------------------------------- *)
Lemma api_same {A} (f : list N -> res A) i j :
  decode_input i = decode_input j -> api f i = api f j.
Proof. intros H. unfold api. rewrite H. reflexivity. Qed.

Lemma api_of_text {A} (f : list N -> res A) i s :
  decode_input i = Ok s -> api f i = f s.
Proof. intros H. unfold api. rewrite H. reflexivity. Qed.

(* the forms under which a text s can be passed *)
Inductive denotes (oenc : list N -> option (list N)) (s : list N) : input -> Prop :=
| DStr : denotes oenc s (IStr s)
| DStream : denotes oenc s (IStream s)
| DUtf8NoEnc bs : utf8_encode s = Some bs -> denotes oenc s (IBytes bs None)
| DBytesEnc c bs : other_law c oenc -> roundtrips c oenc s bs -> denotes oenc s (IBytes bs (Some c)).

Lemma denotes_decode oenc s i : denotes oenc s i -> decode_input i = Ok s.
Proof.
  intros H. unfold decode_input. destruct H as [| |bs H|c bs Hl H].
  - apply decode_str.
  - apply decode_stream.
  - apply decode_utf8_noenc. exact H.
  - apply (decode_bytes_enc _ c oenc); assumption.
Qed.

Theorem api_forms_agree {A} (f : list N -> res A) oenc s i :
  denotes oenc s i -> api f i = api f (IStr s).
Proof.
  intros H. apply api_same. rewrite (denotes_decode oenc s i H). reflexivity.
Qed.

(* ---- non-UTF-8 bytes without an encoding: the fallback ---------------------------------------- *)
Lemma latin1_decode_forallb bs :
  latin1_decode bs = if forallb is_byte bs then Ok bs else Err UnicodeDecodeError.
Proof.
  induction bs as [|b bs IH]; [reflexivity|].
  cbn [latin1_decode forallb]. unfold is_byte at 1.
  destruct (b <? 256) eqn:Eb; cbn [andb]; [|reflexivity].
  rewrite IH. destruct (forallb is_byte bs); reflexivity.
Qed.

Definition no_backslash (bs : list N) : bool := forallb (fun b => negb (b =? 92)) bs.

(* every backslash is followed by a byte that starts no escape (so CPython keeps both verbatim) *)
Fixpoint benign (esc : bool) (bs : list N) : bool :=
  match bs with
  | [] => negb esc
  | b :: r =>
      if esc then match esc_class b with EUnknown => benign false r | _ => false end
      else if b =? 92 then benign true r else benign false r
  end.

Lemma no_backslash_benign bs : no_backslash bs = true -> benign false bs = true.
Proof.
  induction bs as [|b bs IH]; [reflexivity|].
  cbn [no_backslash forallb benign]. intros H. apply andb_true_iff in H. destruct H as [Hb Hr].
  destruct (b =? 92); [discriminate Hb|]. apply IH. exact Hr.
Qed.

Lemma esc_class_92 : esc_class 92 = EChar 92.
Proof. reflexivity. Qed.

Lemma benign_ok : forall bs,
  (benign false bs = true -> ue_go UNorm bs = Ok bs)
  /\ (benign true bs = true -> ue_go UEsc bs = Ok (92 :: bs)).
Proof.
  induction bs as [|b r IH]; [split; [reflexivity | discriminate]|].
  destruct IH as [IHn IHe]. split.
  - cbn [benign ue_go]. destruct (b =? 92) eqn:Eb.
    + intros H. apply N.eqb_eq in Eb. subst b. rewrite (IHe H). reflexivity.
    + intros H. rewrite (IHn H). reflexivity.
  - cbn [benign ue_go]. destruct (esc_class b) eqn:Ec; try discriminate.
    intros H. rewrite (IHn H). reflexivity.
Qed.

(* what a state may still emit beyond one character per remaining byte *)
Definition ust_extra (st : ust) : nat :=
  match st with UEsc | UOct _ _ => 1 | _ => 0 end.

Lemma rcons_ok_len c r out : rcons c r = Ok out -> exists o, r = Ok o /\ out = c :: o.
Proof. destruct r as [o|e]; cbn [rcons]; [|discriminate]. intros H. injection H as <-. eauto. Qed.

Lemma stuck_after_not_ok r out : stuck_after r <> Ok out.
Proof. destruct r; cbn [stuck_after]; discriminate. Qed.

Lemma ue_go_len : forall bs st out,
  ue_go st bs = Ok out -> (length out <= length bs + ust_extra st)%nat.
Proof.
  induction bs as [|b r IH]; intros st out H.
  - destruct st; cbn [ue_go] in H; try discriminate; injection H as <-; cbn; lia.
  - assert (Hnorm : forall o, (if b =? 92 then ue_go UEsc r else rcons b (ue_go UNorm r)) = Ok o ->
                              (length o <= S (length r))%nat).
    { intros o Ho. destruct (b =? 92).
      - apply IH in Ho. cbn [ust_extra] in Ho. lia.
      - apply rcons_ok_len in Ho. destruct Ho as (o' & Ho' & ->). apply IH in Ho'.
        cbn [ust_extra length] in *. lia. }
    destruct st as [| |k v|k v| |ne]; cbn [ue_go] in H; cbn [length ust_extra].
    + apply Hnorm in H. lia.
    + destruct (esc_class b) as [|c|d|k| |].
      * apply IH in H. cbn [ust_extra] in H. lia.
      * apply rcons_ok_len in H. destruct H as (o & Ho & ->). apply IH in Ho.
        cbn [ust_extra length] in *. lia.
      * apply IH in H. cbn [ust_extra] in H. lia.
      * apply IH in H. cbn [ust_extra] in H. lia.
      * apply IH in H. cbn [ust_extra] in H. lia.
      * apply rcons_ok_len in H. destruct H as (o & Ho & ->).
        apply rcons_ok_len in Ho. destruct Ho as (o' & Ho' & ->). apply IH in Ho'.
        cbn [ust_extra length] in *. lia.
    + destruct k as [|k'].
      * apply rcons_ok_len in H. destruct H as (o & Ho & ->). apply Hnorm in Ho.
        cbn [length]. lia.
      * destruct (oct_digit b) as [d|].
        -- apply IH in H. cbn [ust_extra] in H. lia.
        -- apply rcons_ok_len in H. destruct H as (o & Ho & ->). apply Hnorm in Ho.
           cbn [length]. lia.
    + destruct (hex_digit b) as [d|]; [|discriminate].
      destruct k as [|[|k']].
      * destruct (v * 16 + d <=? 1114111); [|discriminate].
        apply rcons_ok_len in H. destruct H as (o & Ho & ->). apply IH in Ho.
        cbn [ust_extra length] in *. lia.
      * destruct (v * 16 + d <=? 1114111); [|discriminate].
        apply rcons_ok_len in H. destruct H as (o & Ho & ->). apply IH in Ho.
        cbn [ust_extra length] in *. lia.
      * apply IH in H. cbn [ust_extra] in H. lia.
    + destruct (b =? 123); [|discriminate]. apply IH in H. cbn [ust_extra] in H. lia.
    + destruct (b =? 125).
      * destruct ne; [|discriminate]. exfalso. exact (stuck_after_not_ok _ _ H).
      * apply IH in H. cbn [ust_extra] in H. lia.
Qed.

Lemma benign_complete : forall bs,
  (ue_go UNorm bs = Ok bs -> benign false bs = true)
  /\ (ue_go UEsc bs = Ok (92 :: bs) -> benign true bs = true).
Proof.
  induction bs as [|b r IH]; [split; [reflexivity | discriminate]|].
  destruct IH as [IHn IHe]. split.
  - cbn [benign ue_go]. destruct (b =? 92) eqn:Eb.
    + apply N.eqb_eq in Eb. subst b. exact IHe.
    + intros H. apply rcons_ok_len in H. destruct H as (o & Ho & E). injection E as <-.
      exact (IHn Ho).
  - cbn [benign ue_go]. destruct (esc_class b) as [|c|d|k| |] eqn:Ec; intros H.
    + apply ue_go_len in H. cbn [length ust_extra] in H. lia.
    + apply rcons_ok_len in H. destruct H as (o & Ho & E). apply ue_go_len in Ho.
      injection E as _ E2. subst o. cbn [length ust_extra] in Ho. lia.
    + apply ue_go_len in H. cbn [length ust_extra] in H. lia.
    + apply ue_go_len in H. cbn [length ust_extra] in H. lia.
    + apply ue_go_len in H. cbn [length ust_extra] in H. lia.
    + apply rcons_ok_len in H. destruct H as (o & Ho & E).
      apply rcons_ok_len in Ho. destruct Ho as (o' & Ho' & ->).
      injection E as E. subst o'. exact (IHn Ho').
Qed.

(* the unicode-escape codec agrees with Latin-1 exactly on the benign byte strings *)
Theorem uescape_latin1_iff bs :
  forallb is_byte bs = true ->
  (unicode_escape_decode bs = latin1_decode bs <-> benign false bs = true).
Proof.
  intros Hb. rewrite latin1_decode_forallb. unfold unicode_escape_decode. rewrite Hb. split.
  - apply (proj1 (benign_complete bs)).
  - apply (proj1 (benign_ok bs)).
Qed.

Lemma uescape_latin1_benign bs : benign false bs = true -> unicode_escape_decode bs = latin1_decode bs.
Proof.
  intros H. rewrite latin1_decode_forallb. unfold unicode_escape_decode.
  destruct (forallb is_byte bs); [|reflexivity]. apply (proj1 (benign_ok bs)). exact H.
Qed.

Lemma decode_noenc_fallback fb bs e :
  utf8_decode bs = Err e -> decode_input_with fb (IBytes bs None) = fallback_decode fb bs.
Proof.
  intros H. cbn [decode_input_with]. rewrite H. rewrite (utf8_decode_err bs e H). reflexivity.
Qed.

(* whatever the fallback codec: non-UTF-8 bytes in which every backslash is followed by a
   non-escape byte are read as Latin-1 *)
Theorem decode_latin1_benign fb bs e :
  utf8_decode bs = Err e -> benign false bs = true ->
  decode_input_with fb (IBytes bs None) = latin1_decode bs.
Proof.
  intros Hu Hb. rewrite (decode_noenc_fallback fb bs e Hu). destruct fb; cbn [fallback_decode].
  - apply uescape_latin1_benign. exact Hb.
  - reflexivity.
Qed.

Theorem decode_latin1_no_backslash fb bs e :
  utf8_decode bs = Err e -> no_backslash bs = true ->
  decode_input_with fb (IBytes bs None) = latin1_decode bs.
Proof. intros Hu Hb. apply (decode_latin1_benign fb bs e Hu). apply no_backslash_benign. exact Hb. Qed.

(* with a Latin-1 fallback the documented behaviour holds for all non-UTF-8 bytes *)
Theorem decode_latin1_if_fb_latin1 bs e :
  utf8_decode bs = Err e -> decode_input_with FbLatin1 (IBytes bs None) = latin1_decode bs.
Proof. intros Hu. rewrite (decode_noenc_fallback _ bs e Hu). reflexivity. Qed.

(* with the unicode-escape fallback it holds exactly on the benign byte strings *)
Theorem decode_latin1_exact bs e :
  forallb is_byte bs = true -> utf8_decode bs = Err e ->
  (decode_input_with FbUnicodeEscape (IBytes bs None) = latin1_decode bs <-> benign false bs = true).
Proof.
  intros Hb Hu. rewrite (decode_noenc_fallback _ bs e Hu). cbn [fallback_decode].
  apply uescape_latin1_iff. exact Hb.
Qed.

(* witnesses: b"select '\xe9\\n'" (the two bytes backslash, n become a line feed) and b"'\xe9\\x'"
   (truncated \x escape: UnicodeDecodeError instead of a text) *)
Definition wit_interpreted : list N := [115; 101; 108; 101; 99; 116; 32; 39; 233; 92; 110; 39].
Definition wit_raises : list N := [39; 233; 92; 120; 39].

Lemma wit_interpreted_facts :
  utf8_decode wit_interpreted = Err UnicodeDecodeError
  /\ latin1_decode wit_interpreted = Ok wit_interpreted
  /\ decode_input_with FbUnicodeEscape (IBytes wit_interpreted None)
     = Ok [115; 101; 108; 101; 99; 116; 32; 39; 233; 10; 39].
Proof. vm_compute. repeat split. Qed.

Lemma wit_raises_facts :
  utf8_decode wit_raises = Err UnicodeDecodeError
  /\ latin1_decode wit_raises = Ok wit_raises
  /\ decode_input_with FbUnicodeEscape (IBytes wit_raises None) = Err UnicodeDecodeError.
Proof. vm_compute. repeat split. Qed.

Theorem decode_latin1_refuted_escape :
  (exists bs s, utf8_decode bs = Err UnicodeDecodeError
                /\ decode_input_with FbUnicodeEscape (IBytes bs None) = Ok s
                /\ latin1_decode bs <> Ok s)
  /\ (exists bs s, utf8_decode bs = Err UnicodeDecodeError
                   /\ latin1_decode bs = Ok s
                   /\ decode_input_with FbUnicodeEscape (IBytes bs None) = Err UnicodeDecodeError).
Proof.
  split.
  - exists wit_interpreted. eexists. split; [|split].
    + vm_compute. reflexivity.
    + vm_compute. reflexivity.
    + vm_compute. discriminate.
  - exists wit_raises. eexists. split; [|split]; vm_compute; reflexivity.
Qed.

(* for the fallback found in the current source: either it is Latin-1 and the documented reading
   holds for all non-UTF-8 bytes, or it is unicode-escape and the reading fails on a witness *)
Theorem decode_latin1_current :
  (Frontends.fe_fallback = FbLatin1
   /\ forall bs e, utf8_decode bs = Err e -> decode_input (IBytes bs None) = latin1_decode bs)
  \/ (Frontends.fe_fallback = FbUnicodeEscape
      /\ exists bs, utf8_decode bs = Err UnicodeDecodeError
                    /\ decode_input (IBytes bs None) <> latin1_decode bs).
Proof.
  unfold decode_input. destruct Frontends.fe_fallback.
  - right. split; [reflexivity|]. exists wit_raises. split; vm_compute; [reflexivity | discriminate].
  - left. split; [reflexivity|]. intros bs e Hu. apply (decode_latin1_if_fb_latin1 bs e Hu).
Qed.

Theorem decode_latin1_refuted_if_escape :
  Frontends.fe_fallback = FbUnicodeEscape ->
  exists bs, utf8_decode bs = Err UnicodeDecodeError
             /\ decode_input (IBytes bs None) <> latin1_decode bs.
Proof.
  intros Hfb. unfold decode_input. rewrite Hfb. exists wit_raises.
  split; vm_compute; [reflexivity | discriminate].
Qed.

(* the only outcomes for bytes without encoding: a text, UnicodeDecodeError, or (model limit) a
   well-formed \N{name} escape in a byte string without any other decoding error *)
Lemma rcons_err c r e : rcons c r = Err e -> r = Err e.
Proof. destruct r; cbn [rcons]; congruence. Qed.

Lemma ue_go_err : forall bs st e, ue_go st bs = Err e -> e = UnicodeDecodeError \/ e = Stuck.
Proof.
  induction bs as [|b r IH]; intros st e H.
  - destruct st; cbn [ue_go] in H; try discriminate; injection H as <-; auto.
  - assert (Hnorm : forall e', (if b =? 92 then ue_go UEsc r else rcons b (ue_go UNorm r)) = Err e' ->
                               e' = UnicodeDecodeError \/ e' = Stuck).
    { intros e' He. destruct (b =? 92); [exact (IH _ _ He)|]. apply rcons_err in He. exact (IH _ _ He). }
    destruct st as [| |k v|k v| |ne]; cbn [ue_go] in H.
    + exact (Hnorm _ H).
    + destruct (esc_class b) as [|c|d|k| |].
      * exact (IH _ _ H).
      * apply rcons_err in H. exact (IH _ _ H).
      * exact (IH _ _ H).
      * exact (IH _ _ H).
      * exact (IH _ _ H).
      * apply rcons_err in H. apply rcons_err in H. exact (IH _ _ H).
    + destruct k as [|k'].
      * apply rcons_err in H. exact (Hnorm _ H).
      * destruct (oct_digit b) as [d|]; [exact (IH _ _ H)|]. apply rcons_err in H. exact (Hnorm _ H).
    + destruct (hex_digit b) as [d|]; [|injection H as <-; auto].
      destruct k as [|[|k']].
      * destruct (v * 16 + d <=? 1114111); [|injection H as <-; auto].
        apply rcons_err in H. exact (IH _ _ H).
      * destruct (v * 16 + d <=? 1114111); [|injection H as <-; auto].
        apply rcons_err in H. exact (IH _ _ H).
      * exact (IH _ _ H).
    + destruct (b =? 123); [exact (IH _ _ H)|injection H as <-; auto].
    + destruct (b =? 125).
      * destruct ne; [|injection H as <-; auto].
        destruct (ue_go UNorm r) as [o|e'] eqn:Er; cbn [stuck_after] in H.
        -- injection H as <-. auto.
        -- injection H as <-. exact (IH _ _ Er).
      * exact (IH _ _ H).
Qed.

Theorem decode_noenc_errors fb bs e :
  decode_input_with fb (IBytes bs None) = Err e -> e = UnicodeDecodeError \/ e = Stuck.
Proof.
  cbn [decode_input_with]. destruct (utf8_decode bs) as [s|e0] eqn:Eu; [discriminate|].
  rewrite (utf8_decode_err bs e0 Eu). destruct fb; cbn [fallback_decode].
  - unfold unicode_escape_decode. destruct (forallb is_byte bs).
    + apply ue_go_err.
    + intros H. injection H as <-. auto.
  - intros H. left. exact (latin1_decode_err bs e H).
Qed.

(* ---- the facts about the source ---------------------------------------------------------------- *)
Lemma single_decode_now : fe_single_decode = true.
Proof. vm_compute. reflexivity. Qed.

Lemma parse_is_tuple_parsestream_now : fe_parse_is_tuple_parsestream = true.
Proof. vm_compute. reflexivity. Qed.

(* ---- examples: the hypotheses are satisfiable -------------------------------------------------- *)
Definition ex_text : list N := [115; 101; 108; 101; 99; 116; 32; 39; 233; 8364; 128512; 39; 59].  (* select 'é€😀'; *)

Example ex_utf8_noenc : exists bs, utf8_encode ex_text = Some bs /\ decode_input (IBytes bs None) = Ok ex_text.
Proof. eexists. split; [vm_compute; reflexivity|]. vm_compute. reflexivity. Qed.

Example ex_latin1_enc :
  roundtrips CLatin1 (fun _ => None) [39; 233; 39] [39; 233; 39]
  /\ decode_input (IBytes [39; 233; 39] (Some CLatin1)) = Ok [39; 233; 39].
Proof. split; vm_compute; reflexivity. Qed.

Example ex_benign :
  utf8_decode [39; 233; 92; 113; 39] = Err UnicodeDecodeError
  /\ benign false [39; 233; 92; 113; 39] = true
  /\ no_backslash [39; 233; 39] = true
  /\ decode_input_with FbUnicodeEscape (IBytes [39; 233; 92; 113; 39] None) = Ok [39; 233; 92; 113; 39].
Proof. vm_compute. repeat split. Qed.

Example ex_split_forms :
  api_split (IBytes [97; 59; 32; 195; 169] None) = Ok [[97; 59]; [233]]
  /\ api_split (IStr [97; 59; 32; 233]) = Ok [[97; 59]; [233]].
Proof. vm_compute. split; reflexivity. Qed.
